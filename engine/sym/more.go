package sym

import (
	"golang.org/x/tools/go/ssa"
)

const dgo = "github.com/cloudwego/dynamicgo/"

func registerMoreIntrinsics(e *Engine) {
	c := e.ctx
	// rt.Growslice(et, old GoSlice, cap) GoSlice — all call sites pass the byte type.
	e.intr[dgo+"internal/rt.Growslice"] = func(st *State, fn *ssa.Function, args []Value, ret func(Value)) {
		old := args[1].(Struct)
		op := st.asPtr(old[0])
		ol := st.concInt(st.asT(old[1]), "growslice len")
		want := st.asT(args[2])
		st.checkAlloc(want, 1, "growslice")
		nc := st.concInt(want, "growslice cap")
		if nc < ol {
			st.goPanic("growslice: len out of range")
		}
		id := st.allocN(nc, nil, "growslice")
		if ol > 0 {
			st.copyMem(Ptr{id, e.k64(0)}, op, ol)
		}
		ret(Struct{Ptr{id, e.k64(0)}, e.k64(ol), e.k64(nc)})
	}
	e.intr[dgo+"internal/rt.UnpackType"] = func(st *State, fn *ssa.Function, args []Value, ret func(Value)) {
		id := st.allocN(64, nil, "opaque *rt.GoType")
		st.newObj(id).Poison = "opaque runtime type descriptor"
		ret(Ptr{id, e.k64(0)})
	}
	e.intr[dgo+"internal/rt.UnpackEface"] = func(st *State, fn *ssa.Function, args []Value, ret func(Value)) {
		tid := st.allocN(64, nil, "opaque *rt.GoType")
		st.newObj(tid).Poison = "opaque runtime type descriptor"
		vid := st.allocN(16, nil, "opaque eface data")
		ret(Struct{Ptr{tid, e.k64(0)}, Ptr{vid, e.k64(0)}})
	}
	// runtime.strhash behind caching.StrHash: an uninterpreted function of the key bytes, so the
	// verdicts hold for every hash function and every collision pattern.  Keys of up to 7 bytes
	// are packed (length in the top byte) into the single 64-bit argument.
	e.intr[dgo+"internal/caching.StrHash"] = func(st *State, fn *ssa.Function, args []Value, ret func(Value)) {
		s := args[0].(Str)
		n := st.concInt(s.Len, "strhash key length")
		if n > 7 {
			st.unsupported("strhash of a key longer than 7 bytes")
		}
		packed := c.Const(uint64(n), 8)
		var bs []*T
		if n > 0 {
			bs = st.readBytes(s.P, n)
		}
		for i := int64(0); i < 7; i++ {
			if i < n {
				packed = c.Concat(packed, bs[i])
			} else {
				packed = c.Concat(packed, c.Const(0, 8))
			}
		}
		h := c.UF("strhash", 64, packed)
		// StrHash never returns 0
		ret(c.Ite(c.Eq(h, c.Const(0, 64)), c.Const(1, 64), h))
	}
	_ = c
	// functions replaced by "return the zero value": runtime/reflection glue that only
	// feeds the assembly hand-over or error texts
	for _, n := range zeroStubs {
		e.intr[n] = zeroStub
	}
}

var zeroStubs = []string{
	dgo + "internal/rt.findReflectRtypeItab",
}

func zeroStub(st *State, fn *ssa.Function, args []Value, ret func(Value)) {
	res := fn.Signature.Results()
	switch res.Len() {
	case 0:
		ret(nil)
	case 1:
		ret(st.e.zero(res.At(0).Type()))
	default:
		ret(st.e.zero(res))
	}
}
