package protowire

import (
	vrt "github.com/cloudwego/dynamicgo/internal/zzverif"
	gpw "google.golang.org/protobuf/encoding/protowire"
)

func init() {
	vrt.Register("VerifC20_AppendVarint", VerifC20_AppendVarint)
	vrt.Register("VerifC20_ConsumeVarint", VerifC20_ConsumeVarint)
}

// AppendVarint(v) is byte-identical to the reference for every uint64, and decodes back.
func VerifC20_AppendVarint() {
	v := vrt.U64()
	got := AppendVarint(nil, v)
	ref := gpw.AppendVarint(nil, v)
	vrt.Assert(len(got) == len(ref), "C20.varint.append.len")
	same := len(got) == len(ref)
	for i := 0; same && i < len(got); i++ {
		if got[i] != ref[i] {
			same = false
		}
	}
	vrt.Assert(same, "C20.varint.append.bytes")
	vrt.Assert(SizeVarint(v) == len(got), "C20.varint.size")
	back, n := ConsumeVarint(got)
	vrt.Assert(n == len(got) && back == v, "C20.varint.roundtrip")
	vrt.Reach("done")
}

// ConsumeVarint agrees with the reference on every byte string of length 0..N.
func VerifC20_ConsumeVarint() {
	n := vrt.Param("N")
	b := vrt.Bytes(n)
	v1, n1 := ConsumeVarint(b)
	v2, n2 := gpw.ConsumeVarint(b)
	if n2 >= 0 {
		vrt.Reach("ok")
		vrt.Assert(n1 == n2 && v1 == v2, "C20.varint.consume.ok")
	} else {
		vrt.Reach("err")
		vrt.Assert(n1 < 0, "C20.varint.consume.err")
	}
}
