package proto

import (
	"context"
	"fmt"

	vrt "github.com/cloudwego/dynamicgo/internal/zzverif"
	"github.com/cloudwego/dynamicgo/meta"
	"github.com/jhump/protoreflect/desc"
	"google.golang.org/protobuf/types/descriptorpb"
)

func init() { vrt.Register("VerifC15_Parse", VerifC15_Parse) }

// ---- schema model ----
//
// The schema is held as a plain Go model.  Under the engine the jhump/protoreflect descriptor
// objects handed to parse() are empty placeholders whose accessor methods are redirected to this
// model (vrt.Redirect): the parser/linker protoparse cannot be executed symbolically, its result is
// replaced by "the accessors report exactly the declared schema".  Natively the same model is
// printed as a .proto file and parsed by the real protoparse, and the same assertions run - which
// also checks the accessor contract against the real library.

type vMsg struct {
	p      *desc.MessageDescriptor
	name   string // simple name
	fqn    string
	fields []*vFld
}

type vFld struct {
	p        *desc.FieldDescriptor
	num      int32
	name, js string
	typ      descriptorpb.FieldDescriptorProto_Type
	repeated bool
	isMap    bool
	msg      *vMsg // message type (for maps: the synthetic entry message)
	key, val *vFld // map entry fields
	shallow  bool  // the referenced message is compared one level deep only (recursive references)
}

type vMeth struct {
	p       *desc.MethodDescriptor
	name    string
	in, out *vMsg
	cs, ss  bool
}

type vSvc struct {
	p       *desc.ServiceDescriptor
	name    string
	methods []*vMeth
}

type vFile struct {
	p    *desc.FileDescriptor
	pkg  string
	svcs []*vSvc
}

var (
	vMsgs  []*vMsg
	vFlds  []*vFld
	vMeths []*vMeth
	vSvcs  []*vSvc
	vFiles []*vFile
)

func vNewMsg(name, fqn string) *vMsg {
	m := &vMsg{p: new(desc.MessageDescriptor), name: name, fqn: fqn}
	vMsgs = append(vMsgs, m)
	return m
}

func (m *vMsg) add(f *vFld) *vFld {
	f.p = new(desc.FieldDescriptor)
	if f.js == "" {
		f.js = f.name
	}
	vFlds = append(vFlds, f)
	m.fields = append(m.fields, f)
	return f
}

func (m *vMsg) addMap(num int32, name string, kt descriptorpb.FieldDescriptorProto_Type, vt descriptorpb.FieldDescriptorProto_Type, vmsg *vMsg) *vFld {
	entry := vNewMsg(name+"Entry", m.fqn+"."+name+"Entry")
	k := entry.add(&vFld{num: 1, name: "key", typ: kt})
	v := entry.add(&vFld{num: 2, name: "value", typ: vt, msg: vmsg})
	return m.add(&vFld{num: num, name: name, typ: descriptorpb.FieldDescriptorProto_TYPE_MESSAGE, repeated: true, isMap: true, msg: entry, key: k, val: v})
}

func vMsgOf(p *desc.MessageDescriptor) *vMsg {
	for _, m := range vMsgs {
		if m.p == p {
			return m
		}
	}
	panic("model: unknown message descriptor")
}
func vFldOf(p *desc.FieldDescriptor) *vFld {
	for _, f := range vFlds {
		if f.p == p {
			return f
		}
	}
	panic("model: unknown field descriptor")
}
func vMethOf(p *desc.MethodDescriptor) *vMeth {
	for _, m := range vMeths {
		if m.p == p {
			return m
		}
	}
	panic("model: unknown method descriptor")
}
func vSvcOf(p *desc.ServiceDescriptor) *vSvc {
	for _, s := range vSvcs {
		if s.p == p {
			return s
		}
	}
	panic("model: unknown service descriptor")
}
func vFileOf(p *desc.FileDescriptor) *vFile {
	for _, f := range vFiles {
		if f.p == p {
			return f
		}
	}
	panic("model: unknown file descriptor")
}

// accessor contract of jhump/protoreflect desc, as used by proto/idl.go
func vFileGetServices(p *desc.FileDescriptor) []*desc.ServiceDescriptor {
	var out []*desc.ServiceDescriptor
	for _, s := range vFileOf(p).svcs {
		out = append(out, s.p)
	}
	return out
}
func vFileGetPackage(p *desc.FileDescriptor) string { return vFileOf(p).pkg }
func vSvcGetName(p *desc.ServiceDescriptor) string  { return vSvcOf(p).name }
func vSvcGetMethods(p *desc.ServiceDescriptor) []*desc.MethodDescriptor {
	var out []*desc.MethodDescriptor
	for _, m := range vSvcOf(p).methods {
		out = append(out, m.p)
	}
	return out
}
func vMethGetName(p *desc.MethodDescriptor) string                      { return vMethOf(p).name }
func vMethGetInputType(p *desc.MethodDescriptor) *desc.MessageDescriptor { return vMethOf(p).in.p }
func vMethGetOutputType(p *desc.MethodDescriptor) *desc.MessageDescriptor {
	return vMethOf(p).out.p
}
func vMethIsClientStreaming(p *desc.MethodDescriptor) bool { return vMethOf(p).cs }
func vMethIsServerStreaming(p *desc.MethodDescriptor) bool { return vMethOf(p).ss }
func vMsgGetName(p *desc.MessageDescriptor) string         { return vMsgOf(p).name }
func vMsgGetFQN(p *desc.MessageDescriptor) string          { return vMsgOf(p).fqn }
func vMsgGetFields(p *desc.MessageDescriptor) []*desc.FieldDescriptor {
	var out []*desc.FieldDescriptor
	for _, f := range vMsgOf(p).fields {
		out = append(out, f.p)
	}
	return out
}
func vFldGetType(p *desc.FieldDescriptor) descriptorpb.FieldDescriptorProto_Type { return vFldOf(p).typ }
func vFldGetNumber(p *desc.FieldDescriptor) int32                                { return vFldOf(p).num }
func vFldGetName(p *desc.FieldDescriptor) string                                 { return vFldOf(p).name }
func vFldGetJSONName(p *desc.FieldDescriptor) string                             { return vFldOf(p).js }
func vFldIsMap(p *desc.FieldDescriptor) bool                                     { return vFldOf(p).isMap }
func vFldIsRepeated(p *desc.FieldDescriptor) bool                                { return vFldOf(p).repeated }
func vFldGetMapKeyType(p *desc.FieldDescriptor) *desc.FieldDescriptor            { return vFldOf(p).key.p }
func vFldGetMapValueType(p *desc.FieldDescriptor) *desc.FieldDescriptor          { return vFldOf(p).val.p }
func vFldGetMessageType(p *desc.FieldDescriptor) *desc.MessageDescriptor {
	f := vFldOf(p)
	if f.msg == nil {
		return nil
	}
	return f.msg.p
}

func vInstallRedirects() {
	const d = "github.com/jhump/protoreflect/desc."
	vrt.Redirect("(*"+d+"FileDescriptor).GetServices", vFileGetServices)
	vrt.Redirect("(*"+d+"FileDescriptor).GetPackage", vFileGetPackage)
	vrt.Redirect("(*"+d+"ServiceDescriptor).GetName", vSvcGetName)
	vrt.Redirect("(*"+d+"ServiceDescriptor).GetMethods", vSvcGetMethods)
	vrt.Redirect("(*"+d+"MethodDescriptor).GetName", vMethGetName)
	vrt.Redirect("(*"+d+"MethodDescriptor).GetInputType", vMethGetInputType)
	vrt.Redirect("(*"+d+"MethodDescriptor).GetOutputType", vMethGetOutputType)
	vrt.Redirect("(*"+d+"MethodDescriptor).IsClientStreaming", vMethIsClientStreaming)
	vrt.Redirect("(*"+d+"MethodDescriptor).IsServerStreaming", vMethIsServerStreaming)
	vrt.Redirect("(*"+d+"MessageDescriptor).GetName", vMsgGetName)
	vrt.Redirect("(*"+d+"MessageDescriptor).GetFullyQualifiedName", vMsgGetFQN)
	vrt.Redirect("(*"+d+"MessageDescriptor).GetFields", vMsgGetFields)
	vrt.Redirect("(*"+d+"FieldDescriptor).GetType", vFldGetType)
	vrt.Redirect("(*"+d+"FieldDescriptor).GetNumber", vFldGetNumber)
	vrt.Redirect("(*"+d+"FieldDescriptor).GetName", vFldGetName)
	vrt.Redirect("(*"+d+"FieldDescriptor).GetJSONName", vFldGetJSONName)
	vrt.Redirect("(*"+d+"FieldDescriptor).IsMap", vFldIsMap)
	vrt.Redirect("(*"+d+"FieldDescriptor).IsRepeated", vFldIsRepeated)
	vrt.Redirect("(*"+d+"FieldDescriptor).GetMapKeyType", vFldGetMapKeyType)
	vrt.Redirect("(*"+d+"FieldDescriptor).GetMapValueType", vFldGetMapValueType)
	vrt.Redirect("(*"+d+"FieldDescriptor).GetMessageType", vFldGetMessageType)
}

// ---- printing the model as a .proto file (native route) ----

var vTypeNames = map[descriptorpb.FieldDescriptorProto_Type]string{
	1: "double", 2: "float", 3: "int64", 4: "uint64", 5: "int32", 6: "fixed64", 7: "fixed32", 8: "bool", 9: "string",
	12: "bytes", 13: "uint32", 15: "sfixed32", 16: "sfixed64", 17: "sint32", 18: "sint64",
}

func vTypeText(f *vFld) string {
	if f.typ == descriptorpb.FieldDescriptorProto_TYPE_MESSAGE {
		return "." + f.msg.fqn
	}
	if f.typ == descriptorpb.FieldDescriptorProto_TYPE_ENUM {
		return ".pb.E"
	}
	return vTypeNames[f.typ]
}

func vPrintMsg(m *vMsg, nested map[*vMsg][]*vMsg, indent string) string {
	s := indent + "message " + m.name + " {\n"
	for _, n := range nested[m] {
		s += vPrintMsg(n, nested, indent+"  ")
	}
	for _, f := range m.fields {
		switch {
		case f.isMap:
			s += fmt.Sprintf("%s  map<%s, %s> %s = %d;\n", indent, vTypeText(f.key), vTypeText(f.val), f.name, f.num)
		case f.repeated:
			s += fmt.Sprintf("%s  repeated %s %s = %d [json_name=\"%s\"];\n", indent, vTypeText(f), f.name, f.num, f.js)
		default:
			s += fmt.Sprintf("%s  %s %s = %d [json_name=\"%s\"];\n", indent, vTypeText(f), f.name, f.num, f.js)
		}
	}
	return s + indent + "}\n"
}

// ---- the check ----

// vSame: td is the descriptor of model message m: exactly its fields with number, names, kind,
// repeated / map structure, and message-typed fields lead to the descriptor of the very message
// named in the schema (checked recursively to the given depth).
// vKindPredicates: the integer / unsigned classification of a scalar type descriptor is that of the declared kind.
func vKindPredicates(t *TypeDescriptor, k descriptorpb.FieldDescriptorProto_Type, label string) {
	isInt, isUint := false, false
	switch k {
	case descriptorpb.FieldDescriptorProto_TYPE_INT32, descriptorpb.FieldDescriptorProto_TYPE_INT64,
		descriptorpb.FieldDescriptorProto_TYPE_SINT32, descriptorpb.FieldDescriptorProto_TYPE_SINT64,
		descriptorpb.FieldDescriptorProto_TYPE_SFIXED32, descriptorpb.FieldDescriptorProto_TYPE_SFIXED64:
		isInt = true
	case descriptorpb.FieldDescriptorProto_TYPE_UINT32, descriptorpb.FieldDescriptorProto_TYPE_UINT64,
		descriptorpb.FieldDescriptorProto_TYPE_FIXED32, descriptorpb.FieldDescriptorProto_TYPE_FIXED64:
		isInt, isUint = true, true
	}
	vrt.Assert(t.Type().IsInt() == isInt, label+".is-int")
	vrt.Assert(t.Type().IsUint() == isUint, label+".is-uint")
}

func vSame(td *TypeDescriptor, m *vMsg, depth int, label string) {
	vrt.Assert(td != nil && td.Type() == MESSAGE && td.Message() != nil, label+".is-message")
	if td == nil || td.Type() != MESSAGE || td.Message() == nil {
		return
	}
	md := td.Message()
	// (MessageDescriptor.FieldsCount() is the largest declared number, a capacity hint - not asserted)
	for _, f := range m.fields {
		fd := md.ByNumber(FieldNumber(f.num))
		vrt.Assert(fd != nil, label+".declared-number.found")
		if fd == nil {
			continue
		}
		vrt.Assert(fd.Name() == f.name && fd.JSONName() == f.js && fd.Number() == FieldNumber(f.num), label+".field.names")
		vrt.Assert(md.ByName(f.name) == fd && md.ByJSONName(f.js) == fd, label+".lookup-by-name")
		t := fd.Type()
		switch {
		case f.isMap:
			vrt.Assert(t.IsMap() && fd.IsMap(), label+".map.structure")
			if !t.IsMap() {
				continue
			}
			vrt.Assert(t.Key().Type() == Type(f.key.typ), label+".map.key-kind")
			vKindPredicates(t.Key(), f.key.typ, label+".map.key")
			vrt.Assert(fd.MapKey() == t.Key() && fd.MapValue() == t.Elem(), label+".map.field-accessors")
			if f.val.typ == descriptorpb.FieldDescriptorProto_TYPE_MESSAGE {
				if f.shallow {
					vrt.Assert(t.Elem().Type() == MESSAGE && t.Elem().Message() != nil && t.Elem().Message().ByNumber(1) != nil, label+".map.recursive-value")
				} else if depth > 0 {
					vSame(t.Elem(), f.val.msg, depth-1, label+".map.value")
				}
			} else {
				vrt.Assert(t.Elem().Type() == Type(f.val.typ), label+".map.value-kind")
			}
		case f.repeated:
			vrt.Assert(t.IsList() && fd.IsList(), label+".list.structure")
			if !t.IsList() {
				continue
			}
			packable := f.typ != descriptorpb.FieldDescriptorProto_TYPE_MESSAGE && f.typ != descriptorpb.FieldDescriptorProto_TYPE_STRING && f.typ != descriptorpb.FieldDescriptorProto_TYPE_BYTES
			vrt.Assert(t.IsPacked() == packable, label+".list.packedness")
			if f.typ == descriptorpb.FieldDescriptorProto_TYPE_MESSAGE {
				vrt.Assert(fd.Message() != nil && fd.Message() == t.Elem().Message(), label+".list.field-message")
				if f.shallow {
					vrt.Assert(t.Elem().Type() == MESSAGE && t.Elem().Message().ByNumber(1) != nil, label+".list.recursive-element")
				} else if depth > 0 {
					vSame(t.Elem(), f.msg, depth-1, label+".list.element")
				}
			} else {
				vrt.Assert(t.Elem().Type() == Type(f.typ), label+".list.element-kind")
			}
		case f.typ == descriptorpb.FieldDescriptorProto_TYPE_MESSAGE:
			vrt.Assert(!t.IsList() && !t.IsMap(), label+".singular.structure")
			vrt.Assert(fd.Message() != nil && fd.Message() == t.Message(), label+".singular.field-message")
			if depth > 0 {
				vSame(t, f.msg, depth-1, label+".message-field")
			}
		default:
			vrt.Assert(t.Type() == Type(f.typ) && !t.IsList() && !t.IsMap(), label+".scalar.kind")
			vKindPredicates(t, f.typ, label+".scalar")
		}
	}
	// undeclared numbers and names are not found
	for _, n := range []int32{1, 2, 3, 4, 5, 6, 7, 8, 14, 15, 16, 17, 126, 127, 128, 129, 299, 300, 301, 1000, 536870911} {
		declared := false
		for _, f := range m.fields {
			if f.num == n {
				declared = true
			}
		}
		if !declared {
			vrt.Assert(md.ByNumber(FieldNumber(n)) == nil, label+".undeclared-number.nil")
		}
	}
	for _, k := range []string{"nope", "X", "sval", ""} {
		known := false
		for _, f := range m.fields {
			if f.name == k || f.js == k {
				known = true
			}
		}
		if !known {
			vrt.Assert(md.ByName(k) == nil && md.ByJSONName(k) == nil, label+".undeclared-name.nil")
		}
	}
}

// VerifC15_Parse: the service descriptor built from a schema of the harness family exposes exactly the
// declared methods (per ParseServiceMode) and message descriptors that mirror the schema.
func VerifC15_Parse() {
	mode := meta.ParseServiceMode(vrt.Param("MODE")) // 0 last, 1 first, 2 combine
	k := descriptorpb.FieldDescriptorProto_Type(vrt.Param("K"))
	kt := descriptorpb.FieldDescriptorProto_Type(vrt.Param("KT"))
	vMsgs, vFlds, vMeths, vSvcs, vFiles = nil, nil, nil, nil, nil

	// field numbers of the scalar under test and of the nested M.x are symbolic
	// (a symbolic number makes the dense id table's size symbolic: a table of numbers instead)
	fn := int32(vrt.Param("FN"))
	nx := int32(vrt.Param("NX"))

	A := vNewMsg("A", "pb.A")
	AM := vNewMsg("M", "pb.A.M")
	AM.add(&vFld{num: nx, name: "x", typ: descriptorpb.FieldDescriptorProto_TYPE_INT32})
	A.add(&vFld{num: 1, name: "m", typ: descriptorpb.FieldDescriptorProto_TYPE_MESSAGE, msg: AM})
	B := vNewMsg("B", "pb.B")
	BM := vNewMsg("M", "pb.B.M")
	BM.add(&vFld{num: 1, name: "y", typ: descriptorpb.FieldDescriptorProto_TYPE_STRING})
	BM.add(&vFld{num: 2, name: "z_val", js: "zVal", typ: k})
	B.add(&vFld{num: 1, name: "m", typ: descriptorpb.FieldDescriptorProto_TYPE_MESSAGE, msg: BM})
	B.add(&vFld{num: 2, name: "ms", typ: descriptorpb.FieldDescriptorProto_TYPE_MESSAGE, msg: BM, repeated: true})
	Req := vNewMsg("Req", "pb.Req")
	Req.add(&vFld{num: 1, name: "a", typ: descriptorpb.FieldDescriptorProto_TYPE_MESSAGE, msg: A})
	Req.add(&vFld{num: 2, name: "b", typ: descriptorpb.FieldDescriptorProto_TYPE_MESSAGE, msg: B})
	Req.add(&vFld{num: 3, name: "self", typ: descriptorpb.FieldDescriptorProto_TYPE_MESSAGE, msg: Req})
	Req.add(&vFld{num: 11, name: "uid", js: "UID", typ: descriptorpb.FieldDescriptorProto_TYPE_STRING})        // explicit JSON name of the same length
	Req.add(&vFld{num: 12, name: "trace_id", js: "trace-id", typ: descriptorpb.FieldDescriptorProto_TYPE_INT64}) // ... and with a character no default name has
	Req.add(&vFld{num: 9, name: "selfs", typ: descriptorpb.FieldDescriptorProto_TYPE_MESSAGE, msg: Req, repeated: true, shallow: true})
	Req.addMap(10, "selfm", descriptorpb.FieldDescriptorProto_TYPE_STRING, descriptorpb.FieldDescriptorProto_TYPE_MESSAGE, Req).shallow = true
	Req.addMap(4, "mp", kt, descriptorpb.FieldDescriptorProto_TYPE_MESSAGE, BM)
	Req.add(&vFld{num: 5, name: "r", typ: descriptorpb.FieldDescriptorProto_TYPE_INT32, repeated: true})
	Req.addMap(6, "ms", descriptorpb.FieldDescriptorProto_TYPE_STRING, descriptorpb.FieldDescriptorProto_TYPE_SINT64, nil)
	Req.add(&vFld{num: fn, name: "s_val", js: "sVal", typ: k})
	Req.add(&vFld{num: fn + 1, name: "rk", typ: k, repeated: true}) // repeated field of the kind under test (packedness)
	Resp := vNewMsg("Resp", "pb.Resp")
	Resp.add(&vFld{num: 1, name: "b", typ: descriptorpb.FieldDescriptorProto_TYPE_MESSAGE, msg: B})
	Resp.add(&vFld{num: 2, name: "am", typ: descriptorpb.FieldDescriptorProto_TYPE_MESSAGE, msg: AM})
	Resp.add(&vFld{num: 3, name: "rs", typ: descriptorpb.FieldDescriptorProto_TYPE_STRING, repeated: true})

	cs, ss := vrt.Bool(), vrt.Bool()
	mDo := &vMeth{p: new(desc.MethodDescriptor), name: "Do", in: Req, out: Resp, cs: cs, ss: ss}
	mTwo := &vMeth{p: new(desc.MethodDescriptor), name: "Two", in: Resp, out: Req}
	mOther := &vMeth{p: new(desc.MethodDescriptor), name: "Other", in: A, out: B}
	vMeths = []*vMeth{mDo, mTwo, mOther}
	s1 := &vSvc{p: new(desc.ServiceDescriptor), name: "S1", methods: []*vMeth{mDo, mTwo}}
	s2 := &vSvc{p: new(desc.ServiceDescriptor), name: "S2", methods: []*vMeth{mOther}}
	vSvcs = []*vSvc{s1, s2}
	file := &vFile{p: new(desc.FileDescriptor), pkg: "pb", svcs: vSvcs}
	vFiles = []*vFile{file}

	var sd *ServiceDescriptor
	var err error
	opts := Options{ParseServiceMode: mode}
	if vrt.Symbolic() {
		vInstallRedirects()
		sd, err = parse(context.Background(), file.p, mode, opts)
	} else {
		nested := map[*vMsg][]*vMsg{A: {AM}, B: {BM}}
		txt := "syntax = \"proto3\";\npackage pb;\nenum E { E0 = 0; E1 = 1; }\n"
		for _, m := range []*vMsg{A, B, Req, Resp} {
			txt += vPrintMsg(m, nested, "")
		}
		for _, s := range vSvcs {
			txt += "service " + s.name + " {\n"
			for _, m := range s.methods {
				in, out := "."+m.in.fqn, "."+m.out.fqn
				if m.cs {
					in = "stream " + in
				}
				if m.ss {
					out = "stream " + out
				}
				txt += fmt.Sprintf("  rpc %s(%s) returns (%s);\n", m.name, in, out)
			}
			txt += "}\n"
		}
		sd, err = opts.NewDesccriptorFromContent(context.Background(), "a.proto", txt, map[string]string{})
	}
	vrt.Assert(err == nil && sd != nil, "C15.parse.noerror")
	if err != nil || sd == nil {
		return
	}
	vrt.Reach("parsed")
	var want []*vMeth
	switch mode {
	case meta.LastServiceOnly:
		want = s2.methods
	case meta.FirstServiceOnly:
		want = s1.methods
	default:
		want = vMeths
	}
	vrt.Assert(len(sd.Methods()) == len(want), "C15.methods.exactly-declared")
	for _, m := range want {
		md := sd.LookupMethodByName(m.name)
		vrt.Assert(md != nil, "C15.method.found")
		if md == nil {
			continue
		}
		vrt.Assert(md.Name() == m.name && md.IsClientStreaming() == m.cs && md.IsServerStreaming() == m.ss, "C15.method.name-and-streaming")
		vSame(md.Input(), m.in, 3, "C15."+m.name+".input")
		vSame(md.Output(), m.out, 3, "C15."+m.name+".output")
	}
	vrt.Assert(sd.LookupMethodByName("Nope") == nil, "C15.method.undeclared.nil")
	vrt.Assert(sd.PackageName() == "pb", "C15.package")
}
