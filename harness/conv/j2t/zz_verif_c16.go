package j2t

import (
	"context"

	"github.com/cloudwego/dynamicgo/conv"
	vrt "github.com/cloudwego/dynamicgo/internal/zzverif"
	"github.com/cloudwego/dynamicgo/meta"
	"github.com/cloudwego/dynamicgo/thrift"
)

func init() {
	vrt.Register("VerifC16_J2T", VerifC16_J2T)
}

// VerifC16_J2T: struct{1: i32 a; ID2: i32 b}; requiredness, parsed default, presence (absent / null /
// present), SetOptionalBitmap and the write/disallow option bits symbolic; truth table of the statement.
func VerifC16_J2T() {
	id2 := vrt.Param("ID2")
	ids := [2]int{1, id2}
	names := [2]string{"a", "b"}
	var req [2]int
	var hasDef [2]bool
	var pres [2]int // 0 absent, 1 null, 2 present
	popts := thrift.Options{SetOptionalBitmap: vrt.Bool()}
	var fs []thrift.VField
	for i := 0; i < 2; i++ {
		req[i] = vrt.Conc(int(vrt.U8() % 3))
		hasDef[i] = i == 1 && vrt.Bool()
		f := thrift.VField{ID: thrift.FieldID(ids[i]), Name: names[i], Type: thrift.VerifBasic(thrift.I32), Req: req[i]}
		if hasDef[i] {
			f.Def = thrift.VerifDefaultI32(int32(7 + i))
		}
		fs = append(fs, f)
	}
	desc := thrift.VerifStruct("R", popts, fs...)
	opts := conv.Options{WriteRequireField: vrt.Bool(), WriteDefaultField: vrt.Bool(), WriteOptionalField: vrt.Bool(), DisallowUnknownField: vrt.Bool()}
	doc := []byte{'{'}
	var val [2]int
	n := 0
	for i := 0; i < 2; i++ {
		pres[i] = vrt.Param([2]string{"P1", "P2"}[i])
		if pres[i] == 0 {
			continue
		}
		if n > 0 {
			doc = append(doc, ',')
		}
		n++
		doc = append(doc, '"')
		doc = append(doc, names[i]...)
		doc = append(doc, '"', ':')
		if pres[i] == 1 {
			doc = append(doc, "null"...)
		} else {
			d := byte('3' + i)
			doc = append(doc, d)
			val[i] = int(d - '0')
		}
	}
	unknown := vrt.Bool()
	if unknown {
		if n > 0 {
			doc = append(doc, ',')
		}
		doc = append(doc, `"zz":1`...)
	}
	doc = append(doc, '}')

	cv := NewBinaryConv(opts)
	buf := make([]byte, 0, 64)
	err := cv.DoInto(context.Background(), desc, doc, &buf)

	if unknown && opts.DisallowUnknownField {
		vrt.Reach("unknown-disallowed")
		vrt.Assert(err != nil && verifErrIs(err, meta.ErrUnknownField), "C16.j2t.unknown.disallowed.error")
		return
	}
	missReq := false
	missWhy := "absent"
	anyNull := pres[0] == 1 || pres[1] == 1
	var written [2]bool
	for i := 0; i < 2; i++ {
		if pres[i] == 2 {
			continue
		}
		switch req[i] {
		case 1:
			if opts.WriteRequireField {
				written[i] = true
			} else {
				missReq = true
				if pres[i] == 1 {
					missWhy = "null"
				}
			}
		case 0:
			written[i] = opts.WriteDefaultField
		case 2:
			written[i] = popts.SetOptionalBitmap && (opts.WriteOptionalField || hasDef[i])
		}
	}
	if missReq {
		vrt.Reach("required-missing")
		vrt.Assert(err != nil && verifErrIs(err, meta.ErrMissRequiredField), "C16.j2t.required-missing."+missWhy+".error")
		return
	}
	vrt.Reach("converted")
	vrt.Assert(err == nil, "C16.j2t.noerror")
	if err != nil {
		return
	}
	kids, ok := vrt.TChildren(buf, vrt.TSTRUCT, 3)
	vrt.Assert(ok, "C16.j2t.wellformed")
	if !ok {
		return
	}
	cnt := 0
	for i := 0; i < 2; i++ {
		if pres[i] == 2 || written[i] {
			cnt++
		}
	}
	_ = anyNull
	_ = cnt
	for i := 0; i < 2; i++ {
		found := -1
		for k := range kids {
			if kids[k].ID == ids[i] {
				found = k
			}
		}
		switch {
		case pres[i] == 2:
			vrt.Assert(found >= 0 && kids[found].Typ == vrt.TI32 && vrt.BE32(buf, kids[found].Start) == val[i], "C16.j2t.present-field-unaltered")
		case written[i]:
			want := 0
			if hasDef[i] {
				want = 7 + i
			}
			if found >= 0 {
				vrt.Reach("filled")
			}
			vrt.Assert(found >= 0 && kids[found].Typ == vrt.TI32 && vrt.BE32(buf, kids[found].Start) == want, verifC16Label(pres[i], req[i], hasDef[i])+".written-with-default-or-zero")
		default:
			vrt.Assert(found < 0, verifC16Label(pres[i], req[i], hasDef[i])+".not-written")
		}
	}
}

// verifC16Label names the scenario of one field: presence state x requiredness x parsed default.
func verifC16Label(pres, req int, hasDef bool) string {
	l := "C16.j2t." + [3]string{"absent", "null", "present"}[pres] + "." + [3]string{"default", "required", "optional"}[req]
	if hasDef {
		l += ".hasdefault"
	}
	return l
}
