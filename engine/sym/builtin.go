package sym

import (
	"fmt"
	"go/types"

	"golang.org/x/tools/go/ssa"
)

func (st *State) callBuiltinValue(bi *ssa.Builtin, args []Value, call *ssa.CallCommon) Value {
	var out Value
	st.callBuiltin(nil, nil, bi, args, call, func(v Value) { out = v })
	return out
}

func (st *State) callBuiltin(f *Frame, instr *ssa.Call, bi *ssa.Builtin, args []Value, call *ssa.CallCommon, ret func(Value)) {
	e := st.e
	c := e.ctx
	argT := func(i int) types.Type {
		if call != nil && i < len(call.Args) {
			return call.Args[i].Type()
		}
		return nil
	}
	switch bi.Name() {
	case "len":
		switch x := args[0].(type) {
		case Str:
			ret(x.Len)
		case Slice:
			ret(x.Len)
		case MapRef:
			if x.Obj == 0 {
				ret(e.k64(0))
			} else {
				ret(e.k64(int64(len(st.obj(x.Obj).Map.entries))))
			}
		case Array:
			ret(e.k64(int64(len(x))))
		case Ptr:
			arr := under(argT(0).(*types.Pointer).Elem()).(*types.Array)
			ret(e.k64(arr.Len()))
		default:
			st.unsupported("len of %T", args[0])
		}
	case "cap":
		switch x := args[0].(type) {
		case Slice:
			ret(x.Cap)
		case Array:
			ret(e.k64(int64(len(x))))
		case Ptr:
			arr := under(argT(0).(*types.Pointer).Elem()).(*types.Array)
			ret(e.k64(arr.Len()))
		default:
			st.unsupported("cap of %T", args[0])
		}
	case "append":
		ret(st.doAppend(args[0].(Slice), args[1], argT(0), argT(1)))
	case "copy":
		dst := args[0].(Slice)
		var sp Ptr
		var sl *T
		switch s := args[1].(type) {
		case Slice:
			sp, sl = s.P, s.Len
		case Str:
			sp, sl = s.P, s.Len
		}
		es := e.sizeof(under(argT(0)).(*types.Slice).Elem())
		n := c.Ite(c.Slt(dst.Len, sl), dst.Len, sl)
		nn := st.concInt(n, "copy length")
		if nn < 0 {
			st.end(OutOOB, "copy with a negative slice length (forged slice header)")
		}
		if nn > 0 && es > 0 {
			st.copyMem(dst.P, sp, nn*es)
		}
		ret(e.k64(nn))
	case "delete":
		st.mapDelete(args[0].(MapRef), args[1])
		ret(nil)
	case "print", "println":
		ret(nil)
	case "recover":
		n := len(st.frames)
		if st.panic != nil && n >= 2 && st.frames[n-2].unwinding && st.top().isDefer {
			p := st.panic
			st.panic = nil
			if p.val != nil {
				ret(p.val)
			} else {
				ret(Iface{Dyn: types.Typ[types.String], V: st.strConst(p.text)})
			}
		} else {
			ret(Iface{})
		}
	case "min", "max":
		t0 := argT(0)
		_, signed, _ := intWidth(t0)
		r := st.asT(args[0])
		for _, a := range args[1:] {
			x := st.asT(a)
			var lt *T
			if signed {
				lt = c.Slt(x, r)
			} else {
				lt = c.Ult(x, r)
			}
			if bi.Name() == "max" {
				lt = c.BNot(c.BOr(lt, c.Eq(x, r)))
				r = c.Ite(lt, x, r)
			} else {
				r = c.Ite(lt, x, r)
			}
		}
		ret(r)
	case "ssa:wrapnilchk":
		p := st.asPtr(args[0])
		if p.Obj == 0 {
			st.goPanic("value method called using nil pointer")
		}
		ret(args[0])
	case "Add": // unsafe.Add(ptr, len)
		p := st.asPtr(args[0])
		n := st.idx64(args[1], argT(1))
		ret(Ptr{p.Obj, c.Add(p.Off, n)})
	case "Slice": // unsafe.Slice(ptr, len)
		p := st.asPtr(args[0])
		n := st.idx64(args[1], argT(1))
		ret(Slice{p, n, n})
	case "String": // unsafe.String(ptr, len)
		p := st.asPtr(args[0])
		n := st.idx64(args[1], argT(1))
		ret(Str{p, n})
	case "StringData":
		ret(args[0].(Str).P)
	case "SliceData":
		ret(args[0].(Slice).P)
	case "clear":
		switch x := args[0].(type) {
		case MapRef:
			if x.Obj != 0 {
				st.wobj(x.Obj).Map.entries = nil
			}
		case Slice:
			es := e.sizeof(under(argT(0)).(*types.Slice).Elem())
			n := st.concInt(x.Len, "clear length")
			st.zeroMem(x.P, n*es)
		}
		ret(nil)
	case "close":
		st.unsupported("close")
	default:
		st.unsupported("builtin %s", bi.Name())
	}
}

func (st *State) doAppend(s Slice, add Value, st0, at types.Type) Value {
	e := st.e
	c := e.ctx
	var ap Ptr
	var al *T
	switch a := add.(type) {
	case Slice:
		ap, al = a.P, a.Len
	case Str:
		ap, al = a.P, a.Len
	default:
		st.unsupported("append of %T", add)
	}
	es := e.sizeof(under(st0).(*types.Slice).Elem())
	if st.decide(c.Slt(al, e.k64(0))) {
		// a forged slice header with negative length: the runtime's growslice panics
		st.goPanic("runtime error: growslice: len out of range")
	}
	n := st.concInt(al, "append length")
	if n == 0 {
		return s
	}
	// does it fit?
	newLen := c.Add(s.Len, e.k64(n))
	if st.decide(c.Sle(newLen, s.Cap)) {
		dst := Ptr{s.P.Obj, c.Add(s.P.Off, c.Mul(s.Len, e.k64(es)))}
		if es > 0 {
			st.copyMem(dst, ap, n*es)
		}
		return Slice{s.P, newLen, s.Cap}
	}
	ol := st.concInt(s.Len, "append: old length")
	oc := st.concInt(s.Cap, "append: old capacity")
	nc := ol + n
	if oc > 0 && 2*oc > nc {
		nc = 2 * oc
	}
	id := st.allocN(nc*es, st0, "append "+st0.String())
	np := Ptr{id, e.k64(0)}
	if ol > 0 && es > 0 {
		st.copyMem(np, s.P, ol*es)
	}
	if es > 0 {
		st.copyMem(Ptr{id, e.k64(ol * es)}, ap, n*es)
	}
	return Slice{np, e.k64(ol + n), e.k64(nc)}
}

// ---- maps ----

// snapshotKey makes map keys self-contained (strings are copied).
func (st *State) snapshotKey(k Value) Value {
	switch x := k.(type) {
	case Str:
		n := st.concInt(x.Len, "map key length")
		if n == 0 {
			return Str{st.e.nilPtr(), st.e.k64(0)}
		}
		o := st.obj(x.P.Obj)
		if o.RO {
			return Str{x.P, st.e.k64(n)}
		}
		id := st.allocN(n, nil, "map key")
		st.copyMem(Ptr{id, st.e.k64(0)}, x.P, n)
		st.newObj(id).RO = true
		return Str{Ptr{id, st.e.k64(0)}, st.e.k64(n)}
	case Iface:
		return Iface{x.Dyn, st.snapshotKey(x.V)}
	case Struct:
		out := make(Struct, len(x))
		for i := range x {
			out[i] = st.snapshotKey(x[i])
		}
		return out
	}
	return k
}

func (st *State) mapFind(m *mapData, key Value) int {
	kt := m.typ.Key()
	if iv, ok := key.(Iface); ok && iv.Dyn != nil && !types.Comparable(iv.Dyn) {
		st.goPanic("runtime error: hash of unhashable type " + iv.Dyn.String())
	}
	for i := range m.entries {
		eq := st.valueEq(m.entries[i].key, key, kt)
		if st.decide(eq) {
			return i
		}
	}
	return -1
}

func (st *State) mapUpdate(mv, key, val Value, mt types.Type) {
	m := mv.(MapRef)
	if m.Obj == 0 {
		st.goPanic("assignment to entry in nil map")
	}
	md := st.obj(m.Obj).Map
	i := st.mapFind(md, key)
	key = st.snapshotKey(key)
	w := st.wobj(m.Obj).Map
	if i >= 0 {
		w.entries[i].val = val
		return
	}
	w.entries = append(w.entries, mapEntry{key, val})
}

func (st *State) mapDelete(m MapRef, key Value) {
	if m.Obj == 0 {
		return
	}
	md := st.obj(m.Obj).Map
	i := st.mapFind(md, key)
	if i < 0 {
		return
	}
	w := st.wobj(m.Obj).Map
	w.entries = append(w.entries[:i:i], w.entries[i+1:]...)
}

func (st *State) lookup(x *ssa.Lookup, xv, kv Value) Value {
	e := st.e
	if s, ok := xv.(Str); ok {
		return st.indexValue(s, kv, x.X.Type(), x.Index.Type())
	}
	m := xv.(MapRef)
	mt := under(x.X.Type()).(*types.Map)
	var val Value
	found := false
	if m.Obj != 0 {
		md := st.obj(m.Obj).Map
		if i := st.mapFind(md, kv); i >= 0 {
			val = md.entries[i].val
			found = true
		}
	}
	if !found {
		val = e.zero(mt.Elem())
	}
	if x.CommaOk {
		return Tuple{val, e.ctx.Bool(found)}
	}
	return val
}

func (st *State) rangeStart(xv Value, t types.Type) Value {
	pos := 0
	switch x := xv.(type) {
	case MapRef:
		it := &iterState{isMap: true, pos: &pos}
		if x.Obj != 0 {
			it.keys = append([]mapEntry(nil), st.obj(x.Obj).Map.entries...)
		}
		return it
	case Str:
		return &iterState{str: x, pos: &pos}
	}
	st.unsupported("range over %T", xv)
	return nil
}

func (st *State) rangeNext(x *ssa.Next, iv Value) Value {
	e := st.e
	c := e.ctx
	it := iv.(*iterState)
	tup := x.Type().(*types.Tuple)
	if it.isMap {
		// iterator position is per-path state: copy on use
		p := *it.pos
		if p >= len(it.keys) {
			return Tuple{c.False, e.zero(tup.At(1).Type()), e.zero(tup.At(2).Type())}
		}
		np := p + 1
		nit := &iterState{isMap: true, keys: it.keys, pos: &np}
		// replace the iterator register with the advanced copy
		f := st.top()
		st.set(f, x.Iter.(ssa.Value), nit)
		en := it.keys[p]
		return Tuple{c.True, en.key, en.val}
	}
	// string range: decode UTF-8 runes; only concrete strings supported
	s := it.str
	n := st.concInt(s.Len, "range string length")
	p := int64(*it.pos)
	if p >= n {
		return Tuple{c.False, e.k64(0), c.Const(0, 32)}
	}
	bs := st.readBytes(Ptr{s.P.Obj, c.Add(s.P.Off, e.k64(p))}, min64(4, n-p))
	raw := make([]byte, len(bs))
	for i, b := range bs {
		raw[i] = byte(st.concretize(b, "range string byte"))
	}
	r, size := decodeRune(raw)
	np := int(p) + size
	nit := &iterState{str: s, pos: &np}
	st.set(st.top(), x.Iter.(ssa.Value), nit)
	return Tuple{c.True, e.k64(p), c.Const(uint64(r), 32)}
}

func min64(a, b int64) int64 {
	if a < b {
		return a
	}
	return b
}

func decodeRune(b []byte) (rune, int) {
	s := string(b)
	for _, r := range s {
		n := len(string(r))
		if r == 0xFFFD {
			// invalid encoding decodes as width 1
			if len(b) >= 3 && b[0] == 0xEF && b[1] == 0xBF && b[2] == 0xBD {
				return r, 3
			}
			return r, 1
		}
		return r, n
	}
	return 0xFFFD, 1
}

var _ = fmt.Sprintf
