#!/bin/bash
# usage: tools/eval_seeds.sh <dir-with-seed-dirs> [ids...]   — applies each patch to /repo, runs the quick check of
# the property it targets, reverts.  Prints one line per seed.
export GOFLAGS=-mod=mod GOPROXY=off GOSUMDB=off GOTOOLCHAIN=local
base=$1; shift
for d in "$@"; do
  dir=$base/$d
  [ -f $dir/patch.diff ] || { echo "$d: no patch"; continue; }
  prop=${d%%_*}
  if [ -f $dir/meta.json ]; then prop=$(python3 -c "import json;print(json.load(open('$dir/meta.json'))['property'])"); fi
  git -C /repo checkout -q -- . 
  if ! git -C /repo apply $dir/patch.diff 2>/tmp/apply.err; then echo "$d: patch does not apply: $(head -1 /tmp/apply.err)"; continue; fi
  (cd /repo && go build ./... 2>&1 | head -3)
  start=$(date +%s)
  (cd /verif && timeout 1500 bin/vsym check -p $prop -no-evidence > /tmp/eval_$d.log 2>&1); rc=$?
  end=$(date +%s)
  git -C /repo checkout -q -- .
  v=$(grep -c "^VIOLATION" /tmp/eval_$d.log)
  lab=$(grep -A1 "^VIOLATION" /tmp/eval_$d.log | grep "label=" | sed 's/.*label=//' | sort -u | head -3 | tr '\n' ' ')
  inc=$(grep -c "^INCONCLUSIVE" /tmp/eval_$d.log)
  echo "$d: prop=$prop exit=$rc violations=$v inconclusive=$inc time=$((end-start))s labels: $lab"
done
