package sym

import (
	"fmt"
	"go/types"
	"sort"
)

// Object ids: [1, nbase) are objects of the post-init base state (shared, read-only
// slice e.baseObjs; per-path copies live in st.over), ids >= nbase are path-local.

// alloc creates a zeroed object of size bytes.
func (st *State) alloc(size *T, typ types.Type, name string) int {
	o := &Object{Size: size, Typ: typ, Name: name, owner: st.id}
	st.objs = append(st.objs, o)
	return st.nbase + len(st.objs) - 1
}

func (st *State) allocN(size int64, typ types.Type, name string) int {
	return st.alloc(st.e.k64(size), typ, name)
}

// newObj returns the freshly allocated (still owned) object id for in-place initialisation.
func (st *State) newObj(id int) *Object { return st.objs[id-st.nbase] }

func (st *State) obj(id int) *Object {
	if id > 0 && id < st.nbase {
		if o, ok := st.over[id]; ok {
			return o
		}
		return st.e.baseObjs[id]
	}
	k := id - st.nbase
	if id <= 0 || k >= len(st.objs) {
		st.unsupported("bad object id %d", id)
	}
	return st.objs[k]
}

func (st *State) setObj(id int, o *Object) {
	if id < st.nbase {
		if !st.overOwn {
			m := make(map[int]*Object, len(st.over)+4)
			for k, v := range st.over {
				m[k] = v
			}
			st.over = m
			st.overOwn = true
		}
		st.over[id] = o
		return
	}
	st.objs[id-st.nbase] = o
}

// wobj returns a writable (owned) copy of object id.
func (st *State) wobj(id int) *Object {
	o := st.obj(id)
	if o.owner == st.id {
		return o
	}
	n := *o
	n.owner = st.id
	if o.Cells != nil {
		n.Cells = make(map[int64]Cell, len(o.Cells)+2)
		for k, v := range o.Cells {
			n.Cells[k] = v
		}
	}
	if o.Map != nil {
		m := *o.Map
		m.entries = append([]mapEntry(nil), o.Map.entries...)
		n.Map = &m
	}
	st.setObj(id, &n)
	return &n
}

// checkAccess verifies [off, off+size) lies inside object p.Obj; returns the concrete offset.
func (st *State) checkAccess(p Ptr, size int64, what string) int64 {
	c := st.e.ctx
	if p.Obj == 0 {
		// nil (or invalid) pointer dereference -> Go run-time panic
		st.goPanic("runtime error: invalid memory address or nil pointer dereference")
	}
	o := st.obj(p.Obj)
	if o.Poison != "" {
		st.unsupported("access to %s (%s)", o.Name, o.Poison)
	}
	off := st.simp(p.Off)
	osz := st.simp(o.Size)
	if off.IsConst() && osz.IsConst() {
		v := int64(off.K)
		if v < 0 || v+size > int64(osz.K) {
			st.end(OutOOB, fmt.Sprintf("%s of %d bytes at offset %d of object %s (size %d)", what, size, v, o.Name, osz.K))
		}
		return v
	}
	// in-bounds iff off <=u size - accessSize  and accessSize <=u size
	ok := c.BAnd(c.Ule(c.Const(uint64(size), 64), osz), c.Ule(off, c.Sub(osz, c.Const(uint64(size), 64))))
	if !st.decide(ok) {
		st.end(OutOOB, fmt.Sprintf("%s of %d bytes at symbolic offset of object %s", what, size, o.Name))
	}
	if off.IsConst() {
		return int64(off.K)
	}
	return -1
}

// ---- leaf access at concrete offsets ----

func (st *State) intOfCell(cv Value, n int8) (*T, bool) {
	c := st.e.ctx
	switch v := cv.(type) {
	case *T:
		if v.W == 0 {
			return c.BoolToBV(v, 8), n == 1
		}
		return v, int(v.W) == int(n)*8
	}
	return nil, false
}

// byteAt returns the byte at offset off of object o (zero if never written).
func (st *State) byteAt(o *Object, off int64) *T {
	c := st.e.ctx
	if cell, ok := o.Cells[off]; ok {
		t, ok2 := st.intOfCell(cell.V, cell.N)
		if !ok2 {
			st.unsupported("byte read of non-integer cell in %s", o.Name)
		}
		return c.Extract(t, 0, 8)
	}
	for d := int64(1); d < 8; d++ {
		if cell, ok := o.Cells[off-d]; ok {
			if int64(cell.N) > d {
				t, ok2 := st.intOfCell(cell.V, cell.N)
				if !ok2 {
					if p, isp := cell.V.(Ptr); isp && p.Obj == 0 {
						return c.Const(0, 8)
					}
					st.unsupported("byte read inside non-integer cell in %s", o.Name)
				}
				return c.Extract(t, uint8(d*8), 8)
			}
			// a shorter cell ends before off; keep looking further back only for wider cells
		}
	}
	return c.Const(0, 8)
}

func (st *State) loadInt(o *Object, off int64, size int64) Value {
	c := st.e.ctx
	if cell, ok := o.Cells[off]; ok && int64(cell.N) == size {
		switch v := cell.V.(type) {
		case *T:
			if v.W == 0 {
				return c.BoolToBV(v, 8)
			}
			return v
		case Ptr:
			if v.Obj == 0 {
				return c.Const(0, 64)
			}
			return PInt{v.Obj, v.Off}
		case PInt:
			return v
		case Func:
			if v.Fn == nil && v.Bi == nil {
				return c.Const(0, 64)
			}
		case MapRef:
			if v.Obj == 0 {
				return c.Const(0, 64)
			}
		}
		st.unsupported("integer load of %T cell in %s", cell.V, o.Name)
	}
	if len(o.Cells) == 0 {
		return c.Const(0, uint8(size*8))
	}
	var r *T
	for i := size - 1; i >= 0; i-- {
		b := st.byteAt(o, off+i)
		if r == nil {
			r = b
		} else {
			r = c.Concat(r, b)
		}
	}
	return r
}

func (st *State) loadLeaf(o *Object, off int64, lf leaf, t types.Type) Value {
	c := st.e.ctx
	switch lf.kind {
	case kInt:
		return st.loadInt(o, off, lf.size)
	case kBool:
		v := st.loadInt(o, off, 1)
		if tt, ok := v.(*T); ok {
			return c.Ne(tt, c.Const(0, 8))
		}
		st.unsupported("bool load")
	}
	cell, ok := o.Cells[off]
	if !ok {
		// unwritten: zero unless partially overlapped by integer bytes
		z := true
		if len(o.Cells) > 0 {
			for d := int64(-7); d < lf.size; d++ {
				if _, ok := o.Cells[off+d]; ok {
					z = false
					break
				}
			}
		}
		if z {
			return st.zeroLeaf(lf.kind)
		}
		iv := st.loadInt(o, off, 8)
		return st.intToLeaf(iv, lf.kind)
	}
	switch lf.kind {
	case kPtr:
		switch v := cell.V.(type) {
		case Ptr:
			return v
		case PInt:
			return Ptr{v.Obj, v.Off}
		case *T:
			return st.intToLeaf(v, kPtr)
		}
	case kFunc:
		if v, ok := cell.V.(Func); ok {
			return v
		}
	case kMap:
		if v, ok := cell.V.(MapRef); ok {
			return v
		}
	case kIface:
		if v, ok := cell.V.(Iface); ok && cell.N == 16 {
			return v
		}
	}
	if tv, ok := cell.V.(*T); ok {
		return st.intToLeaf(tv, lf.kind)
	}
	st.unsupported("load kind %d from %T cell (object %s off %d)", lf.kind, cell.V, o.Name, off)
	return nil
}

func (st *State) zeroLeaf(k leafKind) Value {
	switch k {
	case kPtr:
		return st.e.nilPtr()
	case kFunc:
		return Func{}
	case kMap:
		return MapRef{}
	case kIface:
		return Iface{}
	}
	return Poison{"chan"}
}

func (st *State) intToLeaf(v Value, k leafKind) Value {
	switch x := v.(type) {
	case PInt:
		if k == kPtr {
			return Ptr{x.Obj, x.Off}
		}
	case *T:
		s := st.simp(x)
		if s.IsConst() && s.K == 0 {
			return st.zeroLeaf(k)
		}
		if k == kPtr {
			// integer reinterpreted as pointer without provenance
			st.unsupported("pointer load from integer bytes %v", s)
		}
	}
	st.unsupported("reinterpretation of %T as leaf kind %d", v, k)
	return nil
}

// splitOverlaps breaks integer cells overlapping [off, off+size) into bytes so a
// new cell can be written there.
func (st *State) splitOverlaps(o *Object, off, size int64) {
	c := st.e.ctx
	for d := off - 15; d < off+size; d++ {
		cell, ok := o.Cells[d]
		if !ok {
			continue
		}
		end := d + int64(cell.N)
		if end <= off || d >= off+size {
			continue
		}
		if d >= off && end <= off+size {
			delete(o.Cells, d) // fully covered by the new store
			continue
		}
		t, ok2 := st.intOfCell(cell.V, cell.N)
		if !ok2 {
			if p, isp := cell.V.(Ptr); isp && p.Obj == 0 {
				t = c.Const(0, 64)
			} else if _, isI := cell.V.(Iface); isI && cell.N == 16 {
				st.unsupported("partial overwrite of interface cell in %s", o.Name)
			} else {
				st.unsupported("partial overwrite of %T cell in %s", cell.V, o.Name)
			}
		}
		delete(o.Cells, d)
		for i := int64(0); i < int64(cell.N); i++ {
			if d+i >= off && d+i < off+size {
				continue
			}
			o.Cells[d+i] = Cell{1, c.Extract(t, uint8(i*8), 8)}
		}
	}
}

func (st *State) storeCell(id int, off int64, n int64, v Value) {
	o := st.obj(id)
	if o.RO {
		st.end(OutROWrite, fmt.Sprintf("store into read-only object %s", o.Name))
	}
	o = st.wobj(id)
	if o.Cells == nil {
		o.Cells = map[int64]Cell{}
	}
	if cell, ok := o.Cells[off]; ok && int64(cell.N) == n {
		o.Cells[off] = Cell{int8(n), v}
		return
	}
	if len(o.Cells) > 0 {
		st.splitOverlaps(o, off, n)
	}
	o.Cells[off] = Cell{int8(n), v}
}

// ---- typed load/store ----

// load reads a value of type t at p.
func (st *State) load(p Ptr, t types.Type) Value {
	e := st.e
	size := e.sizeof(t)
	if size == 0 {
		return e.zero(t)
	}
	off := st.checkAccess(p, size, "load")
	if off < 0 {
		return st.loadSym(p, t, size)
	}
	return st.loadAt(st.obj(p.Obj), off, t)
}

func (st *State) loadAt(o *Object, off int64, t types.Type) Value {
	e := st.e
	c := e.ctx
	switch u := under(t).(type) {
	case *types.Basic:
		switch {
		case u.Info()&types.IsString != 0:
			p := st.loadLeaf(o, off, leaf{0, 8, kPtr}, nil).(Ptr)
			l := st.loadInt(o, off+8, 8)
			return Str{p, st.asT(l)}
		case u.Info()&types.IsBoolean != 0:
			return st.loadLeaf(o, off, leaf{0, 1, kBool}, t)
		case u.Kind() == types.UnsafePointer:
			return st.loadLeaf(o, off, leaf{0, 8, kPtr}, t)
		case u.Info()&types.IsComplex != 0:
			st.unsupported("complex load")
		}
		sz := e.sizeof(t)
		v := st.loadInt(o, off, sz)
		return v
	case *types.Pointer:
		return st.loadLeaf(o, off, leaf{0, 8, kPtr}, t)
	case *types.Signature:
		return st.loadLeaf(o, off, leaf{0, 8, kFunc}, t)
	case *types.Map:
		return st.loadLeaf(o, off, leaf{0, 8, kMap}, t)
	case *types.Chan:
		return Poison{"chan"}
	case *types.Interface:
		if cell, ok := o.Cells[off]; ok {
			if v, ok := cell.V.(Iface); ok && cell.N == 16 {
				return v
			}
			st.unsupported("interface load from %T cell", cell.V)
		}
		// unwritten -> nil interface (if the bytes are zero)
		if _, ok := o.Cells[off+8]; ok {
			st.unsupported("interface load from split cells")
		}
		return Iface{}
	case *types.Slice:
		p := st.loadLeaf(o, off, leaf{0, 8, kPtr}, nil).(Ptr)
		l := st.asT(st.loadInt(o, off+8, 8))
		cp := st.asT(st.loadInt(o, off+16, 8))
		return Slice{p, l, cp}
	case *types.Struct:
		n := u.NumFields()
		s := make(Struct, n)
		offs := e.fieldOffsets(u)
		for i := 0; i < n; i++ {
			s[i] = st.loadAt(o, off+offs[i], u.Field(i).Type())
		}
		return s
	case *types.Array:
		n := u.Len()
		a := make(Array, n)
		es := e.sizeof(u.Elem())
		for i := int64(0); i < n; i++ {
			a[i] = st.loadAt(o, off+i*es, u.Elem())
		}
		return a
	}
	_ = c
	st.unsupported("load of type %v", t)
	return nil
}

// asT coerces an integer-like Value to a term (PInt is not allowed).
func (st *State) asT(v Value) *T {
	switch x := v.(type) {
	case *T:
		return x
	case PInt:
		st.unsupported("pointer-derived integer used as plain integer")
	case Poison:
		st.unsupported("poison value used: %s", x.Why)
	}
	st.unsupported("expected integer, got %T", v)
	return nil
}

// loadSym handles loads at symbolic offsets.
func (st *State) loadSym(p Ptr, t types.Type, size int64) Value {
	e := st.e
	c := e.ctx
	o := st.obj(p.Obj)
	off := st.simp(p.Off)
	osz := st.simp(o.Size)
	// run-length ite chain for integer loads from concrete-size objects of integer cells
	if _, _, ok := intWidth(t); ok && osz.IsConst() && int64(osz.K) <= e.IteLoadMax {
		n := int64(osz.K)
		okAll := true
		// alignment: offsets are base+k*size when the pointer came from IndexAddr; try stride=size first
		stride := int64(1)
		if size > 1 {
			if st.provablyAligned(off, size) {
				stride = size
			}
		}
		type run struct {
			end int64 // exclusive offset bound
			v   *T
		}
		var runs []run
		for q := int64(0); q+size <= n; q += stride {
			var v *T
			func() {
				defer func() {
					if x := recover(); x != nil {
						if ep, isEnd := x.(endPath); isEnd && ep.out.Kind == OutUnsupported {
							okAll = false
							return
						}
						panic(x)
					}
				}()
				v = st.asT(st.loadInt(o, q, size))
			}()
			if !okAll {
				break
			}
			if len(runs) > 0 && runs[len(runs)-1].v == v {
				runs[len(runs)-1].end = q + stride
			} else {
				runs = append(runs, run{q + stride, v})
			}
		}
		if okAll && len(runs) > 0 {
			r := runs[len(runs)-1].v
			for i := len(runs) - 2; i >= 0; i-- {
				r = c.Ite(c.Ult(off, c.Const(uint64(runs[i].end), 64)), runs[i].v, r)
			}
			return r
		}
	}
	// sparse pointer tables (id -> *descriptor): decide which written slot is addressed, all other
	// offsets read nil
	if isPointerLike(t) && size == 8 && st.provablyAligned(off, 8) && len(o.Cells) <= 1024 {
		offs := make([]int64, 0, len(o.Cells))
		okAll := true
		for q, cell := range o.Cells {
			if cell.N != 8 || q%8 != 0 {
				okAll = false
				break
			}
			switch pv := cell.V.(type) {
			case Ptr:
				if pv.Obj != 0 {
					offs = append(offs, q)
				}
			case *T:
				if !(pv.IsConst() && pv.K == 0) {
					okAll = false
				}
			default:
				okAll = false
			}
		}
		if okAll {
			sort.Slice(offs, func(i, j int) bool { return offs[i] < offs[j] })
			for _, q := range offs {
				if st.decide(c.Eq(off, c.Const(uint64(q), 64))) {
					return o.Cells[q].V
				}
			}
			return e.nilPtr()
		}
	}
	v := st.concretize(off, "symbolic load offset")
	return st.loadAt(o, int64(v), t)
}

// store writes v of type t at p.
func (st *State) store(p Ptr, t types.Type, v Value) {
	e := st.e
	size := e.sizeof(t)
	if size == 0 {
		return
	}
	off := st.checkAccess(p, size, "store")
	if off < 0 {
		// symbolic offset: byte stores into byte buffers become ite updates, everything else forks
		o := st.obj(p.Obj)
		osz := st.simp(o.Size)
		if tv, ok := v.(*T); ok && size == 1 && osz.IsConst() && int64(osz.K) <= e.IteLoadMax && tv.W == 8 {
			if o.RO {
				st.end(OutROWrite, fmt.Sprintf("store into read-only object %s", o.Name))
			}
			soff := st.simp(p.Off)
			okAll := true
			olds := make([]*T, osz.K)
			for q := int64(0); q < int64(osz.K) && okAll; q++ {
				func() {
					defer func() {
						if x := recover(); x != nil {
							if ep, isEnd := x.(endPath); isEnd && ep.out.Kind == OutUnsupported {
								okAll = false
								return
							}
							panic(x)
						}
					}()
					olds[q] = st.asT(st.loadInt(o, q, 1))
				}()
			}
			if okAll {
				c := e.ctx
				for q := int64(0); q < int64(osz.K); q++ {
					nv := c.Ite(c.Eq(soff, c.Const(uint64(q), 64)), tv, olds[q])
					if nv != olds[q] {
						st.storeCell(p.Obj, q, 1, nv)
					}
				}
				return
			}
		}
		off = int64(st.concretize(st.simp(p.Off), "symbolic store offset"))
	}
	st.storeAt(p.Obj, off, t, v)
}

func (st *State) storeAt(id int, off int64, t types.Type, v Value) {
	e := st.e
	c := e.ctx
	if pz, ok := v.(Poison); ok {
		_ = pz
		// storing poison: keep it in a cell so later use is flagged
		st.storeCell(id, off, e.sizeof(t), v)
		return
	}
	switch u := under(t).(type) {
	case *types.Basic:
		switch {
		case u.Info()&types.IsString != 0:
			s := v.(Str)
			st.storeCell(id, off, 8, s.P)
			st.storeCell(id, off+8, 8, s.Len)
			return
		case u.Info()&types.IsBoolean != 0:
			st.storeCell(id, off, 1, c.BoolToBV(v.(*T), 8))
			return
		case u.Kind() == types.UnsafePointer:
			st.storeCell(id, off, 8, v)
			return
		case u.Info()&types.IsComplex != 0:
			st.unsupported("complex store")
		}
		sz := e.sizeof(t)
		switch x := v.(type) {
		case *T:
			if int64(x.W) != sz*8 {
				st.unsupported("store width mismatch: %d-bit value as %v", x.W, t)
			}
		case PInt:
		default:
			st.unsupported("store of %T as %v", v, t)
		}
		st.storeCell(id, off, sz, v)
		return
	case *types.Pointer, *types.Signature, *types.Map, *types.Chan:
		st.storeCell(id, off, 8, v)
		return
	case *types.Interface:
		st.storeCell(id, off, 16, v)
		return
	case *types.Slice:
		s := v.(Slice)
		st.storeCell(id, off, 8, s.P)
		st.storeCell(id, off+8, 8, s.Len)
		st.storeCell(id, off+16, 8, s.Cap)
		return
	case *types.Struct:
		s := v.(Struct)
		offs := e.fieldOffsets(u)
		for i := range s {
			st.storeAt(id, off+offs[i], u.Field(i).Type(), s[i])
		}
		return
	case *types.Array:
		a := v.(Array)
		es := e.sizeof(u.Elem())
		for i := range a {
			st.storeAt(id, off+int64(i)*es, u.Elem(), a[i])
		}
		return
	}
	st.unsupported("store of type %v", t)
}

// readBytes returns n byte terms starting at p (n concrete).
func (st *State) readBytes(p Ptr, n int64) []*T {
	if n == 0 {
		return nil
	}
	off := st.checkAccess(p, n, "read")
	if off < 0 {
		off = int64(st.concretize(st.simp(p.Off), "symbolic read offset"))
	}
	o := st.obj(p.Obj)
	out := make([]*T, n)
	for i := int64(0); i < n; i++ {
		out[i] = st.asT(st.loadInt(o, off+i, 1))
	}
	return out
}

func (st *State) writeBytes(p Ptr, bs []*T) {
	n := int64(len(bs))
	if n == 0 {
		return
	}
	off := st.checkAccess(p, n, "write")
	if off < 0 {
		off = int64(st.concretize(st.simp(p.Off), "symbolic write offset"))
	}
	for i, b := range bs {
		st.storeCell(p.Obj, off+int64(i), 1, b)
	}
}

// copyMem copies n bytes (n concrete) from src to dst preserving cell structure
// (so pointers inside structs survive memmove / append / copy).
func (st *State) copyMem(dst, src Ptr, n int64) {
	if n == 0 {
		return
	}
	so := st.checkAccess(src, n, "copy-read")
	if so < 0 {
		so = int64(st.concretize(st.simp(src.Off), "symbolic copy source"))
	}
	do := st.checkAccess(dst, n, "copy-write")
	if do < 0 {
		do = int64(st.concretize(st.simp(dst.Off), "symbolic copy destination"))
	}
	if dst.Obj == src.Obj && do == so {
		return
	}
	s := st.obj(src.Obj)
	// snapshot source cells in range (handles overlap)
	type ent struct {
		rel int64
		c   Cell
	}
	var ents []ent
	covered := make([]bool, n)
	for d := so - 15; d < so+n; d++ {
		cell, ok := s.Cells[d]
		if !ok {
			continue
		}
		end := d + int64(cell.N)
		if end <= so {
			continue
		}
		if d >= so && end <= so+n {
			ents = append(ents, ent{d - so, cell})
			for i := d; i < end; i++ {
				covered[i-so] = true
			}
		} else {
			// partial overlap at the edges: copy bytewise
			for i := d; i < end; i++ {
				if i >= so && i < so+n {
					ents = append(ents, ent{i - so, Cell{1, st.byteAt(s, i)}})
					covered[i-so] = true
				}
			}
		}
	}
	// clear destination range then write
	if st.obj(dst.Obj).RO {
		st.end(OutROWrite, fmt.Sprintf("copy into read-only object %s", st.obj(dst.Obj).Name))
	}
	d := st.wobj(dst.Obj)
	if d.Cells == nil {
		d.Cells = map[int64]Cell{}
	}
	st.splitOverlaps(d, do, n)
	for i := int64(0); i < n; i++ {
		delete(d.Cells, do+i)
	}
	for _, en := range ents {
		d.Cells[do+en.rel] = en.c
	}
}

// zeroMem clears n bytes at p.
func (st *State) zeroMem(p Ptr, n int64) {
	if n == 0 {
		return
	}
	off := st.checkAccess(p, n, "clear")
	if off < 0 {
		off = int64(st.concretize(st.simp(p.Off), "symbolic clear offset"))
	}
	d := st.wobj(p.Obj)
	if len(d.Cells) == 0 {
		return
	}
	st.splitOverlaps(d, off, n)
	for i := int64(0); i < n; i++ {
		delete(d.Cells, off+i)
	}
}

func (e *Engine) fieldOffsets(s *types.Struct) []int64 {
	if o, ok := e.offCache[s]; ok {
		return o
	}
	n := s.NumFields()
	fs := make([]*types.Var, n)
	for i := 0; i < n; i++ {
		fs[i] = s.Field(i)
	}
	o := e.sizes.Offsetsof(fs)
	e.offCache[s] = o
	return o
}

// provablyAligned reports whether off is syntactically a multiple of size (shape k*size or shl).
func (st *State) provablyAligned(off *T, size int64) bool {
	if size&(size-1) != 0 {
		return false
	}
	z := lowZeros(off)
	need := uint8(0)
	for s := size; s > 1; s >>= 1 {
		need++
	}
	return z >= need
}
