#!/usr/bin/env python3
"""usage: record_seed.py <id> <needs_to_manifest> <detected_by> — writes/updates seeded/<id>/meta.json"""
import json, os, sys
root = os.path.dirname(os.path.dirname(os.path.abspath(__file__)))
sid, needs, det = sys.argv[1], sys.argv[2], sys.argv[3]
p = os.path.join(root, "seeded", sid, "meta.json")
m = json.load(open(p)) if os.path.exists(p) else {}
m.update({
    "property": sid.split("_")[0], "id": sid,
    "origin": "independent sub-agent given only the property text and its own scratch worktree",
    "confirmed_by": "tools/confirm_seed.sh in a scratch worktree of /repo: patch applies and builds; `go test -vet=off -count=1 ./...` passes with the patch; demo_test.go fails with the patch and passes without it",
    "apply": "git -C /repo apply /verif/seeded/%s/patch.diff ; undo: git -C /repo checkout -- ." % sid,
    "detected_by": det,
})
if needs:
    m["needs_to_manifest"] = needs
json.dump(m, open(p, "w"), indent=1)
