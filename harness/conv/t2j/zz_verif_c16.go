package t2j

import (
	"context"

	"github.com/cloudwego/dynamicgo/conv"
	vrt "github.com/cloudwego/dynamicgo/internal/zzverif"
	"github.com/cloudwego/dynamicgo/meta"
	"github.com/cloudwego/dynamicgo/thrift"
)

func init() {
	vrt.Register("VerifC16_T2J", VerifC16_T2J)
}

// verifErrCode extracts the behaviour code of a dynamicgo error (0 if it is not one).
func verifErrCode(err error) meta.ErrCode {
	if e, ok := err.(meta.Error); ok {
		return e.Code.Behavior()
	}
	return 0
}

// VerifC16_T2J: struct{1: i32 a; ID2: i32 b} where requiredness (parser numbering 0 default / 1 required /
// 2 optional), "has a parsed default", presence in the message, SetOptionalBitmap and the four
// write/disallow option bits are all symbolic.  Truth table transcribed from the property statement.
func VerifC16_T2J() {
	id2 := vrt.Param("ID2")
	ids := [2]int{1, id2}
	var req [2]int
	var hasDef [2]bool
	var present [2]bool
	popts := thrift.Options{SetOptionalBitmap: vrt.Bool()}
	var fs []thrift.VField
	names := [2]string{"a", "b"}
	for i := 0; i < 2; i++ {
		req[i] = vrt.Conc(int(vrt.U8() % 3))
		hasDef[i] = vrt.Bool()
		f := thrift.VField{ID: thrift.FieldID(ids[i]), Name: names[i], Type: thrift.VerifBasic(thrift.I32), Req: req[i]}
		if hasDef[i] {
			f.Def = thrift.VerifDefaultI32(int32(7 + i))
		}
		fs = append(fs, f)
	}
	desc := thrift.VerifStruct("R", popts, fs...)
	opts := conv.Options{WriteRequireField: vrt.Bool(), WriteDefaultField: vrt.Bool(), WriteOptionalField: vrt.Bool(), DisallowUnknownField: vrt.Bool()}
	var in []byte
	var val [2]int
	for i := 0; i < 2; i++ {
		present[i] = vrt.Bool()
		if present[i] {
			val[i] = int(int32(vrt.U32()))
			in = vrt.PutBE32(vrt.PutField(in, vrt.TI32, ids[i]), val[i])
		}
	}
	unknown := vrt.Bool()
	if unknown {
		in = append(vrt.PutField(in, vrt.TBYTE, 9), 1)
	}
	in = append(in, 0)
	orig := append([]byte(nil), in...)

	vrt.GhostReset()
	cv := NewBinaryConv(opts)
	out, err := cv.Do(context.Background(), desc, in)

	// ---- model ----
	if unknown && opts.DisallowUnknownField {
		vrt.Reach("unknown-disallowed")
		vrt.Assert(err != nil && verifErrCode(err) == meta.ErrUnknownField, "C16.t2j.unknown.disallowed.error")
		return
	}
	missReq := false
	var written [2]bool
	for i := 0; i < 2; i++ {
		if present[i] {
			continue
		}
		switch req[i] {
		case 1: // required
			if opts.WriteRequireField {
				written[i] = true
			} else {
				missReq = true
			}
		case 0: // default requiredness
			written[i] = opts.WriteDefaultField
		case 2: // optional: only when the descriptor tracks optional fields, and then also whenever a default was parsed
			written[i] = popts.SetOptionalBitmap && (opts.WriteOptionalField || hasDef[i])
		}
	}
	if missReq {
		vrt.Reach("required-missing")
		vrt.Assert(err != nil && verifErrCode(err) == meta.ErrMissRequiredField, "C16.t2j.required-missing.error")
		return
	}
	vrt.Reach("converted")
	vrt.Assert(err == nil, "C16.t2j.noerror")
	if err != nil {
		return
	}
	root, ok := vrt.JParse(out)
	vrt.Assert(ok && root.Kind == vrt.JObject, "C16.t2j.valid-json")
	if !ok || root.Kind != vrt.JObject {
		return
	}
	cnt := 0
	for i := 0; i < 2; i++ {
		if present[i] || written[i] {
			cnt++
		}
	}
	vrt.Assert(len(root.Keys) == cnt, "C16.t2j.member-count")
	for i := 0; i < 2; i++ {
		found := -1
		for k := range root.Keys {
			if verifStrIs(out, root.Keys[k], []byte(names[i])) {
				found = k
			}
		}
		switch {
		case present[i]:
			vrt.Assert(found >= 0 && verifIntIs(out, root.Elems[found], int64(val[i])), "C16.t2j.present-field-unaltered")
		case written[i]:
			want := int64(0)
			if hasDef[i] {
				want = int64(7 + i)
			}
			if found >= 0 {
				vrt.Reach("filled")
			}
			vrt.Assert(found >= 0 && verifIntIs(out, root.Elems[found], want), "C16.t2j.absent-field-written-with-default-or-zero")
		default:
			vrt.Assert(found < 0, "C16.t2j.absent-field-not-written")
		}
	}
	vrt.Assert(vrt.BytesEq(in, 0, len(in), orig, 0, len(orig)), "C16.t2j.input-unchanged")
}
