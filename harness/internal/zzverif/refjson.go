package vrt

import (
	"encoding/base64"
	"encoding/json"
	"math"
	"strconv"
)

// Independent RFC 8259 scanner used as the JSON oracle.

const (
	JObject = '{'
	JArray  = '['
	JString = 's'
	JNumber = 'n'
	JTrue   = 't'
	JFalse  = 'f'
	JNull   = '0'
)

// JNode is a parsed JSON value; Start/End delimit its text (for strings: including the quotes).
type JNode struct {
	Kind  byte
	Start int
	End   int
	Keys  []JNode // object member keys (strings)
	Elems []JNode // object member values / array elements
}

// JErr is the reason of the last parse failure: why the text is not JSON.
var JErr string

func jfail(why string) bool {
	if JErr == "" {
		JErr = why
	}
	return false
}

func jspace(c byte) bool { return c == ' ' || c == '\t' || c == '\n' || c == '\r' }

func jskip(b []byte, i int) int {
	for i < len(b) && jspace(b[i]) {
		i++
	}
	return i
}

// JParse parses b as exactly one JSON value (surrounding whitespace allowed).
func JParse(b []byte) (JNode, bool) {
	JErr = ""
	i := jskip(b, 0)
	n, j, ok := jvalue(b, i, 0)
	if !ok {
		return n, false
	}
	j = jskip(b, j)
	return n, j == len(b)
}

// JParsePrefix parses the first JSON value of b (leading whitespace allowed) and reports where it
// ends; bytes after the value are not examined.
func JParsePrefix(b []byte) (JNode, int, bool) {
	JErr = ""
	n, j, ok := jvalue(b, jskip(b, 0), 0)
	if !ok && JErr == "" {
		JErr = "syntax"
	}
	return n, j, ok
}

func jvalue(b []byte, i int, depth int) (JNode, int, bool) {
	if i >= len(b) || depth > 64 {
		return JNode{}, i, false
	}
	switch c := b[i]; {
	case c == '{':
		n := JNode{Kind: JObject, Start: i}
		j := jskip(b, i+1)
		if j < len(b) && b[j] == '}' {
			n.End = j + 1
			return n, j + 1, true
		}
		for {
			j = jskip(b, j)
			k, j2, ok := jstring(b, j)
			if !ok {
				return n, j, false
			}
			j = jskip(b, j2)
			if j >= len(b) || b[j] != ':' {
				return n, j, false
			}
			j = jskip(b, j+1)
			v, j3, ok := jvalue(b, j, depth+1)
			if !ok {
				return n, j, false
			}
			n.Keys = append(n.Keys, k)
			n.Elems = append(n.Elems, v)
			j = jskip(b, j3)
			if j >= len(b) {
				return n, j, false
			}
			if b[j] == ',' {
				j++
				continue
			}
			if b[j] == '}' {
				n.End = j + 1
				return n, j + 1, true
			}
			return n, j, false
		}
	case c == '[':
		n := JNode{Kind: JArray, Start: i}
		j := jskip(b, i+1)
		if j < len(b) && b[j] == ']' {
			n.End = j + 1
			return n, j + 1, true
		}
		for {
			j = jskip(b, j)
			v, j2, ok := jvalue(b, j, depth+1)
			if !ok {
				return n, j, false
			}
			n.Elems = append(n.Elems, v)
			j = jskip(b, j2)
			if j >= len(b) {
				return n, j, false
			}
			if b[j] == ',' {
				j++
				continue
			}
			if b[j] == ']' {
				n.End = j + 1
				return n, j + 1, true
			}
			return n, j, false
		}
	case c == '"':
		return jstring(b, i)
	case c == 't':
		if i+4 <= len(b) && b[i+1] == 'r' && b[i+2] == 'u' && b[i+3] == 'e' {
			return JNode{Kind: JTrue, Start: i, End: i + 4}, i + 4, true
		}
	case c == 'f':
		if i+5 <= len(b) && b[i+1] == 'a' && b[i+2] == 'l' && b[i+3] == 's' && b[i+4] == 'e' {
			return JNode{Kind: JFalse, Start: i, End: i + 5}, i + 5, true
		}
	case c == 'n':
		if i+4 <= len(b) && b[i+1] == 'u' && b[i+2] == 'l' && b[i+3] == 'l' {
			return JNode{Kind: JNull, Start: i, End: i + 4}, i + 4, true
		}
	case c == '-' || (c >= '0' && c <= '9'):
		return jnumber(b, i)
	}
	return JNode{}, i, false
}

func jhex(c byte) bool {
	return (c >= '0' && c <= '9') || (c >= 'a' && c <= 'f') || (c >= 'A' && c <= 'F')
}

func jstring(b []byte, i int) (JNode, int, bool) {
	if i >= len(b) || b[i] != '"' {
		return JNode{}, i, false
	}
	j := i + 1
	for j < len(b) {
		c := b[j]
		switch {
		case c == '"':
			return JNode{Kind: JString, Start: i, End: j + 1}, j + 1, true
		case c < 0x20:
			return JNode{}, j, jfail("string.control-char")
		case c == '\\':
			if j+1 >= len(b) {
				return JNode{}, j, jfail("string.unterminated")
			}
			e := b[j+1]
			switch e {
			case '"', '\\', '/', 'b', 'f', 'n', 'r', 't':
				j += 2
			case 'u':
				if j+6 > len(b) || !jhex(b[j+2]) || !jhex(b[j+3]) || !jhex(b[j+4]) || !jhex(b[j+5]) {
					return JNode{}, j, jfail("string.bad-escape")
				}
				j += 6
			case 'a', 'v', 'x', '\'', '0', '1', '2', '3', '4', '5', '6', '7', 'U':
				// escapes of Go string literals that JSON does not have
				return JNode{}, j, jfail("string.go-escape")
			default:
				return JNode{}, j, jfail("string.bad-escape")
			}
		default:
			j++
		}
	}
	return JNode{}, j, jfail("string.unterminated")
}

func jdigit(c byte) bool { return c >= '0' && c <= '9' }

func jnumber(b []byte, i int) (JNode, int, bool) {
	j := i
	if j < len(b) && b[j] == '-' {
		j++
	}
	if j >= len(b) || !jdigit(b[j]) {
		return JNode{}, j, jfail("number.grammar")
	}
	if b[j] == '0' {
		j++
		if j < len(b) && jdigit(b[j]) {
			return JNode{}, j, jfail("number.leading-zero")
		}
	} else {
		for j < len(b) && jdigit(b[j]) {
			j++
		}
	}
	if j < len(b) && b[j] == '.' {
		j++
		if j >= len(b) || !jdigit(b[j]) {
			return JNode{}, j, jfail("number.grammar")
		}
		for j < len(b) && jdigit(b[j]) {
			j++
		}
	}
	if j < len(b) && (b[j] == 'e' || b[j] == 'E') {
		j++
		if j < len(b) && (b[j] == '+' || b[j] == '-') {
			j++
		}
		if j >= len(b) || !jdigit(b[j]) {
			return JNode{}, j, jfail("number.grammar")
		}
		for j < len(b) && jdigit(b[j]) {
			j++
		}
	}
	return JNode{Kind: JNumber, Start: i, End: j}, j, true
}

// ---- scalar token readers.  Under vsym these are intrinsics that resolve the placeholder
// text written by the scalar-encoder stubs to the value that was encoded ("ghost tokens");
// natively they parse the real text with the standard library. ----

// JNumInt returns the integer denoted by a JSON number token (or the content of a quoted key).
func JNumInt(tok []byte) (int64, bool) {
	v, err := strconv.ParseInt(string(tok), 10, 64)
	return v, err == nil
}

// JNumUint returns the unsigned integer denoted by a JSON number token (or the content of a quoted key).
func JNumUint(tok []byte) (uint64, bool) {
	v, err := strconv.ParseUint(string(tok), 10, 64)
	return v, err == nil
}

// JNumFloatBits returns the float64 bits denoted by a JSON number token.
func JNumFloatBits(tok []byte) (uint64, bool) {
	v, err := strconv.ParseFloat(string(tok), 64)
	if err != nil {
		return 0, false
	}
	return math.Float64bits(v), true
}

// JStr returns the string denoted by the text between the quotes of a JSON string token.
func JStr(content []byte) ([]byte, bool) {
	q := make([]byte, 0, len(content)+2)
	q = append(q, '"')
	q = append(q, content...)
	q = append(q, '"')
	var s string
	if err := json.Unmarshal(q, &s); err != nil {
		return nil, false
	}
	return []byte(s), true
}

// JBase64 decodes the standard base64 text between the quotes of a JSON string token.
func JBase64(content []byte) ([]byte, bool) {
	v, err := base64.StdEncoding.DecodeString(string(content))
	return v, err == nil
}

// B64Text returns the standard base64 text of b (under vsym: a placeholder the base64 decoder stub
// resolves back to b).
func B64Text(b []byte) string { return base64.StdEncoding.EncodeToString(b) }

// GhostReset forgets the ghost tokens of a previous conversion (no-op natively).
func GhostReset() {}
