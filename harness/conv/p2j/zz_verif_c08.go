package p2j

import (
	"context"
	"math"

	"github.com/cloudwego/dynamicgo/conv"
	vrt "github.com/cloudwego/dynamicgo/internal/zzverif"
	"github.com/cloudwego/dynamicgo/proto"
	gpw "google.golang.org/protobuf/encoding/protowire"
)

func init() {
	vrt.Register("VerifC08_Scalar", VerifC08_Scalar)
	vrt.Register("VerifC08_List", VerifC08_List)
	vrt.Register("VerifC08_Map", VerifC08_Map)
}

func verifWire(k proto.Type) gpw.Type {
	switch k {
	case proto.DOUBLE, proto.FIX64, proto.SFIX64:
		return gpw.Fixed64Type
	case proto.FLOAT, proto.FIX32, proto.SFIX32:
		return gpw.Fixed32Type
	case proto.STRING, proto.BYTE, proto.MESSAGE:
		return gpw.BytesType
	}
	return gpw.VarintType
}

// verifVal is a model value: raw = canonical 64-bit pattern (sign-extended for signed kinds).
type verifVal struct {
	k   proto.Type
	raw uint64
	bs  []byte
}

// verifStrLen is the length of the string / bytes values drawn by verifNewVal (SLEN parameter of the scalar
// harness: a length prefix of more than one byte starts at 128).
var verifStrLen = 1

func verifNewVal(k proto.Type, narrow bool) verifVal {
	s := verifVal{k: k}
	switch k {
	case proto.STRING:
		s.bs = []byte{vrt.U8() & 0x7f}
		for i := 1; i < verifStrLen; i++ {
			s.bs = append(s.bs, 'z')
		}
	case proto.BYTE:
		s.bs = vrt.Bytes(1)
		for i := 1; i < verifStrLen; i++ {
			s.bs = append(s.bs, 0xF0)
		}
	case proto.BOOL:
		if vrt.Bool() {
			s.raw = 1
		}
	case proto.INT32, proto.SINT32, proto.SFIX32, proto.ENUM:
		s.raw = uint64(int64(int32(vrt.U32())))
	case proto.UINT32, proto.FIX32, proto.FLOAT:
		s.raw = uint64(vrt.U32())
	default:
		s.raw = vrt.U64()
	}
	if narrow {
		switch k {
		case proto.INT32, proto.INT64, proto.UINT32, proto.UINT64, proto.ENUM:
			vrt.Assume(s.raw < 128)
		case proto.SINT32, proto.SINT64:
			vrt.Assume(int64(s.raw) >= -64 && int64(s.raw) < 64)
		}
	}
	return s
}

func verifAppendVal(b []byte, s verifVal) []byte {
	switch s.k {
	case proto.STRING, proto.BYTE:
		return gpw.AppendBytes(b, s.bs)
	case proto.SINT32, proto.SINT64:
		return gpw.AppendVarint(b, gpw.EncodeZigZag(int64(s.raw)))
	case proto.FIX32, proto.SFIX32, proto.FLOAT:
		return gpw.AppendFixed32(b, uint32(s.raw))
	case proto.FIX64, proto.SFIX64, proto.DOUBLE:
		return gpw.AppendFixed64(b, s.raw)
	}
	return gpw.AppendVarint(b, s.raw)
}

func verifBody(out []byte, n vrt.JNode) []byte { return out[n.Start+1 : n.End-1] }

// verifValIs: JSON node n denotes the model value (as a value; quoted = as an object key).
func verifValIs(out []byte, n vrt.JNode, s verifVal, opts conv.Options, label string) {
	tok := out[n.Start:n.End]
	switch s.k {
	case proto.BOOL:
		if n.Kind == vrt.JString {
			// a bool map key: "true" / "false"
			body := string(verifBody(out, n))
			vrt.Assert((body == "true" && s.raw == 1) || (body == "false" && s.raw == 0), label+".bool-key")
			return
		}
		vrt.Assert((n.Kind == vrt.JTrue && s.raw == 1) || (n.Kind == vrt.JFalse && s.raw == 0), label+".bool")
	case proto.STRING:
		vrt.Assert(n.Kind == vrt.JString, label+".string.kind")
		if n.Kind == vrt.JString {
			got, ok := vrt.JStr(verifBody(out, n))
			vrt.Assert(ok && vrt.BytesEq(got, 0, len(got), s.bs, 0, len(s.bs)), label+".string")
		}
	case proto.BYTE:
		vrt.Assert(n.Kind == vrt.JString, label+".bytes.kind")
		if n.Kind == vrt.JString {
			got, ok := vrt.JBase64(verifBody(out, n))
			vrt.Assert(ok && vrt.BytesEq(got, 0, len(got), s.bs, 0, len(s.bs)), label+".bytes")
		}
	case proto.DOUBLE:
		vrt.Assert(n.Kind == vrt.JNumber, label+".double.kind")
		if n.Kind == vrt.JNumber {
			got, ok := vrt.JNumFloatBits(tok)
			vrt.Assert(ok && got == s.raw, label+".double")
		}
	case proto.FLOAT:
		vrt.Assert(n.Kind == vrt.JNumber, label+".float.kind")
		if n.Kind == vrt.JNumber {
			got, ok := vrt.JNumFloatBits(tok)
			vrt.Assert(ok && got == math.Float64bits(float64(math.Float32frombits(uint32(s.raw)))), label+".float")
		}
	case proto.UINT64, proto.FIX64:
		// unsigned 64-bit: numerically exact means the decimal text of the unsigned value; the ghost/parse
		// accessor is signed, so values >= 2^63 must not come out as a (negative) int64 token
		if n.Kind == vrt.JString {
			tok = verifBody(out, n)
		}
		got, ok := vrt.JNumUint(tok)
		vrt.Assert(ok && got == s.raw, label+".uint64")
	default:
		if n.Kind == vrt.JString {
			// int64 under Int642String / quoted map keys
			tok = verifBody(out, n)
		}
		got, ok := vrt.JNumInt(tok)
		vrt.Assert(ok && got == int64(s.raw), label+".int")
	}
}

// VerifC08_Scalar: message{int32 p=1; K x_val=2 (json name xVal); string s=3}.
func VerifC08_Scalar() {
	k := proto.Type(vrt.Param("K"))
	verifStrLen = vrt.Param("SLEN")
	msg := proto.VerifNewMessage("M")
	proto.VerifAddField(msg, 1, "p", "p", proto.VerifBasic(proto.INT32), false)
	proto.VerifAddField(msg, 2, "x_val", "xVal", proto.VerifBasic(k), false)
	proto.VerifAddField(msg, 3, "s", "s", proto.VerifBasic(proto.STRING), false)
	proto.VerifBuild(msg)
	opts := conv.Options{Int642String: vrt.Bool(), DisallowUnknownField: vrt.Bool()}
	var b []byte
	lead := vrt.Bool()
	if lead {
		b = gpw.AppendVarint(gpw.AppendTag(b, 1, gpw.VarintType), uint64(vrt.U8()&0x7f))
	}
	val := verifNewVal(k, false)
	b = verifAppendVal(gpw.AppendTag(b, 2, verifWire(k)), val)
	unknown := vrt.Bool()
	if unknown {
		b = gpw.AppendVarint(gpw.AppendTag(b, 9, gpw.VarintType), 1)
	}
	vrt.GhostReset()
	cv := NewBinaryConv(opts)
	out, err := cv.Do(context.Background(), msg, b)
	if err != nil {
		vrt.Reach("error")
		return
	}
	vrt.Assert(!(unknown && opts.DisallowUnknownField), "C08.unknown.disallowed.error")
	vrt.Reach("converted")
	root, ok := vrt.JParse(out)
	vrt.Assert(ok && root.Kind == vrt.JObject, "C08.scalar.valid-json")
	if !ok || root.Kind != vrt.JObject {
		return
	}
	want := 1
	if lead {
		want = 2
	}
	vrt.Assert(len(root.Keys) == want, "C08.scalar.member-count")
	if len(root.Keys) != want {
		return
	}
	kk, ok2 := vrt.JStr(verifBody(out, root.Keys[want-1]))
	vrt.Assert(ok2 && string(kk) == "xVal", "C08.scalar.json-name")
	if k == proto.INT64 && opts.Int642String {
		vrt.Assert(root.Elems[want-1].Kind == vrt.JString, "C08.scalar.int64-as-string.kind")
	}
	verifValIs(out, root.Elems[want-1], val, opts, "C08.scalar.value")
}

// VerifC08_List: message{repeated K xs=2} with CNT elements in protobuf-go layout.
func VerifC08_List() {
	verifStrLen = 1
	k := proto.Type(vrt.Param("K"))
	cnt := vrt.Param("CNT")
	msg := proto.VerifNewMessage("M")
	proto.VerifAddField(msg, 1, "p", "p", proto.VerifBasic(proto.INT32), false)
	proto.VerifAddField(msg, 2, "xs", "xs", proto.VerifBasic(k), true)
	proto.VerifAddField(msg, 3, "s", "s", proto.VerifBasic(proto.STRING), false)
	proto.VerifBuild(msg)
	opts := conv.Options{Int642String: vrt.Bool()}
	var b []byte
	vals := make([]verifVal, cnt)
	for i := range vals {
		vals[i] = verifNewVal(k, i > 0 || vrt.Param("ENC") == 2)
	}
	packed := k != proto.STRING && k != proto.BYTE
	if vrt.Param("ENC") == 2 {
		packed = false // unpacked, every element a one-byte varint
	}
	if vrt.Param("ENC") == 1 {
		// the field is declared [packed = false]: the reference encoder writes one record per element
		packed = false
	}
	if cnt > 0 {
		if packed {
			var payload []byte
			for i := range vals {
				payload = verifAppendVal(payload, vals[i])
			}
			b = gpw.AppendBytes(gpw.AppendTag(b, 2, gpw.BytesType), payload)
		} else {
			for i := range vals {
				b = verifAppendVal(gpw.AppendTag(b, 2, verifWire(k)), vals[i])
			}
		}
	}
	trail := vrt.Bool()
	if trail {
		b = gpw.AppendBytes(gpw.AppendTag(b, 3, gpw.BytesType), []byte{'t'})
	}
	vrt.GhostReset()
	cv := NewBinaryConv(opts)
	out, err := cv.Do(context.Background(), msg, b)
	if err != nil {
		vrt.Reach("error")
		return
	}
	vrt.Reach("converted")
	root, ok := vrt.JParse(out)
	vrt.Assert(ok && root.Kind == vrt.JObject, "C08.list.valid-json")
	if !ok || root.Kind != vrt.JObject {
		return
	}
	if cnt == 0 {
		return
	}
	vrt.Assert(len(root.Keys) >= 1 && root.Elems[0].Kind == vrt.JArray && len(root.Elems[0].Elems) == cnt, "C08.list.shape")
	if len(root.Keys) >= 1 && root.Elems[0].Kind == vrt.JArray && len(root.Elems[0].Elems) == cnt {
		for i := range vals {
			verifValIs(out, root.Elems[0].Elems[i], vals[i], opts, "C08.list.element")
		}
	}
}

// VerifC08_Map: message{map<KT,VT> m=2} with CNT entries.
func VerifC08_Map() {
	verifStrLen = 1
	kt := proto.Type(vrt.Param("KT"))
	vt := proto.Type(vrt.Param("VT"))
	cnt := vrt.Param("CNT")
	msg := proto.VerifNewMessage("M")
	proto.VerifAddMap(msg, 2, "m", "m", proto.VerifBasic(kt), proto.VerifBasic(vt))
	proto.VerifAddField(msg, 3, "s", "s", proto.VerifBasic(proto.STRING), false)
	proto.VerifBuild(msg)
	opts := conv.Options{Int642String: vrt.Bool()}
	var b []byte
	keys := make([]verifVal, cnt)
	vals := make([]verifVal, cnt)
	for i := 0; i < cnt; i++ {
		keys[i] = verifNewVal(kt, i > 0)
		vals[i] = verifNewVal(vt, true)
		var e []byte
		e = verifAppendVal(gpw.AppendTag(e, 1, verifWire(kt)), keys[i])
		e = verifAppendVal(gpw.AppendTag(e, 2, verifWire(vt)), vals[i])
		b = gpw.AppendBytes(gpw.AppendTag(b, 2, gpw.BytesType), e)
	}
	if vrt.Bool() {
		b = gpw.AppendBytes(gpw.AppendTag(b, 3, gpw.BytesType), []byte{'t'})
	}
	vrt.GhostReset()
	cv := NewBinaryConv(opts)
	out, err := cv.Do(context.Background(), msg, b)
	if err != nil {
		vrt.Reach("error")
		return
	}
	vrt.Reach("converted")
	root, ok := vrt.JParse(out)
	vrt.Assert(ok && root.Kind == vrt.JObject, "C08.map.valid-json")
	if !ok || root.Kind != vrt.JObject || cnt == 0 {
		return
	}
	vrt.Assert(len(root.Keys) >= 1 && root.Elems[0].Kind == vrt.JObject && len(root.Elems[0].Keys) == cnt, "C08.map.shape")
	if len(root.Keys) >= 1 && root.Elems[0].Kind == vrt.JObject && len(root.Elems[0].Keys) == cnt {
		m := root.Elems[0]
		for i := range keys {
			// keys are JSON strings holding the stringified key
			verifValIs(out, m.Keys[i], keys[i], opts, "C08.map.key")
			if vt == proto.INT64 && opts.Int642String {
				vrt.Assert(m.Elems[i].Kind == vrt.JString, "C08.map.value.int64-as-string.kind")
			}
			verifValIs(out, m.Elems[i], vals[i], opts, "C08.map.value")
		}
	}
}

func init() { vrt.Register("VerifC08_Nested", VerifC08_Nested) }

// VerifC08_Nested: Outer{Inner in=1; string s=2}, Inner's field 2 is (SHAPE 0) int32 a,
// (1) repeated string r, (2) map<int32,int32> m, (3) repeated int32 p (packed).  The outer
// sibling carries the same field number as the inner container, as protobuf-go emits it right
// after the nested message.
func VerifC08_Nested() {
	verifStrLen = 1
	shape := vrt.Param("SHAPE")
	cnt := vrt.Param("CNT")
	inner := proto.VerifNewMessage("Inner")
	switch shape {
	case 0:
		proto.VerifAddField(inner, 2, "a", "a", proto.VerifBasic(proto.INT32), false)
	case 1:
		proto.VerifAddField(inner, 2, "r", "r", proto.VerifBasic(proto.STRING), true)
	case 2:
		proto.VerifAddMap(inner, 2, "m", "m", proto.VerifBasic(proto.INT32), proto.VerifBasic(proto.INT32))
	case 3:
		proto.VerifAddField(inner, 2, "p", "p", proto.VerifBasic(proto.INT32), true)
	}
	proto.VerifBuild(inner)
	outer := proto.VerifNewMessage("Outer")
	proto.VerifAddField(outer, 1, "in_ner", "inNer", inner, false)
	proto.VerifAddField(outer, 2, "s", "s", proto.VerifBasic(proto.STRING), false)
	proto.VerifBuild(outer)
	opts := conv.Options{DisallowUnknownField: vrt.Bool()}
	var ib []byte
	vals := make([]verifVal, cnt)
	keys := make([]verifVal, cnt)
	// an unknown field inside the nested message, before or after its known content
	iunk := vrt.Bool()
	iunkFirst := vrt.Bool()
	if iunk && iunkFirst {
		ib = gpw.AppendVarint(gpw.AppendTag(ib, 9, gpw.VarintType), 1)
	}
	switch shape {
	case 0:
		if cnt > 0 {
			vals[0] = verifNewVal(proto.INT32, false)
			ib = verifAppendVal(gpw.AppendTag(ib, 2, gpw.VarintType), vals[0])
		}
	case 1:
		for i := range vals {
			vals[i] = verifNewVal(proto.STRING, false)
			ib = verifAppendVal(gpw.AppendTag(ib, 2, gpw.BytesType), vals[i])
		}
	case 2:
		for i := range vals {
			keys[i] = verifNewVal(proto.INT32, true)
			vals[i] = verifNewVal(proto.INT32, true)
			var e []byte
			e = verifAppendVal(gpw.AppendTag(e, 1, gpw.VarintType), keys[i])
			e = verifAppendVal(gpw.AppendTag(e, 2, gpw.VarintType), vals[i])
			ib = gpw.AppendBytes(gpw.AppendTag(ib, 2, gpw.BytesType), e)
		}
	case 3:
		if cnt > 0 {
			var payload []byte
			for i := range vals {
				vals[i] = verifNewVal(proto.INT32, i > 0)
				payload = verifAppendVal(payload, vals[i])
			}
			ib = gpw.AppendBytes(gpw.AppendTag(ib, 2, gpw.BytesType), payload)
		}
	}
	if iunk && !iunkFirst {
		ib = gpw.AppendBytes(gpw.AppendTag(ib, 9, gpw.BytesType), []byte{'u'})
	}
	var b []byte
	b = gpw.AppendBytes(gpw.AppendTag(b, 1, gpw.BytesType), ib)
	sib := vrt.Bool()
	sv := verifNewVal(proto.STRING, false)
	if shape == 2 {
		// long enough to be taken for a map entry {key, value}
		sv.bs = []byte{vrt.U8() & 0x7f, vrt.U8() & 0x7f, vrt.U8() & 0x7f, vrt.U8() & 0x7f}
	}
	if sib {
		b = verifAppendVal(gpw.AppendTag(b, 2, gpw.BytesType), sv)
	}
	vrt.GhostReset()
	cv := NewBinaryConv(opts)
	out, err := cv.Do(context.Background(), outer, b)
	if err != nil {
		vrt.Reach("error")
		return
	}
	vrt.Assert(!(iunk && opts.DisallowUnknownField), "C08.nested.unknown.disallowed.error")
	vrt.Reach("converted")
	root, ok := vrt.JParse(out)
	vrt.Assert(ok && root.Kind == vrt.JObject, "C08.nested.valid-json")
	if !ok || root.Kind != vrt.JObject {
		return
	}
	want := 1
	if sib {
		want = 2
	}
	vrt.Assert(len(root.Keys) == want && root.Elems[0].Kind == vrt.JObject, "C08.nested.outer-shape")
	if len(root.Keys) != want || root.Elems[0].Kind != vrt.JObject {
		return
	}
	k0, _ := vrt.JStr(verifBody(out, root.Keys[0]))
	vrt.Assert(string(k0) == "inNer", "C08.nested.json-name")
	if sib {
		verifValIs(out, root.Elems[1], sv, opts, "C08.nested.sibling")
	}
	in := root.Elems[0]
	if cnt == 0 {
		vrt.Assert(len(in.Keys) == 0, "C08.nested.empty-inner")
		return
	}
	vrt.Assert(len(in.Keys) == 1, "C08.nested.inner-shape")
	if len(in.Keys) != 1 {
		return
	}
	v := in.Elems[0]
	switch shape {
	case 0:
		verifValIs(out, v, vals[0], opts, "C08.nested.scalar")
	case 1, 3:
		vrt.Assert(v.Kind == vrt.JArray && len(v.Elems) == cnt, "C08.nested.list-shape")
		if v.Kind == vrt.JArray && len(v.Elems) == cnt {
			for i := range vals {
				verifValIs(out, v.Elems[i], vals[i], opts, "C08.nested.list-element")
			}
		}
	case 2:
		vrt.Assert(v.Kind == vrt.JObject && len(v.Keys) == cnt, "C08.nested.map-shape")
		if v.Kind == vrt.JObject && len(v.Keys) == cnt {
			for i := range vals {
				verifValIs(out, v.Keys[i], keys[i], opts, "C08.nested.map-key")
				verifValIs(out, v.Elems[i], vals[i], opts, "C08.nested.map-value")
			}
		}
	}
}
