package caching

import (
	"unsafe"

	vrt "github.com/cloudwego/dynamicgo/internal/zzverif"
)

func init() {
	vrt.Register("VerifC14_HashMap", VerifC14_HashMap)
	vrt.Register("VerifC14_Trie", VerifC14_Trie)
	vrt.Register("VerifC14_HashZero", VerifC14_HashZero)
}

var verifVals [8]int

func verifStrEq(a []byte, b string) bool {
	if len(a) != len(b) {
		return false
	}
	for i := range a {
		if a[i] != b[i] {
			return false
		}
	}
	return true
}

// VerifC14_HashMap: a HashMap holding three fixed names and one arbitrary declared name z (L symbolic
// identifier bytes): every declared name is found, and an arbitrary key k is found iff it is declared.
func VerifC14_HashMap() {
	l := vrt.Param("L")
	names := []string{"alpha", "beta", "gamma"}
	z := vrt.Bytes(l)
	for i := range z {
		// letters of either case (one unsigned comparison: no forking)
		vrt.Assume((z[i]|0x20)-'a' < 26)
	}
	zs := string(z)
	vrt.Assume(zs != "alpha" && zs != "beta" && zs != "gamma")
	m := NewHashMap(4, 4)
	for i, n := range names {
		m.Set(n, unsafe.Pointer(&verifVals[i]))
	}
	m.Set(zs, unsafe.Pointer(&verifVals[3]))
	// every declared name is found with its own value
	for i, n := range names {
		vrt.Assert(m.Get(n) == unsafe.Pointer(&verifVals[i]), "C14.hashmap.declared-fixed-name.found")
	}
	vrt.Assert(m.Get(zs) == unsafe.Pointer(&verifVals[3]), "C14.hashmap.declared-name.found")
	// an arbitrary key of the same length
	k := vrt.Bytes(l)
	ks := string(k)
	got := m.Get(ks)
	if verifStrEq(k, zs) {
		vrt.Reach("declared")
		vrt.Assert(got == unsafe.Pointer(&verifVals[3]), "C14.hashmap.lookup.declared")
	} else if ks == "alpha" || ks == "beta" || ks == "gamma" {
		vrt.Reach("declared")
	} else {
		vrt.Reach("undeclared")
		vrt.Assert(got == nil, "C14.hashmap.lookup.undeclared-nil")
	}
}

// VerifC14_Trie: a TrieTree over a fixed name set (position chosen like FieldNameMap.Build would) and
// an arbitrary key of L bytes over the full byte alphabet.
func VerifC14_Trie() {
	l := vrt.Param("L")
	names := []string{"id", "name", "Name", "na", "n", "extra", "ext-ra", "\x80x", ""}
	t := &TrieTree{}
	t.Positions = append(t.Positions, vrt.Param("POS"))
	for i, n := range names {
		if n == "" {
			t.Empty = unsafe.Pointer(&verifVals[i%8])
			continue
		}
		t.Set(n, unsafe.Pointer(&verifVals[i%8]))
	}
	for i, n := range names {
		vrt.Assert(t.Get(n) == unsafe.Pointer(&verifVals[i%8]), "C14.trie.declared-name.found")
	}
	k := vrt.Bytes(l)
	ks := string(k)
	got := t.Get(ks)
	idx := -1
	for i, n := range names {
		if verifStrEq(k, n) {
			idx = i
		}
	}
	if idx >= 0 {
		vrt.Reach("declared")
		vrt.Assert(got == unsafe.Pointer(&verifVals[idx%8]), "C14.trie.lookup.declared")
	} else {
		vrt.Reach("undeclared")
		vrt.Assert(got == nil, "C14.trie.lookup.undeclared-nil")
	}
}

// VerifC14_HashZero: is there a declarable name (L letters) whose hash collides with the empty-slot
// marker?  The solver searches the name; if one exists the map must still find it.
func VerifC14_HashZero() {
	l := vrt.Param("L")
	z := vrt.Bytes(l)
	for i := range z {
		vrt.Assume((z[i]|0x20)-'a' < 26)
	}
	zs := string(z)
	vrt.Assume(DJBHash32(zs) == 0)
	vrt.Reach("hash-zero-name-exists")
	m := NewHashMap(4, 4)
	m.Set("alpha", unsafe.Pointer(&verifVals[0]))
	m.Set(zs, unsafe.Pointer(&verifVals[3]))
	vrt.Assert(m.Get(zs) == unsafe.Pointer(&verifVals[3]), "C14.hashmap.hash-zero-name.found")
	vrt.Assert(m.Get("alpha") == unsafe.Pointer(&verifVals[0]), "C14.hashmap.other-name-still-found")
}
