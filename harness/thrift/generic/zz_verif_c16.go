package generic

import (
	vrt "github.com/cloudwego/dynamicgo/internal/zzverif"
	"github.com/cloudwego/dynamicgo/meta"
	"github.com/cloudwego/dynamicgo/thrift"
)

func init() {
	vrt.Register("VerifC16_Cut", VerifC16_Cut)
}

// VerifC16_Cut: cutting into target{1: i32 a; ID2: i32 b} with symbolic requiredness, presence and options.
func VerifC16_Cut() {
	id2 := vrt.Param("ID2")
	ids := [2]int{1, id2}
	var req [2]int
	var present [2]bool
	popts := thrift.Options{SetOptionalBitmap: vrt.Bool()}
	var fs, sfs []thrift.VField
	names := [2]string{"a", "b"}
	for i := 0; i < 2; i++ {
		req[i] = vrt.Conc(int(vrt.U8() % 3))
		fs = append(fs, thrift.VField{ID: thrift.FieldID(ids[i]), Name: names[i], Type: thrift.VerifBasic(thrift.I32), Req: req[i]})
		sfs = append(sfs, thrift.VField{ID: thrift.FieldID(ids[i]), Name: names[i], Type: thrift.VerifBasic(thrift.I32), Req: 2})
	}
	dst := thrift.VerifStruct("R", popts, fs...)
	src := thrift.VerifStruct("R", thrift.Options{}, sfs...)
	opts := &Options{DisallowUnknow: vrt.Bool(), NotCheckRequireNess: vrt.Bool(), WriteDefault: vrt.Bool()}
	var in, proj []byte
	for i := 0; i < 2; i++ {
		present[i] = vrt.Bool()
		if present[i] {
			v := int(int32(vrt.U32()))
			in = vrt.PutBE32(vrt.PutField(in, vrt.TI32, ids[i]), v)
			proj = vrt.PutBE32(vrt.PutField(proj, vrt.TI32, ids[i]), v)
		}
	}
	unknown := vrt.Bool()
	if unknown {
		in = append(vrt.PutField(in, vrt.TBYTE, 9), 1)
	}
	in = append(in, 0)
	out, err := NewValue(src, in).MarshalTo(dst, opts)
	if unknown && opts.DisallowUnknow {
		vrt.Reach("unknown-disallowed")
		e, ok := err.(meta.Error)
		vrt.Assert(err != nil && ok && e.Code.Behavior() == meta.ErrUnknownField, "C16.cut.unknown.disallowed.error")
		return
	}
	missReq := false
	optionalAbsent := false
	for i := 0; i < 2; i++ {
		if present[i] {
			continue
		}
		switch req[i] {
		case 1:
			if !opts.NotCheckRequireNess {
				missReq = true
			}
		case 2:
			optionalAbsent = true
		}
	}
	if missReq {
		vrt.Reach("required-missing")
		e, ok := err.(meta.Error)
		vrt.Assert(err != nil && ok && e.Code.Behavior() == meta.ErrMissRequiredField, "C16.cut.required-missing.error")
		return
	}
	vrt.Reach("cut")
	vrt.Assert(err == nil, "C16.cut.noerror")
	if err != nil {
		return
	}
	kids, ok := vrt.TChildren(out, vrt.TSTRUCT, 3)
	vrt.Assert(ok, "C16.cut.wellformed")
	if !ok {
		return
	}
	// present fields are never altered or dropped, in source order
	k := 0
	for i := 0; i < 2; i++ {
		if present[i] {
			vrt.Assert(k < len(kids) && kids[k].ID == ids[i] && vrt.BytesEq(out, kids[k].Start, kids[k].End, in, 3+k*7, 7+k*7), "C16.cut.present-field-unaltered")
			k++
		}
	}
	// default-requiredness fields absent from the value are zero-filled exactly under WriteDefault
	for i := 0; i < 2; i++ {
		if present[i] || req[i] != 0 {
			continue
		}
		found := false
		for j := k; j < len(kids); j++ {
			if kids[j].ID == ids[i] {
				found = true
				vrt.Assert(kids[j].Typ == vrt.TI32 && vrt.BE32(out, kids[j].Start) == 0, "C16.cut.zero-fill.value")
			}
		}
		vrt.Assert(found == (opts.WriteDefault && !opts.NotCheckRequireNess), "C16.cut.default-field.zero-filled-iff-writedefault")
	}
	if !optionalAbsent {
		// nothing else may appear
		n := k
		for i := 0; i < 2; i++ {
			if !present[i] && req[i] == 0 && opts.WriteDefault && !opts.NotCheckRequireNess {
				n++
			}
			if !present[i] && req[i] == 1 && opts.WriteDefault && opts.NotCheckRequireNess {
				_ = n
			}
		}
		vrt.Assert(len(kids) == n, "C16.cut.no-extra-fields")
	}
	_ = proj
}

func init() {
	vrt.Register("VerifC16_ZeroValues", VerifC16_ZeroValues)
}

// verifTypeByIndex returns the descriptor of the K-th field type and the reference encoding of its zero value.
func verifTypeByIndex(k int) (*thrift.TypeDescriptor, byte, []byte) {
	inner := thrift.VerifStruct("Inner", thrift.Options{}, thrift.VField{ID: 1, Name: "x", Type: thrift.VerifBasic(thrift.I32), Req: 2})
	switch k {
	case 0:
		return thrift.VerifBasic(thrift.BOOL), vrt.TBOOL, []byte{0}
	case 1:
		return thrift.VerifBasic(thrift.BYTE), vrt.TBYTE, []byte{0}
	case 2:
		return thrift.VerifBasic(thrift.I16), vrt.TI16, []byte{0, 0}
	case 3:
		return thrift.VerifBasic(thrift.I32), vrt.TI32, []byte{0, 0, 0, 0}
	case 4:
		return thrift.VerifBasic(thrift.I64), vrt.TI64, make([]byte, 8)
	case 5:
		return thrift.VerifBasic(thrift.DOUBLE), vrt.TDOUBLE, make([]byte, 8)
	case 6:
		return thrift.VerifBasic(thrift.STRING), vrt.TSTRING, []byte{0, 0, 0, 0}
	case 7:
		return thrift.VerifList(thrift.VerifBasic(thrift.I64)), vrt.TLIST, vrt.PutListHdr(nil, vrt.TI64, 0)
	case 8:
		return thrift.VerifSet(thrift.VerifBasic(thrift.STRING)), vrt.TSET, vrt.PutListHdr(nil, vrt.TSTRING, 0)
	case 9:
		return thrift.VerifMap(thrift.VerifBasic(thrift.STRING), thrift.VerifBasic(thrift.I32)), vrt.TMAP, vrt.PutMapHdr(nil, vrt.TSTRING, vrt.TI32, 0)
	case 10:
		return thrift.VerifMap(thrift.VerifBasic(thrift.I64), inner), vrt.TMAP, vrt.PutMapHdr(nil, vrt.TI64, vrt.TSTRUCT, 0)
	default:
		return inner, vrt.TSTRUCT, []byte{0}
	}
}

// VerifC16_ZeroValues: a default-requiredness target field of each type, absent from the value, is written
// under WriteDefault with the zero value of its declared type (the empty struct for struct types).
func VerifC16_ZeroValues() {
	k := vrt.Param("K")
	ft, tt, zero := verifTypeByIndex(k)
	src := thrift.VerifStruct("R", thrift.Options{}, thrift.VField{ID: 1, Name: "a", Type: thrift.VerifBasic(thrift.I32), Req: 2})
	dst := thrift.VerifStruct("R", thrift.Options{},
		thrift.VField{ID: 1, Name: "a", Type: thrift.VerifBasic(thrift.I32), Req: 2},
		thrift.VField{ID: 2, Name: "z", Type: ft, Req: 0})
	a := int(int32(vrt.U32()))
	in := append(vrt.PutBE32(vrt.PutField(nil, vrt.TI32, 1), a), 0)
	out, err := NewValue(src, in).MarshalTo(dst, &Options{WriteDefault: true})
	vrt.Assert(err == nil, "C16.zero.noerror")
	if err != nil {
		return
	}
	exp := vrt.PutBE32(vrt.PutField(nil, vrt.TI32, 1), a)
	exp = append(vrt.PutField(exp, tt, 2), zero...)
	exp = append(exp, 0)
	vrt.Reach("filled")
	vrt.Assert(vrt.BytesEq(out, 0, len(out), exp, 0, len(exp)), "C16.zero.value-of-declared-type")
}
