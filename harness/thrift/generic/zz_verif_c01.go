package generic

import (
	"math"

	vrt "github.com/cloudwego/dynamicgo/internal/zzverif"
	"github.com/cloudwego/dynamicgo/thrift"
)

func init() {
	vrt.Register("VerifC01_StructField", VerifC01_StructField)
	vrt.Register("VerifC01_ListIndex", VerifC01_ListIndex)
	vrt.Register("VerifC01_MapKey", VerifC01_MapKey)
}

const verifDepth = 4

// verifFound asserts that got is exactly the element e of buffer b.
func verifFound(got Node, b []byte, e vrt.TElem, label string) {
	vrt.Assert(!got.IsError(), label+".noerror")
	if got.IsError() {
		return
	}
	vrt.Assert(byte(got.Type()) == e.Typ, label+".type")
	vrt.Assert(vrt.SameSpan(got.Raw(), b, e.Start, e.End), label+".span")
}

// verifDistinctDeep assumes that no struct repeats a field id at any nesting level of the value b of type t
// (no encoder produces such a struct, and which occurrence counts is not specified).
func verifDistinctDeep(b []byte, t byte, depth int) {
	if depth < 0 {
		return
	}
	switch t {
	case vrt.TSTRUCT, vrt.TLIST, vrt.TSET, vrt.TMAP:
	default:
		return
	}
	kids, ok := vrt.TChildren(b, t, depth)
	if !ok {
		return
	}
	if t == vrt.TSTRUCT {
		verifDistinctIDs(kids)
	}
	for _, k := range kids {
		verifDistinctDeep(b[k.Start:k.End], k.Typ, depth-1)
		if t == vrt.TMAP {
			verifDistinctDeep(b[k.KStart:k.KEnd], b[0], depth-1)
		}
	}
}

func verifDistinctIDs(kids []vrt.TElem) {
	for i := range kids {
		for j := 0; j < i; j++ {
			vrt.Assume(kids[i].ID != kids[j].ID)
		}
	}
}

// VerifC01_StructField: every field lookup API on every well-formed struct of exactly N bytes.
func VerifC01_StructField() {
	n := vrt.Param("N")
	b := vrt.Bytes(n)
	kids, ok := vrt.TChildren(b, vrt.TSTRUCT, verifDepth)
	vrt.Assume(ok)
	verifDistinctIDs(kids)
	want := int16(vrt.U16())
	node := NewNode(thrift.STRUCT, b)
	idx := -1
	for i := range kids {
		if int16(kids[i].ID) == want {
			idx = i
		}
	}
	g1 := node.GetByPath(NewPathFieldId(thrift.FieldID(want)))
	g2 := node.Field(thrift.FieldID(want))
	if idx >= 0 {
		vrt.Reach("found")
		verifFound(g1, b, kids[idx], "C01.struct.getbypath.found")
		verifFound(g2, b, kids[idx], "C01.struct.field.found")
	} else {
		vrt.Reach("absent")
		vrt.Assert(g1.IsErrNotFound(), "C01.struct.getbypath.absent")
		vrt.Assert(g2.IsErrNotFound(), "C01.struct.field.absent")
	}
	// wrong-kind paths yield errors, never a result
	vrt.Assert(node.Index(0).IsError(), "C01.struct.index.wrongkind")
	vrt.Assert(node.GetByStr("a").IsError(), "C01.struct.getbystr.wrongkind")
	vrt.Assert(node.GetByInt(1).IsError(), "C01.struct.getbyint.wrongkind")
}

// VerifC01_ListIndex: Index / GetByPath(index) on every well-formed list or set of exactly N bytes.
func VerifC01_ListIndex() {
	n := vrt.Param("N")
	b := vrt.Bytes(n)
	tt := byte(vrt.TLIST)
	if vrt.Param("SET") != 0 {
		tt = vrt.TSET
	}
	kids, ok := vrt.TChildren(b, tt, verifDepth)
	vrt.Assume(ok)
	want := vrt.Int()
	node := NewNode(thrift.Type(tt), b)
	g1 := node.GetByPath(NewPathIndex(want))
	g2 := node.Index(want)
	if want >= 0 && want < len(kids) {
		vrt.Reach("found")
		e := kids[vrt.Conc(want)]
		verifFound(g1, b, e, "C01.list.getbypath.found")
		verifFound(g2, b, e, "C01.list.index.found")
	} else if want >= len(kids) {
		vrt.Reach("absent")
		vrt.Assert(g1.IsErrNotFound(), "C01.list.getbypath.absent")
		vrt.Assert(g2.IsError(), "C01.list.index.absent")
	} else {
		vrt.Reach("negative")
		vrt.Assert(g1.IsError(), "C01.list.getbypath.negative")
		vrt.Assert(g2.IsError(), "C01.list.index.negative")
	}
	vrt.Assert(node.Field(1).IsError(), "C01.list.field.wrongkind")
	vrt.Assert(node.GetByStr("a").IsError(), "C01.list.getbystr.wrongkind")
}

// VerifC01_MapKey: string-, int- and raw-keyed lookups on every well-formed map of exactly N bytes.
func VerifC01_MapKey() {
	n := vrt.Param("N")
	b := vrt.Bytes(n)
	kids, ok := vrt.TChildren(b, vrt.TMAP, verifDepth)
	vrt.Assume(ok)
	// distinct keys
	for i := range kids {
		for j := 0; j < i; j++ {
			vrt.Assume(!vrt.BytesEq(b, kids[i].KStart, kids[i].KEnd, b, kids[j].KStart, kids[j].KEnd))
		}
	}
	node := NewNode(thrift.MAP, b)
	kt := b[0]
	switch {
	case kt == vrt.TSTRING:
		vrt.Reach("strkey")
		kl := vrt.Param("KL")
		key := vrt.Bytes(kl)
		idx := -1
		for i := range kids {
			if vrt.BytesEq(b, kids[i].KStart+4, kids[i].KEnd, key, 0, kl) {
				idx = i
			}
		}
		g1 := node.GetByPath(NewPathStrKey(string(key)))
		g2 := node.GetByStr(string(key))
		if idx >= 0 {
			vrt.Reach("str.found")
			verifFound(g1, b, kids[idx], "C01.map.getbypath.str.found")
			verifFound(g2, b, kids[idx], "C01.map.getbystr.found")
		} else {
			vrt.Reach("str.absent")
			vrt.Assert(g1.IsErrNotFound(), "C01.map.getbypath.str.absent")
			vrt.Assert(g2.IsErrNotFound(), "C01.map.getbystr.absent")
		}
		vrt.Assert(node.GetByInt(1).IsError(), "C01.map.getbyint.wrongkey")
	case kt == vrt.TBYTE || kt == vrt.TI16 || kt == vrt.TI32 || kt == vrt.TI64:
		vrt.Reach("intkey")
		want := vrt.Int()
		idx := -1
		for i := range kids {
			var kv int
			switch kt {
			case vrt.TBYTE:
				kv = int(b[kids[i].KStart]) // the public API exposes thrift BYTE as Go uint8 (ReadByte returns byte)
			case vrt.TI16:
				kv = int(int16(vrt.BE16(b, kids[i].KStart)))
			case vrt.TI32:
				kv = vrt.BE32(b, kids[i].KStart)
			default:
				kv = int(vrt.BE64(b, kids[i].KStart))
			}
			if kv == want {
				idx = i
			}
		}
		g1 := node.GetByPath(NewPathIntKey(want))
		g2 := node.GetByInt(want)
		if idx >= 0 {
			vrt.Reach("int.found")
			verifFound(g1, b, kids[idx], "C01.map.getbypath.int.found")
			verifFound(g2, b, kids[idx], "C01.map.getbyint.found")
		} else {
			vrt.Reach("int.absent")
			vrt.Assert(g1.IsErrNotFound(), "C01.map.getbypath.int.absent")
			vrt.Assert(g2.IsErrNotFound(), "C01.map.getbyint.absent")
		}
		vrt.Assert(node.GetByStr("a").IsError(), "C01.map.getbystr.wrongkey")
	default:
		vrt.Reach("otherkey")
	}
	// raw key lookup works for every key type
	if len(kids) > 0 {
		k := kids[len(kids)-1]
		raw := append([]byte(nil), b[k.KStart:k.KEnd]...)
		verifFound(node.GetByRaw(raw), b, k, "C01.map.getbyraw.found")
		verifFound(node.GetByPath(NewPathBinKey(raw)), b, k, "C01.map.getbypath.bin.found")
	}
	vrt.Assert(node.Field(1).IsError(), "C01.map.field.wrongkind")
	vrt.Assert(node.Index(0).IsError(), "C01.map.index.wrongkind")
}

func init() {
	vrt.Register("VerifC01_Interface", VerifC01_Interface)
	vrt.Register("VerifC01_Iterate", VerifC01_Iterate)
}

// verifIfaceEq compares the Go value produced by Interface() with the reference decoding of b (type t).
func verifIfaceEq(v interface{}, b []byte, t byte, opts *Options, depth int) bool {
	if depth < 0 {
		return false
	}
	switch t {
	case vrt.TBOOL:
		x, ok := v.(bool)
		if b[0] > 1 {
			// the binary protocol encodes bool as 0 or 1; other bytes are not produced by any encoder
			return ok
		}
		return ok && x == (b[0] != 0)
	case vrt.TBYTE:
		x, ok := v.(int)
		return ok && x == int(b[0])
	case vrt.TI16:
		x, ok := v.(int)
		return ok && x == int(int16(vrt.BE16(b, 0)))
	case vrt.TI32:
		x, ok := v.(int)
		return ok && x == vrt.BE32(b, 0)
	case vrt.TI64:
		x, ok := v.(int)
		return ok && x == int(vrt.BE64(b, 0))
	case vrt.TDOUBLE:
		x, ok := v.(float64)
		return ok && math.Float64bits(x) == uint64(vrt.BE64(b, 0))
	case vrt.TSTRING:
		if opts.CastStringAsBinary {
			x, ok := v.([]byte)
			return ok && vrt.BytesEq(x, 0, len(x), b, 4, len(b))
		}
		x, ok := v.(string)
		if !ok || len(x) != len(b)-4 {
			return false
		}
		for i := 0; i < len(x); i++ {
			if x[i] != b[4+i] {
				return false
			}
		}
		return true
	case vrt.TLIST, vrt.TSET:
		x, ok := v.([]interface{})
		kids, ok2 := vrt.TChildren(b, t, depth)
		if !ok || !ok2 || len(x) != len(kids) {
			return false
		}
		for i := range kids {
			if !verifIfaceEq(x[i], b[kids[i].Start:kids[i].End], kids[i].Typ, opts, depth-1) {
				return false
			}
		}
		return true
	case vrt.TSTRUCT:
		kids, ok2 := vrt.TChildren(b, t, depth)
		if !ok2 {
			return false
		}
		// a struct that repeats a field id has no single Go value (which occurrence wins is not specified):
		// such layouts are outside the comparison at every nesting level
		verifDistinctIDs(kids)
		if opts.MapStructById {
			x, ok := v.(map[thrift.FieldID]interface{})
			if !ok || len(x) != len(kids) {
				return false
			}
			for i := range kids {
				e, has := x[thrift.FieldID(kids[i].ID)]
				if !has || !verifIfaceEq(e, b[kids[i].Start:kids[i].End], kids[i].Typ, opts, depth-1) {
					return false
				}
			}
			return true
		}
		x, ok := v.(map[int]interface{})
		if !ok || len(x) != len(kids) {
			return false
		}
		for i := range kids {
			e, has := x[kids[i].ID]
			if !has || !verifIfaceEq(e, b[kids[i].Start:kids[i].End], kids[i].Typ, opts, depth-1) {
				return false
			}
		}
		return true
	case vrt.TMAP:
		kids, ok2 := vrt.TChildren(b, t, depth)
		if !ok2 {
			return false
		}
		// likewise a map that repeats a key (at any nesting level)
		for i := range kids {
			for j := 0; j < i; j++ {
				vrt.Assume(!vrt.BytesEq(b, kids[i].KStart, kids[i].KEnd, b, kids[j].KStart, kids[j].KEnd))
			}
		}
		kt := b[0]
		switch {
		case kt == vrt.TSTRING:
			x, ok := v.(map[string]interface{})
			if !ok || len(x) != len(kids) {
				return false
			}
			for i := range kids {
				e, has := x[string(b[kids[i].KStart+4:kids[i].KEnd])]
				if !has || !verifIfaceEq(e, b[kids[i].Start:kids[i].End], kids[i].Typ, opts, depth-1) {
					return false
				}
			}
			return true
		case kt == vrt.TBYTE || kt == vrt.TI16 || kt == vrt.TI32 || kt == vrt.TI64:
			x, ok := v.(map[int]interface{})
			if !ok || len(x) != len(kids) {
				return false
			}
			for i := range kids {
				var kv int
				switch kt {
				case vrt.TBYTE:
					kv = int(b[kids[i].KStart])
				case vrt.TI16:
					kv = int(int16(vrt.BE16(b, kids[i].KStart)))
				case vrt.TI32:
					kv = vrt.BE32(b, kids[i].KStart)
				default:
					kv = int(vrt.BE64(b, kids[i].KStart))
				}
				e, has := x[kv]
				if !has || !verifIfaceEq(e, b[kids[i].Start:kids[i].End], kids[i].Typ, opts, depth-1) {
					return false
				}
			}
			return true
		default:
			x, ok := v.(map[interface{}]interface{})
			if !ok || len(x) != len(kids) {
				return false
			}
			// keys are bool/double values or pointers to container values: match each reference
			// entry with some Go entry whose key and value both decode equal
			for i := range kids {
				found := false
				for gk, gv := range x {
					if verifKeyEq(gk, b[kids[i].KStart:kids[i].KEnd], kt, opts, depth-1) &&
						verifIfaceEq(gv, b[kids[i].Start:kids[i].End], kids[i].Typ, opts, depth-1) {
						found = true
					}
				}
				if !found {
					return false
				}
			}
			return true
		}
	}
	return false
}

// verifKeyEq: map keys of container type are stored as pointers to the decoded Go value.
func verifKeyEq(k interface{}, b []byte, t byte, opts *Options, depth int) bool {
	switch x := k.(type) {
	case *map[string]interface{}:
		return verifIfaceEq(*x, b, t, opts, depth)
	case *map[int]interface{}:
		return verifIfaceEq(*x, b, t, opts, depth)
	case *map[interface{}]interface{}:
		return verifIfaceEq(*x, b, t, opts, depth)
	case *[]interface{}:
		return verifIfaceEq(*x, b, t, opts, depth)
	case *map[thrift.FieldID]interface{}:
		return verifIfaceEq(*x, b, t, opts, depth)
	}
	return verifIfaceEq(k, b, t, opts, depth)
}

// VerifC01_Interface: conversion to Go values of every well-formed value of type T and N bytes,
// for every polarity of MapStructById / CastStringAsBinary.
func VerifC01_Interface() {
	n := vrt.Param("N")
	t := byte(vrt.Param("T"))
	b := vrt.Bytes(n)
	vrt.Assume(vrt.TWellFormed(b, t, verifDepth))
	kids, _ := vrt.TChildren(b, t, verifDepth)
	if t == vrt.TSTRUCT {
		verifDistinctIDs(kids)
	}
	if t == vrt.TMAP {
		for i := range kids {
			for j := 0; j < i; j++ {
				vrt.Assume(!vrt.BytesEq(b, kids[i].KStart, kids[i].KEnd, b, kids[j].KStart, kids[j].KEnd))
			}
		}
	}
	opts := &Options{MapStructById: vrt.Param("BYID") != 0, CastStringAsBinary: vrt.Param("BIN") != 0}
	v, err := NewNode(thrift.Type(t), b).Interface(opts)
	vrt.Assert(err == nil, "C01.interface.noerror")
	if err != nil {
		return
	}
	vrt.Reach("converted")
	vrt.Assert(verifIfaceEq(v, b, t, opts, verifDepth), "C01.interface.value")
}

// VerifC01_Iterate: Foreach / Children / Len visit exactly the reference children in wire order.
func VerifC01_Iterate() {
	n := vrt.Param("N")
	t := byte(vrt.Param("T"))
	b := vrt.Bytes(n)
	kids, ok := vrt.TChildren(b, t, verifDepth)
	vrt.Assume(ok)
	node := NewNode(thrift.Type(t), b)
	var out []PathNode
	err := node.Children(&out, false, &Options{})
	vrt.Assert(err == nil, "C01.children.noerror")
	if err != nil {
		return
	}
	vrt.Assert(len(out) == len(kids), "C01.children.count")
	if len(out) != len(kids) {
		return
	}
	vrt.Reach("children")
	for i := range kids {
		c := out[i]
		vrt.Assert(byte(c.Node.Type()) == kids[i].Typ, "C01.children.type")
		vrt.Assert(vrt.SameSpan(c.Node.Raw(), b, kids[i].Start, kids[i].End), "C01.children.span")
		switch t {
		case vrt.TSTRUCT:
			vrt.Assert(c.Path.Type() == PathFieldId && int(c.Path.Id()) == kids[i].ID, "C01.children.path.id")
		case vrt.TLIST, vrt.TSET:
			vrt.Assert(c.Path.Type() == PathIndex && c.Path.Int() == i, "C01.children.path.index")
		}
	}
	if t != vrt.TSTRUCT {
		l, err := node.Len()
		vrt.Assert(err == nil && l == len(kids), "C01.len")
	}
}

func init() {
	vrt.Register("VerifC01_GetMany", VerifC01_GetMany)
	vrt.Register("VerifC01_Foreach", VerifC01_Foreach)
}

// VerifC01_GetMany: the batch lookups (GetMany -> Fields / Indexes / Gets) on a container of KIND with CNT
// children (values symbolic): every requested child that exists is returned exactly (same span as the
// reference decoder's element), requested children that do not exist are left unset - also when the
// PathNode slice is reused and still holds results of a previous call (ClearDirtyValues).
func VerifC01_GetMany() {
	kind := vrt.Param("KIND") // 0 struct, 1 list<i32>, 2 map<string,i32>, 3 map<i32,i32>
	cnt := vrt.Param("CNT")
	opts := &Options{ClearDirtyValues: true}
	var b []byte
	var t byte
	switch kind {
	case 0:
		t = vrt.TSTRUCT
		for i := 0; i < cnt; i++ {
			b = vrt.PutBE32(vrt.PutField(b, vrt.TI32, 1+2*i), int(int32(vrt.U32())))
		}
		b = append(b, 0)
	case 1:
		t = vrt.TLIST
		b = vrt.PutListHdr(b, vrt.TI32, cnt)
		for i := 0; i < cnt; i++ {
			b = vrt.PutBE32(b, int(int32(vrt.U32())))
		}
	case 2:
		t = vrt.TMAP
		b = vrt.PutMapHdr(b, vrt.TSTRING, vrt.TI32, cnt)
		for i := 0; i < cnt; i++ {
			b = vrt.PutBE32(vrt.PutString(b, []byte{'k', byte('0' + i)}), int(int32(vrt.U32())))
		}
	case 3:
		t = vrt.TMAP
		b = vrt.PutMapHdr(b, vrt.TI32, vrt.TI32, cnt)
		for i := 0; i < cnt; i++ {
			b = vrt.PutBE32(vrt.PutBE32(b, 10+i), int(int32(vrt.U32())))
		}
	}
	kids, ok := vrt.TChildren(b, t, 3)
	vrt.Assume(ok && len(kids) == cnt)
	var node Node
	switch kind {
	case 0:
		node = NewNode(thrift.STRUCT, b)
	case 1:
		node = NewNode(thrift.LIST, b)
	default:
		node = NewNode(thrift.MAP, b)
	}
	path := func(i int) Path {
		switch kind {
		case 0:
			return NewPathFieldId(thrift.FieldID(1 + 2*i))
		case 1:
			return NewPathIndex(i)
		case 2:
			return NewPathStrKey(string([]byte{'k', byte('0' + i)}))
		}
		return NewPathIntKey(10 + i)
	}
	// request: the last child, an absent one, the first child - in this order (not the stored order)
	stale := NewNodeString("stale")
	req := []PathNode{{Path: path(cnt - 1), Node: stale}, {Path: path(cnt + 3), Node: stale}, {Path: path(0), Node: stale}}
	if cnt == 1 {
		req = req[1:]
	}
	if cnt == 0 {
		req = req[1:2]
	}
	if vrt.Param("REQ") == 1 && cnt >= 2 {
		// a single request for the last child: its position exceeds the number of requested paths
		req = req[:1]
	}
	var err error
	if vrt.Param("VIA") == 0 {
		err = node.GetMany(req, opts)
	} else {
		// the per-kind batch calls are public API too
		switch kind {
		case 0:
			err = node.Fields(req, opts)
		case 1:
			err = node.Indexes(req, opts)
		default:
			err = node.Gets(req, opts)
		}
	}
	vrt.Assert(err == nil, "C01.getmany.noerror")
	if err != nil {
		return
	}
	vrt.Reach("done")
	for i := range req {
		switch {
		case cnt >= 2 && i == 0:
			verifFound(req[i].Node, b, kids[cnt-1], "C01.getmany.last")
		case (cnt >= 2 && i == 2) || (cnt == 1 && i == 1):
			verifFound(req[i].Node, b, kids[0], "C01.getmany.first")
		default:
			vrt.Assert(req[i].Node.IsEmpty() || req[i].Node.IsError(), "C01.getmany.absent-unset")
		}
	}
}

// VerifC01_Foreach: typed iteration over struct S{1: i32 a; 3: i32 c; 5: string s} whose bytes may carry an
// unknown field (id 2 or 4, symbolic position by id order) visits every known field once, in wire order,
// with the reference element.
func VerifC01_Foreach() {
	desc := thrift.VerifStruct("S", thrift.Options{},
		thrift.VField{ID: 1, Name: "a", Type: thrift.VerifBasic(thrift.I32), Req: 2},
		thrift.VField{ID: 3, Name: "c", Type: thrift.VerifBasic(thrift.I32), Req: 2},
		thrift.VField{ID: 5, Name: "s", Type: thrift.VerifBasic(thrift.STRING), Req: 2})
	var b []byte
	var wantIDs []int
	for id := 1; id <= 5; id++ {
		if !vrt.Bool() {
			continue
		}
		switch id {
		case 1, 3:
			b = vrt.PutBE32(vrt.PutField(b, vrt.TI32, id), int(int32(vrt.U32())))
			wantIDs = append(wantIDs, id)
		case 5:
			b = vrt.PutString(vrt.PutField(b, vrt.TSTRING, id), []byte{vrt.U8()})
			wantIDs = append(wantIDs, id)
		default: // unknown to the descriptor
			b = vrt.PutBE64(vrt.PutField(b, vrt.TI64, id), int64(vrt.U64()))
		}
	}
	b = append(b, 0)
	kids, ok := vrt.TChildren(b, vrt.TSTRUCT, 3)
	vrt.Assume(ok)
	v := NewValue(desc, b)
	opts := &Options{IterateStructByName: vrt.Bool()}
	var gotIDs []int
	var gotNodes []Value
	err := v.Foreach(func(p Path, n Value) bool {
		id := 0
		if p.Type() == PathFieldName {
			switch p.Str() {
			case "a":
				id = 1
			case "c":
				id = 3
			case "s":
				id = 5
			}
		} else {
			id = int(p.Id())
		}
		gotIDs = append(gotIDs, id)
		gotNodes = append(gotNodes, n)
		return true
	}, opts)
	vrt.Assert(err == nil, "C01.foreach.noerror")
	if err != nil {
		return
	}
	vrt.Reach("iterated")
	vrt.Assert(len(gotIDs) == len(wantIDs), "C01.foreach.visits-every-known-field")
	if len(gotIDs) != len(wantIDs) {
		return
	}
	for i := range wantIDs {
		vrt.Assert(gotIDs[i] == wantIDs[i], "C01.foreach.order")
		for _, k := range kids {
			if k.ID == wantIDs[i] {
				verifFound(gotNodes[i].Node, b, k, "C01.foreach.element")
			}
		}
	}
}

func init() {
	vrt.Register("VerifC01_TypedBinKey", VerifC01_TypedBinKey)
	vrt.Register("VerifC01_ForeachContainers", VerifC01_ForeachContainers)
}

// VerifC01_TypedBinKey: the typed Value.GetByPath with a raw-bytes key on maps whose key and value types
// differ (map<double,string>, map<i16,string>): the result is the value element (type and span), as the
// untyped lookup returns it.
func VerifC01_TypedBinKey() {
	kind := vrt.Param("KIND") // 0 map<double,string>, 1 map<i16,string>
	var kt byte
	var ktd *thrift.TypeDescriptor
	if kind == 0 {
		kt, ktd = vrt.TDOUBLE, thrift.VerifBasic(thrift.DOUBLE)
	} else {
		kt, ktd = vrt.TI16, thrift.VerifBasic(thrift.I16)
	}
	st := thrift.VerifStruct("S", thrift.Options{}, thrift.VField{ID: 1, Name: "m", Type: thrift.VerifMap(ktd, thrift.VerifBasic(thrift.STRING)), Req: 2})
	var keys [][]byte
	var b []byte
	b = vrt.PutMapHdr(vrt.PutField(b, vrt.TMAP, 1), kt, vrt.TSTRING, 2)
	for i := 0; i < 2; i++ {
		var k []byte
		if kind == 0 {
			k = vrt.PutBE64(nil, int64(vrt.U64()))
		} else {
			k = vrt.PutBE16(nil, int(int16(vrt.U16())))
		}
		keys = append(keys, k)
		b = append(b, k...)
		b = vrt.PutString(b, []byte{vrt.U8(), byte('0' + i)})
	}
	b = append(b, 0)
	vrt.Assume(!vrt.BytesEq(keys[0], 0, len(keys[0]), keys[1], 0, len(keys[1])))
	root, ok := vrt.TChildren(b, vrt.TSTRUCT, 3)
	vrt.Assume(ok && len(root) == 1)
	ents, ok2 := vrt.TChildren(b[root[0].Start:root[0].End], vrt.TMAP, 3)
	vrt.Assume(ok2 && len(ents) == 2)
	v := NewValue(st, b)
	for i := 0; i < 2; i++ {
		got := v.GetByPath(NewPathFieldId(1), NewPathBinKey(keys[i]))
		vrt.Reach("looked-up")
		vrt.Assert(!got.IsError(), "C01.typed-binkey.noerror")
		if got.IsError() {
			continue
		}
		vrt.Assert(got.Type() == thrift.STRING, "C01.typed-binkey.value-type")
		vrt.Assert(vrt.SameSpan(got.Raw(), b, root[0].Start+ents[i].Start, root[0].Start+ents[i].End), "C01.typed-binkey.value-span")
		vrt.Assert(got.Desc != nil && got.Desc.Type() == thrift.STRING, "C01.typed-binkey.value-descriptor")
	}
}

// VerifC01_ForeachContainers: typed Foreach over a list<string> / set<string> / map<string,i32> field visits
// every element once, in wire order, with the reference element.
func VerifC01_ForeachContainers() {
	kind := vrt.Param("KIND") // 0 list, 1 set, 2 map
	cnt := vrt.Param("CNT")
	var ft *thrift.TypeDescriptor
	var t byte
	switch kind {
	case 0:
		ft, t = thrift.VerifList(thrift.VerifBasic(thrift.STRING)), vrt.TLIST
	case 1:
		ft, t = thrift.VerifSet(thrift.VerifBasic(thrift.STRING)), vrt.TSET
	default:
		ft, t = thrift.VerifMap(thrift.VerifBasic(thrift.STRING), thrift.VerifBasic(thrift.I32)), vrt.TMAP
	}
	var b []byte
	if kind == 2 {
		b = vrt.PutMapHdr(b, vrt.TSTRING, vrt.TI32, cnt)
	} else {
		b = vrt.PutListHdr(b, vrt.TSTRING, cnt)
	}
	for i := 0; i < cnt; i++ {
		b = vrt.PutString(b, []byte{vrt.U8(), byte('a' + i)})
		if kind == 2 {
			b = vrt.PutBE32(b, int(int32(vrt.U32())))
		}
	}
	kids, ok := vrt.TChildren(b, t, 3)
	vrt.Assume(ok && len(kids) == cnt)
	v := NewValue(ft, b)
	n := 0
	err := v.Foreach(func(p Path, e Value) bool {
		if n < cnt {
			verifFound(e.Node, b, kids[n], "C01.foreach-container.element")
		}
		n++
		return true
	}, &Options{})
	vrt.Assert(err == nil, "C01.foreach-container.noerror")
	vrt.Reach("iterated")
	vrt.Assert(n == cnt, "C01.foreach-container.visits-every-element")
}

func init() { vrt.Register("VerifC01_GetTree", VerifC01_GetTree) }

// VerifC01_GetTree: Node.GetTree with a request tree three levels deep over S{3: Inner in; 5: list<Inner> ins},
// Inner{1: i32 a; 2: string b}, in which absent entries (an unset field, an index past the end) are listed
// BEFORE present siblings that have children of their own: every requested leaf that exists is returned with
// the bytes the reference decoder finds there, every absent one is left empty.
func VerifC01_GetTree() {
	order := vrt.Param("ORDER") // 0: absent entries first, 1: absent entries last
	inner := func(hasA bool, tag byte) ([]byte, []byte, []byte) {
		var b, av []byte
		if hasA {
			av = vrt.PutBE32(nil, int(int32(vrt.U32())))
			b = append(vrt.PutField(b, vrt.TI32, 1), av...)
		}
		sv := vrt.PutString(nil, []byte{tag, vrt.U8()})
		b = append(vrt.PutField(b, vrt.TSTRING, 2), sv...)
		return append(b, 0), av, sv
	}
	hasA0, hasA1, hasAi := vrt.Bool(), vrt.Bool(), vrt.Bool()
	inB, inA, inS := inner(hasAi, 'i')
	e0, e0A, e0S := inner(hasA0, '0')
	e1, _, e1S := inner(hasA1, '1')
	var b []byte
	b = append(vrt.PutField(b, vrt.TSTRUCT, 3), inB...)
	b = vrt.PutListHdr(vrt.PutField(b, vrt.TLIST, 5), vrt.TSTRUCT, 2)
	b = append(append(b, e0...), e1...)
	b = append(b, 0)

	leaf := func(p Path) PathNode { return PathNode{Path: p} }
	mix := func(absent []PathNode, present []PathNode) []PathNode {
		if order == 0 {
			return append(absent, present...)
		}
		return append(present, absent...)
	}
	el0 := PathNode{Path: NewPathIndex(0), Next: mix([]PathNode{leaf(NewPathFieldId(9))}, []PathNode{leaf(NewPathFieldId(1)), leaf(NewPathFieldId(2))})}
	el1 := PathNode{Path: NewPathIndex(1), Next: []PathNode{leaf(NewPathFieldId(2))}}
	ins := PathNode{Path: NewPathFieldId(5), Next: mix([]PathNode{leaf(NewPathIndex(2))}, []PathNode{el0, el1})}
	in := PathNode{Path: NewPathFieldId(3), Next: mix([]PathNode{leaf(NewPathFieldId(9))}, []PathNode{leaf(NewPathFieldId(1)), leaf(NewPathFieldId(2))})}
	tree := PathNode{Next: mix([]PathNode{leaf(NewPathFieldId(6))}, []PathNode{ins, in})}
	err := NewNode(thrift.STRUCT, b).GetTree(&tree, &Options{})
	vrt.Assert(err == nil, "C01.gettree.noerror")
	if err != nil {
		return
	}
	vrt.Reach("fetched")
	find := func(ns []PathNode, p Path) *PathNode {
		for i := range ns {
			if ns[i].Path.t == p.t && ns[i].Path.l == p.l && ns[i].Path.v == p.v {
				return &ns[i]
			}
		}
		return nil
	}
	is := func(n *PathNode, want []byte, present bool, label string) {
		vrt.Assert(n != nil, label+".requested-node-kept")
		if n == nil {
			return
		}
		if !present {
			vrt.Assert(n.Node.IsEmpty() || n.Node.IsErrNotFound(), label+".absent-empty")
			return
		}
		vrt.Assert(!n.Node.IsEmpty() && !n.Node.IsError(), label+".present-found")
		if !n.Node.IsEmpty() && !n.Node.IsError() {
			r := n.Node.Raw()
			vrt.Assert(vrt.BytesEq(r, 0, len(r), want, 0, len(want)), label+".value")
		}
	}
	tin := find(tree.Next, NewPathFieldId(3))
	tins := find(tree.Next, NewPathFieldId(5))
	is(find(tree.Next, NewPathFieldId(6)), nil, false, "C01.gettree.level1")
	if tin != nil {
		is(find(tin.Next, NewPathFieldId(1)), inA, hasAi, "C01.gettree.in.a")
		is(find(tin.Next, NewPathFieldId(2)), inS, true, "C01.gettree.in.b")
		is(find(tin.Next, NewPathFieldId(9)), nil, false, "C01.gettree.in.undeclared")
	}
	vrt.Assert(tin != nil && tins != nil, "C01.gettree.level1.kept")
	if tins != nil {
		is(find(tins.Next, NewPathIndex(2)), nil, false, "C01.gettree.ins.pastend")
		t0, t1 := find(tins.Next, NewPathIndex(0)), find(tins.Next, NewPathIndex(1))
		vrt.Assert(t0 != nil && t1 != nil, "C01.gettree.ins.elements-kept")
		if t0 != nil {
			is(find(t0.Next, NewPathFieldId(1)), e0A, hasA0, "C01.gettree.ins0.a")
			is(find(t0.Next, NewPathFieldId(2)), e0S, true, "C01.gettree.ins0.b")
		}
		if t1 != nil {
			is(find(t1.Next, NewPathFieldId(2)), e1S, true, "C01.gettree.ins1.b")
		}
	}
}
