package sym

import (
	"fmt"
	"go/types"
	"strings"

	"golang.org/x/tools/go/ssa"
)

// Intrinsic implements a function natively in the engine. It must call ret
// exactly once with the result (nil for no result, Tuple for several) unless it
// pushes a frame itself.
type Intrinsic func(st *State, fn *ssa.Function, args []Value, ret func(Value))

const vrtPath = "github.com/cloudwego/dynamicgo/internal/zzverif"

func (e *Engine) lookupIntrinsic(fn *ssa.Function) Intrinsic {
	if in, ok := e.intrCache[fn]; ok {
		return in
	}
	name := fn.String()
	in := e.intr[name]
	if in == nil && fn.Origin() != nil {
		in = e.intr[fn.Origin().String()]
	}
	if in == nil && len(fn.Blocks) == 0 {
		// assembly / linkname fallbacks by short name
		if fn.Pkg != nil {
			in = e.intr["*."+fn.Name()]
			_ = in
			in = nil
		}
	}
	e.intrCache[fn] = in
	return in
}

// Register adds an intrinsic (also used by the check driver for stubs).
func (e *Engine) Register(name string, in Intrinsic) {
	e.intr[name] = in
	e.intrCache = map[*ssa.Function]Intrinsic{}
}

// Unregister removes every intrinsic whose name contains sub (the real function body is executed instead).
func (e *Engine) Unregister(sub string) {
	for k := range e.intr {
		if strings.Contains(k, sub) {
			delete(e.intr, k)
		}
	}
	e.intrCache = map[*ssa.Function]Intrinsic{}
}

func registerIntrinsics(e *Engine) {
	e.intrCache = map[*ssa.Function]Intrinsic{}
	c := e.ctx
	nondetInt := func(w uint8, kind string) Intrinsic {
		return func(st *State, fn *ssa.Function, args []Value, ret func(Value)) {
			v := st.newInput(kind, w)
			ret(v)
		}
	}
	for _, d := range []struct {
		n string
		w uint8
	}{{"U8", 8}, {"U16", 16}, {"U32", 32}, {"U64", 64}, {"I8", 8}, {"I16", 16}, {"I32", 32}, {"I64", 64}, {"Int", 64}} {
		e.intr[vrtPath+"."+d.n] = nondetInt(d.w, strings.ToLower(d.n))
	}
	e.intr[vrtPath+".Bool"] = func(st *State, fn *ssa.Function, args []Value, ret func(Value)) {
		v := st.newInput("bool", 8)
		ret(c.Ne(c.And(v, c.Const(1, 8)), c.Const(0, 8)))
	}
	e.intr[vrtPath+".Bytes"] = func(st *State, fn *ssa.Function, args []Value, ret func(Value)) {
		n := st.concInt(st.asT(args[0]), "Bytes(n)")
		id := st.allocN(n, nil, fmt.Sprintf("input[%d]", n))
		o := st.newObj(id)
		o.Input = true
		o.Cells = make(map[int64]Cell, n)
		rec := NondetRec{Kind: "bytes"}
		for i := int64(0); i < n; i++ {
			v := st.inputVar(fmt.Sprintf("b%d_%d", len(st.nondet), i), 8)
			rec.Vars = append(rec.Vars, v)
			o.Cells[i] = Cell{1, v}
		}
		st.nondet = append(st.nondet, rec)
		ret(Slice{Ptr{id, e.k64(0)}, e.k64(n), e.k64(n)})
	}
	e.intr[vrtPath+".Assume"] = func(st *State, fn *ssa.Function, args []Value, ret func(Value)) {
		st.assume(args[0].(*T))
		ret(nil)
	}
	e.intr[vrtPath+".Assert"] = func(st *State, fn *ssa.Function, args []Value, ret func(Value)) {
		cond := st.simp(args[0].(*T))
		label := st.strText(args[1].(Str))
		st.e.ObligTotal++
		if cond.IsTrue() {
			st.asserts++
			ret(nil)
			return
		}
		ok, m := st.feasible(c.BNot(cond))
		if ok {
			panic(endPath{Outcome{Kind: OutAssert, Label: label, Site: st.site(), Stack: st.stack(), Model: m}})
		}
		st.asserts++
		st.learn(cond, c.True)
		st.memo = map[*T]*T{}
		ret(nil)
	}
	e.intr[vrtPath+".Reach"] = func(st *State, fn *ssa.Function, args []Value, ret func(Value)) {
		st.reached[st.strText(args[0].(Str))] = true
		ret(nil)
	}
	e.intr[vrtPath+".Param"] = func(st *State, fn *ssa.Function, args []Value, ret func(Value)) {
		name := st.strText(args[0].(Str))
		v, ok := e.Params[name]
		if !ok {
			st.unsupported("harness parameter %q not set", name)
		}
		ret(e.k64(v))
	}
	e.intr[vrtPath+".Conc"] = func(st *State, fn *ssa.Function, args []Value, ret func(Value)) {
		t := st.asT(args[0])
		ret(c.Const(st.concretize(t, "vrt.Conc"), t.W))
	}
	e.intr[vrtPath+".Symbolic"] = func(st *State, fn *ssa.Function, args []Value, ret func(Value)) {
		ret(c.Bool(!e.Concrete))
	}
	// vrt.Redirect(name, fn): from now on calls of the function called name run the harness function fn
	// instead (same signature).  Used to replace an external library's accessor methods by a harness model.
	e.intr[vrtPath+".Redirect"] = func(st *State, fn *ssa.Function, args []Value, ret func(Value)) {
		name, ok := st.concreteBytesN(args[0], 512)
		iv, ok2 := args[1].(Iface)
		if !ok || !ok2 {
			st.unsupported("vrt.Redirect: name must be a constant (%v) and fn a function value (%T)", ok, args[1])
		}
		target, ok3 := iv.V.(Func)
		if !ok3 {
			st.unsupported("vrt.Redirect: fn is not a function value (%T)", iv.V)
		}
		if _, dup := e.intr[name]; !dup {
			e.intr[name] = func(st2 *State, f2 *ssa.Function, a2 []Value, r2 func(Value)) {
				st2.pushFrameClosure(target, a2, func(s *State, v Value) { r2(v) })
			}
			e.intrCache = map[*ssa.Function]Intrinsic{}
		}
		ret(nil)
	}
	e.intr[vrtPath+".Dump"] = func(st *State, fn *ssa.Function, args []Value, ret func(Value)) {
		ret(nil)
	}
	e.intr[vrtPath+".Note"] = func(st *State, fn *ssa.Function, args []Value, ret func(Value)) {
		ret(nil)
	}
	e.intr[vrtPath+".SameSpan"] = func(st *State, fn *ssa.Function, args []Value, ret func(Value)) {
		// SameSpan(got []byte, buf []byte, start, end int) bool: got is exactly buf[start:end] (same memory)
		got, buf := args[0].(Slice), args[1].(Slice)
		s, en := st.asT(args[2]), st.asT(args[3])
		if got.P.Obj != buf.P.Obj {
			// an empty result may legitimately be nil
			ret(c.BAnd(c.Eq(got.Len, e.k64(0)), c.Eq(s, en)))
			return
		}
		ret(c.BAnd(c.Eq(got.P.Off, c.Add(buf.P.Off, s)), c.Eq(got.Len, c.Sub(en, s))))
	}
	e.intr[vrtPath+".InBuf"] = func(st *State, fn *ssa.Function, args []Value, ret func(Value)) {
		// InBuf(got []byte, buf []byte) bool: got lies within buf's memory (or is empty)
		got, buf := args[0].(Slice), args[1].(Slice)
		if got.P.Obj != buf.P.Obj {
			ret(c.Eq(got.Len, e.k64(0)))
			return
		}
		lo := c.Ule(buf.P.Off, got.P.Off)
		hi := c.Ule(c.Add(got.P.Off, got.Len), c.Add(buf.P.Off, buf.Len))
		ret(c.BAnd(lo, c.BAnd(hi, c.Ule(got.Len, buf.Len))))
	}
	e.intr[vrtPath+".StrInBuf"] = func(st *State, fn *ssa.Function, args []Value, ret func(Value)) {
		got, buf := args[0].(Str), args[1].(Slice)
		if got.P.Obj != buf.P.Obj {
			ret(c.Eq(got.Len, e.k64(0)))
			return
		}
		lo := c.Ule(buf.P.Off, got.P.Off)
		hi := c.Ule(c.Add(got.P.Off, got.Len), c.Add(buf.P.Off, buf.Len))
		ret(c.BAnd(lo, c.BAnd(hi, c.Ule(got.Len, buf.Len))))
	}
	e.intr[vrtPath+".Freeze"] = func(st *State, fn *ssa.Function, args []Value, ret func(Value)) {
		// Freeze(b []byte): mark the backing object read-only (any store is reported)
		b := args[0].(Slice)
		if b.P.Obj != 0 {
			st.wobj(b.P.Obj).RO = true
		}
		ret(nil)
	}
	e.intr[vrtPath+".Unfreeze"] = func(st *State, fn *ssa.Function, args []Value, ret func(Value)) {
		b := args[0].(Slice)
		if b.P.Obj != 0 {
			o := st.obj(b.P.Obj)
			if o.RO {
				n := *o
				n.RO = false
				n.owner = -1
				st.setObj(b.P.Obj, &n)
			}
		}
		ret(nil)
	}

	// ---- runtime / sync / atomic ----
	nop := func(st *State, fn *ssa.Function, args []Value, ret func(Value)) { ret(nil) }
	for _, n := range []string{"runtime.KeepAlive", "runtime.GC", "runtime.SetFinalizer", "runtime.Gosched",
		"(*sync.Mutex).Lock", "(*sync.Mutex).Unlock", "(*sync.RWMutex).Lock", "(*sync.RWMutex).Unlock",
		"(*sync.RWMutex).RLock", "(*sync.RWMutex).RUnlock", "(*sync.WaitGroup).Add", "(*sync.WaitGroup).Done", "(*sync.WaitGroup).Wait"} {
		e.intr[n] = nop
	}
	e.intr["(*sync.Mutex).TryLock"] = func(st *State, fn *ssa.Function, args []Value, ret func(Value)) { ret(c.True) }
	e.intr["(*sync.Once).Do"] = func(st *State, fn *ssa.Function, args []Value, ret func(Value)) {
		p := st.asPtr(args[0])
		done := st.asT(st.load(p, types.Typ[types.Uint32]))
		if st.decide(c.Ne(done, c.Const(0, 32))) {
			ret(nil)
			return
		}
		st.store(p, types.Typ[types.Uint32], c.Const(1, 32))
		f := args[1].(Func)
		if f.Fn == nil {
			st.goPanic("nil func in Once.Do")
		}
		st.callFunc(f, nil, func(s *State, v Value) { ret(nil) })
	}
	e.intr["(*sync.Pool).Get"] = func(st *State, fn *ssa.Function, args []Value, ret func(Value)) {
		p := st.asPtr(args[0])
		key := p.Obj
		if vs := st.pools[key]; len(vs) > 0 {
			v := vs[len(vs)-1]
			st.ownPools()
			st.pools[key] = vs[: len(vs)-1 : len(vs)-1]
			ret(v)
			return
		}
		// call New
		pt := under(fn.Signature.Recv().Type().(*types.Pointer).Elem()).(*types.Struct)
		for i := 0; i < pt.NumFields(); i++ {
			if pt.Field(i).Name() == "New" {
				off := e.fieldOffsets(pt)[i]
				nf := st.load(Ptr{p.Obj, c.Add(p.Off, e.k64(off))}, pt.Field(i).Type()).(Func)
				if nf.Fn == nil {
					ret(Iface{})
					return
				}
				st.callFunc(nf, nil, func(s *State, v Value) { ret(v) })
				return
			}
		}
		st.unsupported("sync.Pool without New field")
	}
	e.intr["(*sync.Pool).Put"] = func(st *State, fn *ssa.Function, args []Value, ret func(Value)) {
		p := st.asPtr(args[0])
		st.ownPools()
		st.pools[p.Obj] = append(st.pools[p.Obj][:len(st.pools[p.Obj]):len(st.pools[p.Obj])], args[1])
		if iv, ok := args[1].(Iface); ok {
			if pp, ok := iv.V.(Ptr); ok && pp.Obj != 0 {
				st.wobj(pp.Obj).Pooled = true
			}
		}
		ret(nil)
	}
	atomicLoad := func(t types.Type) Intrinsic {
		return func(st *State, fn *ssa.Function, args []Value, ret func(Value)) {
			ret(st.load(st.asPtr(args[0]), t))
		}
	}
	atomicStore := func(t types.Type) Intrinsic {
		return func(st *State, fn *ssa.Function, args []Value, ret func(Value)) {
			st.store(st.asPtr(args[0]), t, args[1])
			ret(nil)
		}
	}
	atomicAdd := func(t types.Type) Intrinsic {
		return func(st *State, fn *ssa.Function, args []Value, ret func(Value)) {
			p := st.asPtr(args[0])
			v := c.Add(st.asT(st.load(p, t)), st.asT(args[1]))
			st.store(p, t, v)
			ret(v)
		}
	}
	atomicCAS := func(t types.Type) Intrinsic {
		return func(st *State, fn *ssa.Function, args []Value, ret func(Value)) {
			p := st.asPtr(args[0])
			old := st.load(p, t)
			if st.decide(st.valueEq(old, args[1], t)) {
				st.store(p, t, args[2])
				ret(c.True)
				return
			}
			ret(c.False)
		}
	}
	for _, d := range []struct {
		n string
		t types.Type
	}{{"Int32", types.Typ[types.Int32]}, {"Int64", types.Typ[types.Int64]}, {"Uint32", types.Typ[types.Uint32]}, {"Uint64", types.Typ[types.Uint64]}, {"Uintptr", types.Typ[types.Uintptr]}, {"Pointer", types.Typ[types.UnsafePointer]}} {
		e.intr["sync/atomic.Load"+d.n] = atomicLoad(d.t)
		e.intr["sync/atomic.Store"+d.n] = atomicStore(d.t)
		e.intr["sync/atomic.CompareAndSwap"+d.n] = atomicCAS(d.t)
		if d.n != "Pointer" {
			e.intr["sync/atomic.Add"+d.n] = atomicAdd(d.t)
		}
	}

	// ---- memory primitives ----
	memmove := func(st *State, fn *ssa.Function, args []Value, ret func(Value)) {
		dst, src := st.asPtr(args[0]), st.asPtr(args[1])
		n := st.concInt(st.asT(args[2]), "memmove length")
		if n > 0 {
			st.copyMem(dst, src, n)
		}
		ret(nil)
	}
	e.intr["runtime.memmove"] = memmove
	e.intr["github.com/cloudwego/dynamicgo/thrift.memmove"] = memmove
	e.intr["github.com/cloudwego/dynamicgo/internal/rt.growslice"] = func(st *State, fn *ssa.Function, args []Value, ret func(Value)) {
		// growslice(et *GoType, old GoSlice, cap int) GoSlice — element size is unknown here; callers use bytes
		st.unsupported("rt.growslice (use rt.Growslice intrinsic)")
	}
	e.intr["internal/bytealg.IndexByte"] = func(st *State, fn *ssa.Function, args []Value, ret func(Value)) {
		s := args[0].(Slice)
		ret(st.indexByte(s.P, s.Len, st.asT(args[1])))
	}
	e.intr["internal/bytealg.IndexByteString"] = func(st *State, fn *ssa.Function, args []Value, ret func(Value)) {
		s := args[0].(Str)
		ret(st.indexByte(s.P, s.Len, st.asT(args[1])))
	}
	e.intr["internal/bytealg.Equal"] = func(st *State, fn *ssa.Function, args []Value, ret func(Value)) {
		a, b := args[0].(Slice), args[1].(Slice)
		ret(st.strEq(Str{a.P, a.Len}, Str{b.P, b.Len}))
	}
	e.intr["internal/bytealg.Compare"] = func(st *State, fn *ssa.Function, args []Value, ret func(Value)) {
		a, b := args[0].(Slice), args[1].(Slice)
		sa, sb := Str{a.P, a.Len}, Str{b.P, b.Len}
		lt := st.strLess(sa, sb)
		gt := st.strLess(sb, sa)
		ret(c.Ite(lt, c.Const(^uint64(0), 64), c.Ite(gt, c.Const(1, 64), c.Const(0, 64))))
	}
	e.intr["internal/bytealg.MakeNoZero"] = func(st *State, fn *ssa.Function, args []Value, ret func(Value)) {
		n := st.asT(args[0])
		st.checkAlloc(n, 1, "MakeNoZero")
		id := st.alloc(n, nil, "bytealg.MakeNoZero")
		ret(Slice{Ptr{id, e.k64(0)}, n, n})
	}
	e.intr["internal/bytealg.CountString"] = func(st *State, fn *ssa.Function, args []Value, ret func(Value)) {
		s := args[0].(Str)
		bs := st.strBytes(s, "count length")
		r := c.Const(0, 64)
		for _, b := range bs {
			r = c.Add(r, c.BoolToBV(c.Eq(b, st.asT(args[1])), 64))
		}
		ret(r)
	}

	// context.WithValue(parent, key, val): the real function inspects the key through reflectlite (comparable
	// check); the result is a *valueCtx{parent, key, val}, whose Value method is executed as real code
	e.intr["context.WithValue"] = func(st *State, fn *ssa.Function, args []Value, ret func(Value)) {
		cp := e.prog.ImportedPackage("context")
		if cp == nil || cp.Type("valueCtx") == nil {
			st.unsupported("context.valueCtx not available")
		}
		vt := cp.Type("valueCtx").Type()
		id := st.allocN(e.sizeof(vt), vt, "context.valueCtx")
		p := Ptr{id, e.k64(0)}
		stt := under(vt).(*types.Struct)
		offs := e.fieldOffsets(stt)
		// fields: Context (embedded), key, val - the argument order
		for i := 0; i < stt.NumFields() && i < len(args); i++ {
			st.store(Ptr{id, e.k64(offs[i])}, stt.Field(i).Type(), args[i])
		}
		ret(Iface{Dyn: types.NewPointer(vt), V: p})
	}

	// ---- math: the assembly kernels are replaced by the package's own portable Go versions ----
	for arch, pure := range map[string]string{"archTrunc": "trunc", "archFloor": "floor", "archCeil": "ceil", "archModf": "modf"} {
		pure := pure
		e.intr["math."+arch] = func(st *State, fn *ssa.Function, args []Value, ret func(Value)) {
			mp := e.prog.ImportedPackage("math")
			if mp == nil || mp.Func(pure) == nil {
				st.unsupported("math.%s not available", pure)
			}
			st.pushFrameClosure(Func{Fn: mp.Func(pure)}, args, func(s *State, v Value) { ret(v) })
		}
	}

	// ---- fmt / errors: opaque text ----
	opaqueStr := func(st *State, fn *ssa.Function, args []Value, ret func(Value)) { ret(st.strConst("<fmt>")) }
	for _, n := range []string{"fmt.Sprintf", "fmt.Sprint", "fmt.Sprintln"} {
		e.intr[n] = opaqueStr
	}
	e.intr["fmt.Errorf"] = func(st *State, fn *ssa.Function, args []Value, ret func(Value)) {
		ep := e.prog.ImportedPackage("errors")
		if ep == nil {
			st.unsupported("errors package not loaded")
		}
		st.callFunc(Func{Fn: ep.Func("New")}, []Value{st.strConst("<fmt.Errorf>")}, func(s *State, v Value) { ret(v) })
	}
	for _, n := range []string{"fmt.Println", "fmt.Printf", "fmt.Print", "fmt.Fprintf", "fmt.Fprintln", "fmt.Fprint"} {
		e.intr[n] = func(st *State, fn *ssa.Function, args []Value, ret func(Value)) {
			ret(Tuple{e.k64(0), Iface{}})
		}
	}
	e.intr["(*strings.Builder).copyCheck"] = nop

	// ---- reflect (minimal) ----
	e.intr["reflect.TypeOf"] = func(st *State, fn *ssa.Function, args []Value, ret func(Value)) {
		iv := args[0].(Iface)
		if iv.Dyn == nil {
			ret(Iface{})
			return
		}
		rp := e.prog.ImportedPackage("reflect")
		rt := rp.Type("rtype")
		ret(Iface{Dyn: types.NewPointer(rt.Type()), V: TypeTag{iv.Dyn}})
	}
	e.intr["(*reflect.rtype).Kind"] = func(st *State, fn *ssa.Function, args []Value, ret func(Value)) {
		tt, ok := args[0].(TypeTag)
		if !ok {
			st.unsupported("reflect Kind on %T", args[0])
		}
		ret(c.Const(uint64(reflectKind(tt.T)), 64))
	}

	// ---- math (assembly-backed) ----
	registerMoreIntrinsics(e)
}

func reflectKind(t types.Type) int {
	switch u := under(t).(type) {
	case *types.Basic:
		switch u.Kind() {
		case types.Bool:
			return 1
		case types.Int:
			return 2
		case types.Int8:
			return 3
		case types.Int16:
			return 4
		case types.Int32:
			return 5
		case types.Int64:
			return 6
		case types.Uint:
			return 7
		case types.Uint8:
			return 8
		case types.Uint16:
			return 9
		case types.Uint32:
			return 10
		case types.Uint64:
			return 11
		case types.Uintptr:
			return 12
		case types.Float32:
			return 13
		case types.Float64:
			return 14
		case types.Complex64:
			return 15
		case types.Complex128:
			return 16
		case types.String:
			return 24
		case types.UnsafePointer:
			return 26
		}
	case *types.Array:
		return 17
	case *types.Chan:
		return 18
	case *types.Signature:
		return 19
	case *types.Interface:
		return 20
	case *types.Map:
		return 21
	case *types.Pointer:
		return 22
	case *types.Slice:
		return 23
	case *types.Struct:
		return 25
	}
	return 0
}

func (st *State) ownPools() {
	if st.poolOwn {
		return
	}
	m := make(map[int][]Value, len(st.pools)+1)
	for k, v := range st.pools {
		m[k] = v
	}
	st.pools = m
	st.poolOwn = true
}

// inputVar creates a fresh symbolic input variable (or pops the replay vector in concrete mode).
func (st *State) inputVar(name string, w uint8) *T {
	e := st.e
	if e.Concrete {
		var v uint64
		if e.replayPos < len(e.replayVec) {
			v = e.replayVec[e.replayPos]
		}
		e.replayPos++
		return e.ctx.Const(v, w)
	}
	return e.ctx.Var(name, w)
}

func (st *State) newInput(kind string, w uint8) *T {
	v := st.inputVar(fmt.Sprintf("%s_%d", kind, len(st.nondet)), w)
	st.nondet = append(st.nondet, NondetRec{Kind: kind, Vars: []*T{v}})
	return v
}

// indexByte returns the index of the first occurrence of ch in [p, p+n) or -1.
func (st *State) indexByte(p Ptr, n *T, ch *T) Value {
	c := st.e.ctx
	ln := st.concInt(n, "IndexByte length")
	if ln == 0 {
		return c.Const(^uint64(0), 64)
	}
	bs := st.readBytes(p, ln)
	r := c.Const(^uint64(0), 64)
	for i := ln - 1; i >= 0; i-- {
		r = c.Ite(c.Eq(bs[i], ch), c.Const(uint64(i), 64), r)
	}
	return r
}
