package sym

import (
	"fmt"
	"go/constant"
	"go/token"
	"go/types"

	"golang.org/x/tools/go/ssa"
)

func (st *State) pushFrame(fn *ssa.Function, args []Value, onRet func(*State, Value)) *Frame {
	e := st.e
	if len(fn.Blocks) == 0 {
		st.unsupported("call of function without body: %s", fn.String())
	}
	if len(st.frames) > 400 {
		st.end(OutUnwind, "call depth > 400")
	}
	fi := e.info(fn)
	f := &Frame{fn: fn, info: fi, regs: make([]Value, fi.n), block: fn.Blocks[0], onReturn: onRet}
	if len(args) != len(fn.Params) {
		st.unsupported("arity mismatch calling %s: %d args for %d params", fn.String(), len(args), len(fn.Params))
	}
	copy(f.regs, args)
	st.frames = append(st.frames, f)
	e.FuncsHit[fn]++
	return f
}

// get fetches an operand.
func (st *State) get(f *Frame, v ssa.Value) Value {
	switch x := v.(type) {
	case *ssa.Const:
		return st.constVal(x)
	case *ssa.Global:
		return Ptr{st.e.globalObj(st, x), st.e.k64(0)}
	case *ssa.Function:
		return Func{Fn: x}
	case *ssa.Builtin:
		return Func{Bi: x}
	}
	i, ok := f.info.idx[v]
	if !ok {
		st.unsupported("unknown operand %s", v.Name())
	}
	r := f.regs[i]
	if r == nil {
		st.unsupported("use of unset register %s in %s", v.Name(), f.fn.String())
	}
	return r
}

func (st *State) set(f *Frame, v ssa.Value, val Value) {
	f.regs[f.info.idx[v]] = val
}

func (st *State) constVal(k *ssa.Const) Value {
	e := st.e
	c := e.ctx
	t := k.Type()
	if k.Value == nil {
		return e.zero(t)
	}
	if w, _, ok := intWidth(t); ok {
		if k.Value.Kind() == constant.Float {
			f, _ := constant.Float64Val(k.Value)
			return c.Const(uint64(int64(f)), w)
		}
		if i, ok := constant.Int64Val(constant.ToInt(k.Value)); ok {
			return c.Const(uint64(i), w)
		}
		u, _ := constant.Uint64Val(constant.ToInt(k.Value))
		return c.Const(u, w)
	}
	if w, ok := floatWidth(t); ok {
		f, _ := constant.Float64Val(constant.ToFloat(k.Value))
		return c.Const(fbits(f, w), w)
	}
	if isBool(t) {
		return c.Bool(constant.BoolVal(k.Value))
	}
	if isString(t) {
		return st.strConst(constant.StringVal(k.Value))
	}
	if b, ok := under(t).(*types.Basic); ok && b.Info()&types.IsComplex != 0 {
		re, _ := constant.Float64Val(constant.Real(k.Value))
		im, _ := constant.Float64Val(constant.Imag(k.Value))
		return Cplx{c.Const(fbits(re, 64), 64), c.Const(fbits(im, 64), 64)}
	}
	st.unsupported("constant of type %v", t)
	return nil
}

func (st *State) strConst(s string) Value {
	e := st.e
	if len(s) == 0 {
		return Str{e.nilPtr(), e.k64(0)}
	}
	if id, ok := st.strObj[s]; ok {
		return Str{Ptr{id, e.k64(0)}, e.k64(int64(len(s)))}
	}
	id := st.allocN(int64(len(s)), nil, fmt.Sprintf("string %q", trunc(s, 24)))
	o := st.newObj(id)
	o.Cells = make(map[int64]Cell, len(s))
	for i := 0; i < len(s); i++ {
		o.Cells[int64(i)] = Cell{1, e.ctx.Const(uint64(s[i]), 8)}
	}
	o.RO = true
	if !st.strOwn {
		m := make(map[string]int, len(st.strObj)+1)
		for k, v := range st.strObj {
			m[k] = v
		}
		st.strObj = m
		st.strOwn = true
	}
	st.strObj[s] = id
	return Str{Ptr{id, e.k64(0)}, e.k64(int64(len(s)))}
}

func trunc(s string, n int) string {
	if len(s) > n {
		return s[:n] + "…"
	}
	return s
}

// goPanic raises a Go run-time panic with the given text.
func (st *State) goPanic(text string) {
	st.startPanic(&panicInfo{text: text, site: st.site()})
}

type unwindSignal struct{}

func (st *State) startPanic(p *panicInfo) {
	st.panic = p
	st.top().unwinding = true
	panic(unwindSignal{})
}

// unwindStep advances panic unwinding / recovery for frame f.
func (st *State) unwindStep(f *Frame) *Outcome {
	if n := len(f.defers); n > 0 {
		d := f.defers[n-1]
		f.defers = f.defers[:n-1]
		st.callDeferred(d)
		return nil
	}
	if st.panic == nil {
		// recovered: resume at the Recover block or return zero results
		f.unwinding = false
		if f.fn.Recover != nil {
			f.prev = f.block
			f.block = f.fn.Recover
			f.pc = 0
			return nil
		}
		var rv Value
		res := f.fn.Signature.Results()
		switch res.Len() {
		case 0:
		case 1:
			rv = st.e.zero(res.At(0).Type())
		default:
			rv = st.e.zero(res)
		}
		st.doReturn(f, rv)
		return nil
	}
	// propagate to caller
	st.frames = st.frames[:len(st.frames)-1]
	if len(st.frames) == 0 {
		o := Outcome{Kind: OutPanic, Label: st.panicText(), Site: st.panic.site}
		return &o
	}
	st.top().unwinding = true
	return nil
}

func (st *State) panicText() string {
	p := st.panic
	if p.text != "" {
		return p.text
	}
	return st.describe(p.val)
}

func (st *State) describe(v Value) string {
	switch x := v.(type) {
	case Iface:
		if x.Dyn == nil {
			return "nil"
		}
		if s, ok := x.V.(Str); ok {
			return "string: " + st.strText(s)
		}
		if x.V != nil {
			// error values: try Error() via known shapes
			if p, ok := x.V.(Ptr); ok && p.Obj != 0 {
				return fmt.Sprintf("(%v) %s", x.Dyn, st.obj(p.Obj).Name)
			}
		}
		return fmt.Sprintf("(%v)", x.Dyn)
	case Str:
		return st.strText(x)
	}
	return fmt.Sprintf("%T", v)
}

// strText renders a string value when concrete (best effort, for messages).
func (st *State) strText(s Str) string {
	l := st.simp(s.Len)
	if !l.IsConst() || l.K > 200 || s.P.Obj == 0 {
		if l.IsConst() && l.K == 0 {
			return ""
		}
		return "<symbolic string>"
	}
	off := st.simp(s.P.Off)
	if !off.IsConst() {
		return "<symbolic string>"
	}
	o := st.obj(s.P.Obj)
	b := make([]byte, l.K)
	for i := range b {
		cell, ok := o.Cells[int64(off.K)+int64(i)]
		if !ok {
			b[i] = 0
			continue
		}
		t, ok := cell.V.(*T)
		if !ok {
			return "<string>"
		}
		t = st.simp(t)
		if !t.IsConst() {
			b[i] = '?'
		} else {
			b[i] = byte(t.K)
		}
	}
	return string(b)
}

func (st *State) callDeferred(d deferred) { st.callDeferredNormal(d) }

// doReturn pops frame f delivering rv to the caller.
func (st *State) doReturn(f *Frame, rv Value) {
	st.frames = st.frames[:len(st.frames)-1]
	if f.onReturn != nil {
		f.onReturn(st, rv)
		return
	}
	if f.isDefer || len(st.frames) == 0 {
		return
	}
	cf := st.top()
	in := cf.block.Instrs[cf.pc]
	if call, ok := in.(*ssa.Call); ok {
		if rv == nil {
			rv = Tuple{}
		}
		st.set(cf, call, rv)
	}
	cf.pc++
}

func (st *State) jump(f *Frame, to *ssa.BasicBlock) {
	// evaluate phis simultaneously
	var phiVals []Value
	var phis []*ssa.Phi
	predIdx := -1
	for i, p := range to.Preds {
		if p == f.block {
			predIdx = i
			break
		}
	}
	for _, in := range to.Instrs {
		phi, ok := in.(*ssa.Phi)
		if !ok {
			break
		}
		if predIdx < 0 {
			st.unsupported("phi without predecessor")
		}
		phis = append(phis, phi)
		phiVals = append(phiVals, st.get(f, phi.Edges[predIdx]))
	}
	for i, phi := range phis {
		st.set(f, phi, phiVals[i])
	}
	f.prev = f.block
	f.block = to
	f.pc = len(phis)
}

// exec executes one instruction (re-executed after a fork).
func (st *State) exec(f *Frame, in ssa.Instruction) {
	defer func() {
		if r := recover(); r != nil {
			if _, ok := r.(unwindSignal); ok {
				return
			}
			panic(r)
		}
	}()
	e := st.e
	c := e.ctx
	switch x := in.(type) {
	case *ssa.DebugRef:
		f.pc++
	case *ssa.Alloc:
		et := x.Type().(*types.Pointer).Elem()
		name := x.Comment
		if name == "" {
			name = "alloc"
		}
		id := st.allocN(e.sizeof(et), et, name+" in "+f.fn.Name())
		st.set(f, x, Ptr{id, e.k64(0)})
		f.pc++
	case *ssa.BinOp:
		st.set(f, x, st.binop(x.Op, st.get(f, x.X), st.get(f, x.Y), x.X.Type(), x.Y.Type()))
		f.pc++
	case *ssa.UnOp:
		st.set(f, x, st.unop(x, st.get(f, x.X)))
		f.pc++
	case *ssa.Call:
		st.doCall(f, x, &x.Call)
	case *ssa.ChangeInterface:
		st.set(f, x, st.get(f, x.X))
		f.pc++
	case *ssa.ChangeType:
		st.set(f, x, st.get(f, x.X))
		f.pc++
	case *ssa.Convert:
		st.set(f, x, st.convert(st.get(f, x.X), x.X.Type(), x.Type()))
		f.pc++
	case *ssa.Extract:
		st.set(f, x, st.get(f, x.Tuple).(Tuple)[x.Index])
		f.pc++
	case *ssa.Field:
		st.set(f, x, st.get(f, x.X).(Struct)[x.Field])
		f.pc++
	case *ssa.FieldAddr:
		p := st.asPtr(st.get(f, x.X))
		if p.Obj == 0 {
			st.goPanic("runtime error: invalid memory address or nil pointer dereference")
		}
		stt := under(x.X.Type().(*types.Pointer).Elem()).(*types.Struct)
		off := e.fieldOffsets(stt)[x.Field]
		st.set(f, x, Ptr{p.Obj, c.Add(p.Off, e.k64(off))})
		f.pc++
	case *ssa.Index:
		st.set(f, x, st.indexValue(st.get(f, x.X), st.get(f, x.Index), x.X.Type(), x.Index.Type()))
		f.pc++
	case *ssa.IndexAddr:
		st.set(f, x, st.indexAddr(st.get(f, x.X), st.get(f, x.Index), x.X.Type(), x.Index.Type()))
		f.pc++
	case *ssa.Lookup:
		st.set(f, x, st.lookup(x, st.get(f, x.X), st.get(f, x.Index)))
		f.pc++
	case *ssa.MakeClosure:
		fn := x.Fn.(*ssa.Function)
		bind := make([]Value, len(x.Bindings))
		for i, b := range x.Bindings {
			bind[i] = st.get(f, b)
		}
		st.set(f, x, Func{Fn: fn, Bind: bind})
		f.pc++
	case *ssa.MakeInterface:
		st.set(f, x, Iface{Dyn: x.X.Type(), V: st.get(f, x.X)})
		f.pc++
	case *ssa.MakeMap:
		if x.Reserve != nil {
			// make(map, hint) allocates buckets proportional to the hint (>= 8 bytes per slot here)
			st.checkAlloc(st.idx64(st.get(f, x.Reserve), x.Reserve.Type()), 16, "make(map)")
		}
		id := st.allocN(8, x.Type(), "map")
		st.newObj(id).Map = &mapData{typ: under(x.Type()).(*types.Map)}
		st.set(f, x, MapRef{id})
		f.pc++
	case *ssa.MakeSlice:
		st.set(f, x, st.makeSlice(x.Type(), st.get(f, x.Len), st.get(f, x.Cap), x.Len.Type(), x.Cap.Type()))
		f.pc++
	case *ssa.MapUpdate:
		st.mapUpdate(st.get(f, x.Map), st.get(f, x.Key), st.get(f, x.Value), x.Map.Type())
		f.pc++
	case *ssa.Range:
		st.set(f, x, st.rangeStart(st.get(f, x.X), x.X.Type()))
		f.pc++
	case *ssa.Next:
		st.set(f, x, st.rangeNext(x, st.get(f, x.Iter)))
		f.pc++
	case *ssa.Phi:
		st.unsupported("phi executed directly")
	case *ssa.Slice:
		st.set(f, x, st.sliceOp(f, x))
		f.pc++
	case *ssa.SliceToArrayPointer:
		s := st.get(f, x.X).(Slice)
		n := under(x.Type().(*types.Pointer).Elem()).(*types.Array).Len()
		if st.decide(c.Slt(s.Len, e.k64(n))) {
			st.goPanic("runtime error: cannot convert slice to array pointer: length too short")
		}
		if n == 0 && s.P.Obj == 0 {
			st.set(f, x, e.nilPtr())
		} else {
			st.set(f, x, s.P)
		}
		f.pc++
	case *ssa.Store:
		p := st.asPtr(st.get(f, x.Addr))
		st.store(p, x.Val.Type(), st.get(f, x.Val))
		f.pc++
	case *ssa.TypeAssert:
		st.set(f, x, st.typeAssert(x, st.get(f, x.X)))
		f.pc++
	case *ssa.If:
		cond := st.get(f, x.Cond).(*T)
		if st.decide(cond) {
			st.jump(f, f.block.Succs[0])
		} else {
			st.jump(f, f.block.Succs[1])
		}
	case *ssa.Jump:
		st.jump(f, f.block.Succs[0])
	case *ssa.Return:
		var rv Value
		switch len(x.Results) {
		case 0:
		case 1:
			rv = st.get(f, x.Results[0])
		default:
			t := make(Tuple, len(x.Results))
			for i, r := range x.Results {
				t[i] = st.get(f, r)
			}
			rv = t
		}
		st.doReturn(f, rv)
	case *ssa.Panic:
		v := st.get(f, x.X)
		st.startPanic(&panicInfo{val: v, site: st.site()})
	case *ssa.Defer:
		d := deferred{}
		if x.Call.IsInvoke() {
			recv := st.get(f, x.Call.Value).(Iface)
			fn := st.resolveMethod(recv, x.Call.Method)
			d.fn = Func{Fn: fn}
			d.args = append(d.args, recv.V)
		} else {
			d.fn = st.get(f, x.Call.Value)
		}
		for _, a := range x.Call.Args {
			d.args = append(d.args, st.get(f, a))
		}
		if fn, ok := d.fn.(Func); ok && fn.Fn != nil && len(fn.Bind) > 0 {
			// closures: bindings are passed through FreeVars; handled in callFunc
		}
		f.defers = append(f.defers, d)
		f.pc++
	case *ssa.RunDefers:
		if n := len(f.defers); n > 0 {
			d := f.defers[n-1]
			f.defers = f.defers[:n-1]
			st.callDeferredNormal(d)
			return
		}
		f.pc++
	case *ssa.Go, *ssa.Select, *ssa.Send, *ssa.MakeChan:
		st.unsupported("concurrency instruction %T", in)
	default:
		st.unsupported("instruction %T", in)
	}
}

func (st *State) callDeferredNormal(d deferred) {
	fn, ok := d.fn.(Func)
	if !ok {
		st.unsupported("deferred call of %T", d.fn)
	}
	if fn.Bi != nil {
		st.callBuiltinValue(fn.Bi, d.args, nil)
		return
	}
	if fn.Fn == nil {
		st.goPanic("runtime error: invalid memory address or nil pointer dereference")
	}
	if in := st.e.lookupIntrinsic(fn.Fn); in != nil {
		in(st, fn.Fn, d.args, func(Value) {})
		return
	}
	fr := st.pushFrameClosure(fn, d.args, nil)
	fr.isDefer = true
}

// pushFrameClosure pushes a frame for fn with its bindings installed in FreeVars.
func (st *State) pushFrameClosure(fn Func, args []Value, onRet func(*State, Value)) *Frame {
	fr := st.pushFrame(fn.Fn, args, onRet)
	if len(fn.Bind) != len(fn.Fn.FreeVars) {
		st.unsupported("closure binding mismatch in %s", fn.Fn.String())
	}
	for i, b := range fn.Bind {
		fr.regs[fr.info.idx[fn.Fn.FreeVars[i]]] = b
	}
	return fr
}

func (st *State) asPtr(v Value) Ptr {
	switch p := v.(type) {
	case Ptr:
		return p
	case PInt:
		return Ptr{p.Obj, p.Off}
	case Poison:
		st.unsupported("poison pointer: %s", p.Why)
	case *T:
		s := st.simp(p)
		if s.IsConst() && s.K == 0 {
			return st.e.nilPtr()
		}
		st.unsupported("integer %v used as pointer", s)
	}
	st.unsupported("expected pointer, got %T", v)
	return Ptr{}
}

// ---- calls ----

func (st *State) resolveMethod(recv Iface, m *types.Func) *ssa.Function {
	if recv.Dyn == nil {
		st.goPanic("runtime error: invalid memory address or nil pointer dereference")
	}
	e := st.e
	ms := e.prog.MethodSets.MethodSet(recv.Dyn)
	sel := ms.Lookup(m.Pkg(), m.Name())
	if sel == nil {
		st.unsupported("method %s not found on %v", m.Name(), recv.Dyn)
	}
	fn := e.prog.MethodValue(sel)
	if fn == nil {
		st.unsupported("abstract method %s on %v", m.Name(), recv.Dyn)
	}
	return fn
}

func (st *State) doCall(f *Frame, instr *ssa.Call, call *ssa.CallCommon) {
	args := make([]Value, 0, len(call.Args)+1)
	var fn Func
	if call.IsInvoke() {
		recv, ok := st.get(f, call.Value).(Iface)
		if !ok {
			st.unsupported("invoke on %T", st.get(f, call.Value))
		}
		m := st.resolveMethod(recv, call.Method)
		fn = Func{Fn: m}
		args = append(args, recv.V)
	} else {
		v := st.get(f, call.Value)
		var ok bool
		fn, ok = v.(Func)
		if !ok {
			if pz, isP := v.(Poison); isP {
				st.unsupported("call of poison function value: %s", pz.Why)
			}
			st.unsupported("call of %T", v)
		}
	}
	for _, a := range call.Args {
		args = append(args, st.get(f, a))
	}
	ret := func(v Value) {
		if v == nil {
			v = Tuple{}
		}
		st.set(f, instr, v)
		f.pc++
	}
	if fn.Bi != nil {
		st.callBuiltin(f, instr, fn.Bi, args, call, ret)
		return
	}
	if fn.Fn == nil {
		st.goPanic("runtime error: invalid memory address or nil pointer dereference")
	}
	if in := st.e.lookupIntrinsic(fn.Fn); in != nil {
		in(st, fn.Fn, args, ret)
		return
	}
	if fn.Fn.Name() == "init" && fn.Fn.Pkg != nil && fn.Fn.Signature.Recv() == nil && fn.Fn.Pkg.Func("init") == fn.Fn {
		if st.e.InitAllow != nil && st.e.InitAllow(fn.Fn.Pkg.Pkg.Path()) != 1 {
			ret(nil)
			return
		}
	}
	if len(fn.Fn.Blocks) == 0 {
		st.unsupported("call of function without body: %s", fn.Fn.String())
	}
	st.pushFrameClosure(fn, args, nil)
}

// callFunc calls fn (engine-initiated) and invokes k with the result.
func (st *State) callFunc(fn Func, args []Value, k func(*State, Value)) {
	if in := st.e.lookupIntrinsic(fn.Fn); in != nil {
		in(st, fn.Fn, args, func(v Value) { k(st, v) })
		return
	}
	st.pushFrameClosure(fn, args, k)
}

// ---- operators ----

func (st *State) binop(op token.Token, x, y Value, xt, yt types.Type) Value {
	e := st.e
	c := e.ctx
	// pointer-provenance integers
	if px, ok := x.(PInt); ok {
		return st.pintOp(op, px, y)
	}
	if py, ok := y.(PInt); ok {
		switch op {
		case token.ADD:
			return st.pintOp(op, py, x)
		case token.EQL, token.NEQ:
			return st.pintOp(op, py, x)
		}
		st.unsupported("operator %v with pointer-derived right operand", op)
	}
	switch a := x.(type) {
	case *T:
		b, ok := y.(*T)
		if !ok {
			st.unsupported("binop %v on %T and %T", op, x, y)
		}
		if a.W == 0 {
			switch op {
			case token.EQL:
				return c.Eq(a, b)
			case token.NEQ:
				return c.Ne(a, b)
			case token.AND, token.LAND:
				return c.BAnd(a, b)
			case token.OR, token.LOR:
				return c.BOr(a, b)
			}
			st.unsupported("bool op %v", op)
		}
		if fw, isF := floatWidth(xt); isF {
			_ = fw
			switch op {
			case token.ADD:
				return c.FBin(OFAdd, a, b)
			case token.SUB:
				return c.FBin(OFSub, a, b)
			case token.MUL:
				return c.FBin(OFMul, a, b)
			case token.QUO:
				return c.FBin(OFDiv, a, b)
			case token.EQL:
				return c.FCmp(OFEq, a, b)
			case token.NEQ:
				return c.BNot(c.FCmp(OFEq, a, b))
			case token.LSS:
				return c.FCmp(OFLt, a, b)
			case token.LEQ:
				return c.FCmp(OFLe, a, b)
			case token.GTR:
				return c.FCmp(OFLt, b, a)
			case token.GEQ:
				return c.FCmp(OFLe, b, a)
			}
			st.unsupported("float op %v", op)
		}
		_, signed, _ := intWidth(xt)
		switch op {
		case token.ADD:
			return c.Add(a, b)
		case token.SUB:
			return c.Sub(a, b)
		case token.MUL:
			return c.Mul(a, b)
		case token.QUO, token.REM:
			if st.decide(c.Eq(b, c.Const(0, b.W))) {
				st.goPanic("runtime error: integer divide by zero")
			}
			if signed {
				if op == token.QUO {
					return c.SDiv(a, b)
				}
				return c.SRem(a, b)
			}
			if op == token.QUO {
				return c.UDiv(a, b)
			}
			return c.URem(a, b)
		case token.AND:
			return c.And(a, b)
		case token.OR:
			return c.Or(a, b)
		case token.XOR:
			return c.Xor(a, b)
		case token.AND_NOT:
			return c.And(a, c.Not(b))
		case token.SHL, token.SHR:
			_, ysigned, _ := intWidth(yt)
			if ysigned {
				if st.decide(c.Slt(b, c.Const(0, b.W))) {
					st.goPanic("runtime error: negative shift amount")
				}
			}
			// bring the count to a's width, saturating
			var cnt *T
			if b.W > a.W {
				big := c.Ule(c.Const(uint64(a.W), b.W), b)
				cnt = c.Ite(big, c.Const(uint64(a.W), a.W), c.Extract(b, 0, a.W))
			} else {
				cnt = c.ZExt(b, a.W)
			}
			if op == token.SHL {
				return c.Shl(a, cnt)
			}
			if signed {
				return c.AShr(a, cnt)
			}
			return c.LShr(a, cnt)
		case token.EQL:
			return c.Eq(a, b)
		case token.NEQ:
			return c.Ne(a, b)
		case token.LSS:
			if signed {
				return c.Slt(a, b)
			}
			return c.Ult(a, b)
		case token.LEQ:
			if signed {
				return c.Sle(a, b)
			}
			return c.Ule(a, b)
		case token.GTR:
			if signed {
				return c.Slt(b, a)
			}
			return c.Ult(b, a)
		case token.GEQ:
			if signed {
				return c.Sle(b, a)
			}
			return c.Ule(b, a)
		}
		st.unsupported("int op %v", op)
	case Str:
		b := y.(Str)
		switch op {
		case token.ADD:
			return st.strConcat(a, b)
		case token.EQL:
			return st.strEq(a, b)
		case token.NEQ:
			return c.BNot(st.strEq(a, b))
		case token.LSS:
			return st.strLess(a, b)
		case token.GTR:
			return st.strLess(b, a)
		case token.LEQ:
			return c.BNot(st.strLess(b, a))
		case token.GEQ:
			return c.BNot(st.strLess(a, b))
		}
	default:
		switch op {
		case token.EQL:
			return st.valueEq(x, y, xt)
		case token.NEQ:
			return c.BNot(st.valueEq(x, y, xt))
		}
	}
	st.unsupported("binop %v on %T", op, x)
	return nil
}

func (st *State) pintOp(op token.Token, p PInt, y Value) Value {
	c := st.e.ctx
	switch b := y.(type) {
	case *T:
		switch op {
		case token.ADD:
			return PInt{p.Obj, c.Add(p.Off, b)}
		case token.SUB:
			return PInt{p.Obj, c.Sub(p.Off, b)}
		case token.EQL:
			// address equals a plain integer: only 0 is meaningful
			return c.False
		case token.NEQ:
			return c.True
		case token.AND:
			// alignment tests such as p & 7: objects are 8-aligned
			if b.IsConst() && b.K < 8 {
				return c.And(p.Off, b)
			}
		}
	case PInt:
		if b.Obj == p.Obj {
			switch op {
			case token.SUB:
				return c.Sub(p.Off, b.Off)
			case token.EQL:
				return c.Eq(p.Off, b.Off)
			case token.NEQ:
				return c.Ne(p.Off, b.Off)
			case token.LSS:
				return c.Slt(p.Off, b.Off)
			case token.LEQ:
				return c.Sle(p.Off, b.Off)
			case token.GTR:
				return c.Slt(b.Off, p.Off)
			case token.GEQ:
				return c.Sle(b.Off, p.Off)
			}
		} else {
			switch op {
			case token.EQL:
				return c.False
			case token.NEQ:
				return c.True
			}
		}
	}
	st.unsupported("operator %v on pointer-derived integer", op)
	return nil
}

func (st *State) unop(x *ssa.UnOp, v Value) Value {
	c := st.e.ctx
	switch x.Op {
	case token.MUL:
		p := st.asPtr(v)
		return st.load(p, x.Type())
	case token.SUB:
		t := st.asT(v)
		if _, isF := floatWidth(x.Type()); isF {
			return c.FNeg(t)
		}
		return c.Neg(t)
	case token.NOT:
		return c.BNot(v.(*T))
	case token.XOR:
		return c.Not(st.asT(v))
	}
	st.unsupported("unop %v", x.Op)
	return nil
}

func (st *State) convert(v Value, from, to types.Type) Value {
	e := st.e
	c := e.ctx
	// string <-> []byte / []rune, string(int)
	if isString(to) {
		switch x := v.(type) {
		case Str:
			return x
		case Slice:
			es := e.sizeof(under(from).(*types.Slice).Elem())
			if es != 1 {
				st.unsupported("string([]rune)")
			}
			n := st.concInt(x.Len, "string(bytes) length")
			if n == 0 {
				return Str{e.nilPtr(), e.k64(0)}
			}
			id := st.allocN(n, nil, "string(bytes)")
			st.copyMem(Ptr{id, e.k64(0)}, x.P, n)
			return Str{Ptr{id, e.k64(0)}, e.k64(n)}
		case *T:
			// string(rune)
			r := st.concretize(x, "string(rune)")
			return st.strConst(string(rune(sx(r, x.W))))
		}
	}
	if sl, ok := under(to).(*types.Slice); ok {
		if s, ok := v.(Str); ok {
			if e.sizeof(sl.Elem()) != 1 {
				st.unsupported("[]rune(string)")
			}
			n := st.concInt(s.Len, "[]byte(string) length")
			id := st.allocN(n, nil, "[]byte(string)")
			if n > 0 {
				st.copyMem(Ptr{id, e.k64(0)}, s.P, n)
			}
			return Slice{Ptr{id, e.k64(0)}, e.k64(n), e.k64(n)}
		}
		return v
	}
	// pointer <-> unsafe.Pointer <-> uintptr
	if isPointerLike(to) {
		switch x := v.(type) {
		case Ptr:
			return x
		case PInt:
			return Ptr{x.Obj, x.Off}
		case *T:
			s := st.simp(x)
			if s.IsConst() && s.K == 0 {
				return e.nilPtr()
			}
			st.unsupported("integer %v converted to pointer", s)
		}
	}
	if isPointerLike(from) {
		if _, _, ok := intWidth(to); ok {
			p := st.asPtr(v)
			if p.Obj == 0 {
				return c.Const(0, 64)
			}
			return PInt{p.Obj, p.Off}
		}
	}
	if p, ok := v.(PInt); ok {
		if w, _, ok := intWidth(to); ok && w == 64 {
			return p
		}
		st.unsupported("narrowing of pointer-derived integer")
	}
	t, ok := v.(*T)
	if !ok {
		st.unsupported("convert %T from %v to %v", v, from, to)
	}
	fw, fromF := floatWidth(from)
	tw, toF := floatWidth(to)
	iw, isigned, fromI := intWidth(from)
	ow, osigned, toI := intWidth(to)
	switch {
	case fromI && toI:
		_ = iw
		_ = osigned
		return c.Resize(t, ow, isigned)
	case fromI && toF:
		return c.I2F(t, tw, isigned)
	case fromF && toI:
		_ = fw
		return c.F2I(t, ow, osigned)
	case fromF && toF:
		return c.FCvt(t, tw)
	}
	st.unsupported("convert from %v to %v", from, to)
	return nil
}

func (st *State) idx64(v Value, t types.Type) *T {
	c := st.e.ctx
	x := st.asT(v)
	_, signed, _ := intWidth(t)
	return c.Resize(x, 64, signed)
}

func (st *State) indexAddr(xv, iv Value, xt, it types.Type) Value {
	e := st.e
	c := e.ctx
	idx := st.idx64(iv, it)
	switch u := under(xt).(type) {
	case *types.Slice:
		s := xv.(Slice)
		if !st.decide(c.Ult(idx, s.Len)) {
			st.goPanic("runtime error: index out of range")
		}
		es := e.sizeof(u.Elem())
		return Ptr{s.P.Obj, c.Add(s.P.Off, c.Mul(idx, e.k64(es)))}
	case *types.Pointer:
		arr := under(u.Elem()).(*types.Array)
		p := st.asPtr(xv)
		if p.Obj == 0 {
			st.goPanic("runtime error: invalid memory address or nil pointer dereference")
		}
		if !st.decide(c.Ult(idx, e.k64(arr.Len()))) {
			st.goPanic("runtime error: index out of range")
		}
		es := e.sizeof(arr.Elem())
		return Ptr{p.Obj, c.Add(p.Off, c.Mul(idx, e.k64(es)))}
	}
	st.unsupported("IndexAddr on %v", xt)
	return nil
}

func (st *State) indexValue(xv, iv Value, xt, it types.Type) Value {
	c := st.e.ctx
	idx := st.idx64(iv, it)
	switch a := xv.(type) {
	case Array:
		if !st.decide(c.Ult(idx, st.e.k64(int64(len(a))))) {
			st.goPanic("runtime error: index out of range")
		}
		i := st.concretize(idx, "array value index")
		return a[i]
	case Str:
		if !st.decide(c.Ult(idx, a.Len)) {
			st.goPanic("runtime error: index out of range")
		}
		return st.load(Ptr{a.P.Obj, c.Add(a.P.Off, idx)}, types.Typ[types.Uint8])
	}
	st.unsupported("Index on %T", xv)
	return nil
}

func (st *State) makeSlice(t types.Type, lv, cv Value, lt, ct types.Type) Value {
	e := st.e
	c := e.ctx
	l := st.idx64(lv, lt)
	cp := st.idx64(cv, ct)
	es := e.sizeof(under(t).(*types.Slice).Elem())
	if st.decide(c.BOr(c.Slt(l, e.k64(0)), c.Slt(cp, l))) {
		st.goPanic("runtime error: makeslice: len out of range")
	}
	st.checkAlloc(cp, es, "make")
	size := c.Mul(cp, e.k64(es))
	id := st.alloc(size, t, "make "+t.String())
	return Slice{Ptr{id, e.k64(0)}, l, cp}
}

// checkAlloc enforces the harness's allocation budget and Go's own limit.
func (st *State) checkAlloc(n *T, es int64, what string) {
	e := st.e
	c := e.ctx
	if es == 0 {
		return
	}
	// Go panics when the byte size overflows / exceeds maxAlloc (2^48)
	lim := uint64(1<<47) / uint64(es)
	if st.decide(c.Ult(c.Const(lim, 64), n)) {
		st.goPanic("runtime error: makeslice: len out of range")
	}
	if e.AllocMax != nil {
		budget := e.AllocMax(es)
		if st.decide(c.Ult(c.Const(uint64(budget), 64), n)) {
			st.end(OutAlloc, fmt.Sprintf("%s of more than %d elements of %d bytes", what, budget, es))
		}
	}
}

func (st *State) sliceOp(f *Frame, x *ssa.Slice) Value {
	e := st.e
	c := e.ctx
	xv := st.get(f, x.X)
	var lo, hi, max *T
	if x.Low != nil {
		lo = st.idx64(st.get(f, x.Low), x.Low.Type())
	} else {
		lo = e.k64(0)
	}
	if x.High != nil {
		hi = st.idx64(st.get(f, x.High), x.High.Type())
	}
	if x.Max != nil {
		max = st.idx64(st.get(f, x.Max), x.Max.Type())
	}
	switch u := under(x.X.Type()).(type) {
	case *types.Basic: // string
		s := xv.(Str)
		if hi == nil {
			hi = s.Len
		}
		if !st.decide(c.BAnd(c.Ule(hi, s.Len), c.Ule(lo, hi))) {
			st.goPanic("runtime error: slice bounds out of range")
		}
		nl := c.Sub(hi, lo)
		p := Ptr{s.P.Obj, c.Add(s.P.Off, lo)}
		return Str{p, nl}
	case *types.Slice:
		s := xv.(Slice)
		if hi == nil {
			hi = s.Len
		}
		if max == nil {
			max = s.Cap
		}
		ok := c.BAnd(c.Ule(max, s.Cap), c.BAnd(c.Ule(hi, max), c.Ule(lo, hi)))
		if !st.decide(ok) {
			st.goPanic("runtime error: slice bounds out of range")
		}
		es := e.sizeof(u.Elem())
		p := Ptr{s.P.Obj, c.Add(s.P.Off, c.Mul(lo, e.k64(es)))}
		return Slice{p, c.Sub(hi, lo), c.Sub(max, lo)}
	case *types.Pointer:
		arr := under(u.Elem()).(*types.Array)
		p := st.asPtr(xv)
		if p.Obj == 0 {
			st.goPanic("runtime error: invalid memory address or nil pointer dereference")
		}
		n := e.k64(arr.Len())
		if hi == nil {
			hi = n
		}
		if max == nil {
			max = n
		}
		ok := c.BAnd(c.Ule(max, n), c.BAnd(c.Ule(hi, max), c.Ule(lo, hi)))
		if !st.decide(ok) {
			st.goPanic("runtime error: slice bounds out of range")
		}
		es := e.sizeof(arr.Elem())
		np := Ptr{p.Obj, c.Add(p.Off, c.Mul(lo, e.k64(es)))}
		return Slice{np, c.Sub(hi, lo), c.Sub(max, lo)}
	}
	st.unsupported("Slice on %v", x.X.Type())
	return nil
}

func (st *State) typeAssert(x *ssa.TypeAssert, v Value) Value {
	e := st.e
	c := e.ctx
	iface, ok := v.(Iface)
	if !ok {
		st.unsupported("type assert on %T", v)
	}
	var okv bool
	var res Value
	if it, isI := under(x.AssertedType).(*types.Interface); isI {
		if iface.Dyn != nil && types.Implements(iface.Dyn, it) {
			okv = true
			res = iface
		} else {
			res = Iface{}
		}
	} else {
		if iface.Dyn != nil && types.Identical(iface.Dyn, x.AssertedType) {
			okv = true
			res = iface.V
		} else {
			res = e.zero(x.AssertedType)
		}
	}
	if x.CommaOk {
		return Tuple{res, c.Bool(okv)}
	}
	if !okv {
		st.goPanic(fmt.Sprintf("interface conversion: interface is %v, not %v", iface.Dyn, x.AssertedType))
	}
	return res
}

// ---- equality ----

func (st *State) ptrEq(a, b Ptr) *T {
	c := st.e.ctx
	if a.Obj != b.Obj {
		return c.False
	}
	if a.Obj == 0 {
		return c.True
	}
	return c.Eq(a.Off, b.Off)
}

func (st *State) valueEq(x, y Value, t types.Type) *T {
	c := st.e.ctx
	switch a := x.(type) {
	case *T:
		if b, ok := y.(*T); ok {
			if _, isF := floatWidth(t); isF && t != nil {
				return c.FCmp(OFEq, a, b)
			}
			if a.W != b.W {
				return c.False
			}
			return c.Eq(a, b)
		}
		if _, ok := y.(PInt); ok {
			return c.False
		}
	case PInt:
		if b, ok := y.(PInt); ok {
			return st.ptrEq(Ptr{a.Obj, a.Off}, Ptr{b.Obj, b.Off})
		}
		return c.False
	case Ptr:
		switch b := y.(type) {
		case Ptr:
			return st.ptrEq(a, b)
		case PInt:
			return st.ptrEq(a, Ptr{b.Obj, b.Off})
		}
	case Str:
		return st.strEq(a, y.(Str))
	case Iface:
		b := y.(Iface)
		if a.Dyn == nil || b.Dyn == nil {
			return c.Bool(a.Dyn == nil && b.Dyn == nil)
		}
		if !types.Identical(a.Dyn, b.Dyn) {
			return c.False
		}
		if !types.Comparable(a.Dyn) {
			st.goPanic("runtime error: comparing uncomparable type " + a.Dyn.String())
		}
		return st.valueEq(a.V, b.V, a.Dyn)
	case Struct:
		b := y.(Struct)
		r := c.True
		var stt *types.Struct
		if t != nil {
			stt, _ = under(t).(*types.Struct)
		}
		for i := range a {
			var ft types.Type
			if stt != nil {
				ft = stt.Field(i).Type()
			}
			r = c.BAnd(r, st.valueEq(a[i], b[i], ft))
		}
		return r
	case Array:
		b := y.(Array)
		r := c.True
		var et types.Type
		if t != nil {
			if at, ok := under(t).(*types.Array); ok {
				et = at.Elem()
			}
		}
		for i := range a {
			r = c.BAnd(r, st.valueEq(a[i], b[i], et))
		}
		return r
	case Func:
		b, _ := y.(Func)
		an := a.Fn == nil && a.Bi == nil
		bn := b.Fn == nil && b.Bi == nil
		if an || bn {
			return c.Bool(an && bn)
		}
	case MapRef:
		b := y.(MapRef)
		return c.Bool(a.Obj == b.Obj)
	case Slice:
		b := y.(Slice)
		// only comparison with nil is legal
		if b.P.Obj == 0 {
			return c.Bool(a.P.Obj == 0)
		}
		if a.P.Obj == 0 {
			return c.Bool(b.P.Obj == 0)
		}
	}
	st.unsupported("equality on %T and %T", x, y)
	return nil
}

func (st *State) strBytes(s Str, why string) []*T {
	n := st.concInt(s.Len, why)
	if n == 0 {
		return nil
	}
	return st.readBytes(s.P, n)
}

func (st *State) strEq(a, b Str) *T {
	c := st.e.ctx
	la, lb := st.simp(a.Len), st.simp(b.Len)
	if la.IsConst() && lb.IsConst() && la.K != lb.K {
		return c.False
	}
	// decide length equality first (fork), then compare bytes
	if !st.decide(c.Eq(la, lb)) {
		return c.False
	}
	if a.P.Obj == b.P.Obj && st.simp(a.P.Off) == st.simp(b.P.Off) {
		return c.True
	}
	ab := st.strBytes(a, "string compare length")
	bb := st.strBytes(b, "string compare length")
	r := c.True
	for i := range ab {
		r = c.BAnd(r, c.Eq(ab[i], bb[i]))
	}
	return r
}

func (st *State) strLess(a, b Str) *T {
	c := st.e.ctx
	ab := st.strBytes(a, "string compare length")
	bb := st.strBytes(b, "string compare length")
	n := len(ab)
	if len(bb) < n {
		n = len(bb)
	}
	// from the end: less = a[i]<b[i] || (a[i]==b[i] && rest)
	r := c.Bool(len(ab) < len(bb))
	for i := n - 1; i >= 0; i-- {
		r = c.BOr(c.Ult(ab[i], bb[i]), c.BAnd(c.Eq(ab[i], bb[i]), r))
	}
	return r
}

func (st *State) strConcat(a, b Str) Value {
	e := st.e
	la := st.concInt(a.Len, "string concat length")
	lb := st.concInt(b.Len, "string concat length")
	if la == 0 {
		return b
	}
	if lb == 0 {
		return a
	}
	id := st.allocN(la+lb, nil, "string concat")
	st.copyMem(Ptr{id, e.k64(0)}, a.P, la)
	st.copyMem(Ptr{id, e.k64(la)}, b.P, lb)
	return Str{Ptr{id, e.k64(0)}, e.k64(la + lb)}
}
