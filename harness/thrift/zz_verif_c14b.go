package thrift

import (
	"context"

	vrt "github.com/cloudwego/dynamicgo/internal/zzverif"
	"github.com/cloudwego/dynamicgo/meta"
	"github.com/cloudwego/thriftgo/parser"
)

func init() { vrt.Register("VerifC14_Parse", VerifC14_Parse) }

// ---- the descriptor built from a thriftgo AST mirrors the AST ----
//
// thriftgo's text parser cannot be executed by the engine, but its result is a tree of plain structs
// (parser.Thrift): the harness builds that tree directly and runs the real thrift/idl.go parse() on it.
// semantic.ResolveSymbols only annotates the tree (categories, references) and is not read by idl.go:
// under the engine it is redirected to a no-op.

func aType(name string) *parser.Type { return &parser.Type{Name: name} }
func aList(e *parser.Type) *parser.Type {
	return &parser.Type{Name: "list", ValueType: e}
}
func aSet(e *parser.Type) *parser.Type {
	return &parser.Type{Name: "set", ValueType: e}
}
func aMap(k, v *parser.Type) *parser.Type {
	return &parser.Type{Name: "map", KeyType: k, ValueType: v}
}
func aField(id int32, name string, req parser.FieldType, t *parser.Type) *parser.Field {
	return &parser.Field{ID: id, Name: name, Requiredness: req, Type: t}
}

// expectation model
type xType struct {
	typ     Type
	key     *xType
	elem    *xType
	st      *xStruct
}
type xField struct {
	id   int32
	name string
	req  Requireness
	typ  *xType
}
type xStruct struct {
	name   string
	fields []xField
}

func xBasic(t Type) *xType { return &xType{typ: t} }

func vSameType(td *TypeDescriptor, x *xType, depth int, label string) {
	vrt.Assert(td != nil && td.Type() == x.typ, label+".type")
	if td == nil || td.Type() != x.typ {
		return
	}
	switch x.typ {
	case LIST, SET:
		vSameType(td.Elem(), x.elem, depth, label+".elem")
	case MAP:
		vSameType(td.Key(), x.key, depth, label+".key")
		vSameType(td.Elem(), x.elem, depth, label+".value")
	case STRUCT:
		if depth > 0 {
			vSameStruct(td, x.st, depth-1, label+"."+x.st.name)
		}
	}
}

func vSameStruct(td *TypeDescriptor, x *xStruct, depth int, label string) {
	sd := td.Struct()
	vrt.Assert(sd != nil && sd.Name() == x.name, label+".struct-name")
	if sd == nil {
		return
	}
	vrt.Assert(len(sd.Fields()) == len(x.fields), label+".field-count")
	for _, f := range x.fields {
		fd := sd.FieldById(FieldID(f.id))
		vrt.Assert(fd != nil, label+".declared-id.found")
		if fd == nil {
			continue
		}
		vrt.Assert(fd.Name() == f.name && fd.ID() == FieldID(f.id) && fd.Required() == f.req, label+".field.name-id-requiredness")
		vrt.Assert(sd.FieldByKey(f.name) == fd, label+".lookup-by-name")
		vSameType(fd.Type(), f.typ, depth, label+"."+f.name)
	}
	for _, id := range []FieldID{0, 1, 2, 3, 4, 5, 6, 7, 8, 9, 254, 255, 256, 32767} {
		declared := false
		for _, f := range x.fields {
			if FieldID(f.id) == id {
				declared = true
			}
		}
		if !declared {
			vrt.Assert(sd.FieldById(id) == nil, label+".undeclared-id.nil")
		}
	}
	for _, k := range []string{"nope", "", "Id", "main_name", "inc_id"} {
		known := false
		for _, f := range x.fields {
			if f.name == k {
				known = true
			}
		}
		if !known {
			vrt.Assert(sd.FieldByKey(k) == nil, label+".undeclared-name.nil")
		}
	}
}

// VerifC14_Parse: main.thrift includes inc.thrift; both declare a struct Item; typedefs, enums, containers,
// a recursive struct, an exception, two services.  K is the kind of one scalar field, MODE the
// ParseServiceMode.
func VerifC14_Parse() {
	mode := meta.ParseServiceMode(vrt.Param("MODE"))
	kname := []string{"bool", "byte", "i16", "i32", "i64", "double", "string", "binary"}[vrt.Param("K")]
	ktyp := []Type{BOOL, BYTE, I16, I32, I64, DOUBLE, STRING, STRING}[vrt.Param("K")]
	if vrt.Symbolic() {
		vrt.Redirect("github.com/cloudwego/thriftgo/semantic.ResolveSymbols", func(*parser.Thrift) error { return nil })
	}

	inc := &parser.Thrift{Filename: "inc.thrift"}
	inc.Structs = []*parser.StructLike{
		{Category: "struct", Name: "Item", Fields: []*parser.Field{
			aField(1, "inc_id", parser.FieldType_Required, aType("i64")),
			aField(2, "inc_tags", parser.FieldType_Optional, aList(aType("string"))),
		}},
		{Category: "struct", Name: "Wrapper", Fields: []*parser.Field{
			aField(1, "item", parser.FieldType_Default, aType("Item")), // inc's own Item, unprefixed
		}},
	}
	// a base service in the included file; its functions name inc's own types without a prefix
	inc.Services = []*parser.Service{{Name: "Base", Functions: []*parser.Function{
		{Name: "Inherited", FunctionType: aType("Item"), Arguments: []*parser.Field{aField(1, "bw", parser.FieldType_Default, aType("Wrapper"))}},
	}}}
	main := &parser.Thrift{Filename: "main.thrift"}
	main.Includes = []*parser.Include{{Path: "inc.thrift", Reference: inc}}
	main.Typedefs = []*parser.Typedef{{Alias: "MyID", Type: aType("i64")}}
	main.Enums = []*parser.Enum{{Name: "Color", Values: []*parser.EnumValue{{Name: "RED", Value: 0}}}}
	main.Structs = []*parser.StructLike{
		{Category: "struct", Name: "Item", Fields: []*parser.Field{
			aField(1, "main_name", parser.FieldType_Default, aType("string")),
		}},
		{Category: "struct", Name: "Req", Fields: []*parser.Field{
			aField(1, "id", parser.FieldType_Required, aType("MyID")),
			aField(2, "item", parser.FieldType_Optional, aType("Item")),
			aField(3, "items", parser.FieldType_Default, aList(aType("Item"))),
			aField(4, "m", parser.FieldType_Default, aMap(aType("string"), aType("inc.Item"))),
			aField(5, "w", parser.FieldType_Default, aType("inc.Wrapper")),
			aField(6, "c", parser.FieldType_Default, aType("Color")),
			aField(7, "k", parser.FieldType_Optional, aType(kname)),
			aField(8, "ss", parser.FieldType_Default, aSet(aType(kname))),
			aField(255, "self", parser.FieldType_Optional, aType("Req")),
		}},
		{Category: "struct", Name: "Resp", Fields: []*parser.Field{
			aField(1, "a", parser.FieldType_Default, aType("Item")),
			aField(2, "b", parser.FieldType_Default, aType("inc.Item")),
		}},
	}
	main.Exceptions = []*parser.StructLike{{Category: "exception", Name: "Err", Fields: []*parser.Field{
		aField(1, "msg", parser.FieldType_Default, aType("string")),
	}}}
	main.Services = []*parser.Service{
		{Name: "S1", Functions: []*parser.Function{
			{Name: "Do", FunctionType: aType("Resp"), Arguments: []*parser.Field{aField(1, "req", parser.FieldType_Default, aType("Req"))},
				Throws: []*parser.Field{aField(1, "e", parser.FieldType_Default, aType("Err"))}},
			{Name: "Ping", Oneway: true, Void: true, FunctionType: aType("void"), Arguments: []*parser.Field{aField(1, "i", parser.FieldType_Default, aType("Item"))}},
		}},
		{Name: "S2", Extends: "inc.Base", Reference: &parser.Reference{Name: "Base", Index: 0}, Functions: []*parser.Function{
			{Name: "Other", FunctionType: aType("inc.Item"), Arguments: []*parser.Field{aField(1, "w", parser.FieldType_Default, aType("inc.Wrapper"))}},
		}},
	}

	// expectations
	incItem := &xStruct{name: "Item", fields: []xField{
		{1, "inc_id", RequiredRequireness, xBasic(I64)},
		{2, "inc_tags", OptionalRequireness, &xType{typ: LIST, elem: xBasic(STRING)}},
	}}
	incWrapper := &xStruct{name: "Wrapper", fields: []xField{{1, "item", DefaultRequireness, &xType{typ: STRUCT, st: incItem}}}}
	mainItem := &xStruct{name: "Item", fields: []xField{{1, "main_name", DefaultRequireness, xBasic(STRING)}}}
	req := &xStruct{name: "Req"}
	req.fields = []xField{
		{1, "id", RequiredRequireness, xBasic(I64)},
		{2, "item", OptionalRequireness, &xType{typ: STRUCT, st: mainItem}},
		{3, "items", DefaultRequireness, &xType{typ: LIST, elem: &xType{typ: STRUCT, st: mainItem}}},
		{4, "m", DefaultRequireness, &xType{typ: MAP, key: xBasic(STRING), elem: &xType{typ: STRUCT, st: incItem}}},
		{5, "w", DefaultRequireness, &xType{typ: STRUCT, st: incWrapper}},
		{6, "c", DefaultRequireness, xBasic(I32)},
		{7, "k", OptionalRequireness, xBasic(ktyp)},
		{8, "ss", DefaultRequireness, &xType{typ: SET, elem: xBasic(ktyp)}},
		{255, "self", OptionalRequireness, &xType{typ: STRUCT, st: req}},
	}
	resp := &xStruct{name: "Resp", fields: []xField{
		{1, "a", DefaultRequireness, &xType{typ: STRUCT, st: mainItem}},
		{2, "b", DefaultRequireness, &xType{typ: STRUCT, st: incItem}},
	}}
	errS := &xStruct{name: "Err", fields: []xField{{1, "msg", DefaultRequireness, xBasic(STRING)}}}

	sd, err := parse(context.Background(), main, mode, Options{})
	vrt.Assert(err == nil && sd != nil, "C14.parse.noerror")
	if err != nil || sd == nil {
		return
	}
	vrt.Reach("parsed")
	type xFn struct {
		name   string
		oneway bool
		arg    string
		in     *xStruct
		out    *xStruct // nil = void
		exc    *xStruct
	}
	do := xFn{"Do", false, "req", req, resp, errS}
	ping := xFn{"Ping", true, "i", mainItem, nil, nil}
	other := xFn{"Other", false, "w", incWrapper, incItem, nil}
	inherited := xFn{"Inherited", false, "bw", incWrapper, incItem, nil} // S2 extends inc.Base
	var want []xFn
	switch mode {
	case meta.LastServiceOnly:
		want = []xFn{other, inherited}
	case meta.FirstServiceOnly:
		want = []xFn{do, ping}
	default:
		want = []xFn{do, ping, other, inherited}
	}
	vrt.Assert(len(sd.Functions()) == len(want), "C14.parse.functions.exactly-declared")
	for _, f := range want {
		fd := sd.Functions()[f.name]
		vrt.Assert(fd != nil, "C14.parse.function.found")
		if fd == nil {
			continue
		}
		vrt.Assert(fd.Name() == f.name && fd.Oneway() == f.oneway, "C14.parse.function.name-oneway")
		// request: a wrapper struct holding the single argument
		rq := fd.Request()
		vrt.Assert(rq != nil && rq.Type() == STRUCT, "C14.parse.request.wrapper")
		if rq != nil && rq.Type() == STRUCT {
			af := rq.Struct().FieldById(1)
			vrt.Assert(af != nil && af.Name() == f.arg && rq.Struct().FieldByKey(f.arg) == af, "C14.parse.request.argument")
			if af != nil {
				vSameStruct(af.Type(), f.in, 3, "C14.parse."+f.name+".request")
			}
		}
		rs := fd.Response()
		vrt.Assert(rs != nil && rs.Type() == STRUCT, "C14.parse.response.wrapper")
		if rs != nil && rs.Type() == STRUCT {
			rf := rs.Struct().FieldById(0)
			vrt.Assert(rf != nil && rs.Struct().FieldByKey("") == rf, "C14.parse.response.success-field")
			if rf != nil && f.out != nil {
				vSameStruct(rf.Type(), f.out, 3, "C14.parse."+f.name+".response")
			}
			if f.exc != nil {
				ef := rs.Struct().FieldById(1)
				vrt.Assert(ef != nil && ef.Name() == "e", "C14.parse.response.exception-field")
				if ef != nil {
					vSameStruct(ef.Type(), f.exc, 2, "C14.parse."+f.name+".exception")
				}
			}
		}
	}
	vrt.Assert(sd.Functions()["Nope"] == nil, "C14.parse.function.undeclared.nil")
}

func init() { vrt.Register("VerifC14_ThriftBase", VerifC14_ThriftBase) }

// VerifC14_ThriftBase: EnableThriftBase marks the base.Base / base.BaseResp field of the ROOT request / response
// struct only; a nested struct that declares such a field keeps an ordinary field: not a base field, no
// GetRequestBase / GetResponseBase, and its requiredness recorded in the requires bitmap.
//   Req{1: InQ q; 255: base.Base Base}, InQ{1: i32 x; 255: REQ base.Base Base}
//   Resp{1: InR r; 2: list<InR> rs; 255: base.BaseResp BaseResp}, InR{1: i32 y; 255: REQ base.BaseResp BaseResp}
func VerifC14_ThriftBase() {
	enable := vrt.Param("ENABLE") != 0
	nreq := []parser.FieldType{parser.FieldType_Default, parser.FieldType_Required, parser.FieldType_Optional}[vrt.Param("NREQ")]
	if vrt.Symbolic() {
		vrt.Redirect("github.com/cloudwego/thriftgo/semantic.ResolveSymbols", func(*parser.Thrift) error { return nil })
	}
	base := &parser.Thrift{Filename: "base.thrift"}
	base.Structs = []*parser.StructLike{
		{Category: "struct", Name: "Base", Fields: []*parser.Field{aField(1, "LogID", parser.FieldType_Default, aType("string"))}},
		{Category: "struct", Name: "BaseResp", Fields: []*parser.Field{aField(1, "StatusMessage", parser.FieldType_Default, aType("string"))}},
	}
	main := &parser.Thrift{Filename: "main.thrift"}
	main.Includes = []*parser.Include{{Path: "base.thrift", Reference: base}}
	main.Structs = []*parser.StructLike{
		{Category: "struct", Name: "InQ", Fields: []*parser.Field{
			aField(1, "x", parser.FieldType_Default, aType("i32")),
			aField(255, "Base", nreq, aType("base.Base")),
		}},
		{Category: "struct", Name: "InR", Fields: []*parser.Field{
			aField(1, "y", parser.FieldType_Default, aType("i32")),
			aField(255, "BaseResp", nreq, aType("base.BaseResp")),
		}},
		{Category: "struct", Name: "Req", Fields: []*parser.Field{
			aField(1, "q", parser.FieldType_Default, aType("InQ")),
			aField(255, "Base", parser.FieldType_Default, aType("base.Base")),
		}},
		{Category: "struct", Name: "Resp", Fields: []*parser.Field{
			aField(1, "r", parser.FieldType_Default, aType("InR")),
			aField(2, "rs", parser.FieldType_Default, aList(aType("InR"))),
			aField(255, "BaseResp", parser.FieldType_Default, aType("base.BaseResp")),
		}},
	}
	main.Services = []*parser.Service{{Name: "S", Functions: []*parser.Function{
		{Name: "Do", FunctionType: aType("Resp"), Arguments: []*parser.Field{aField(1, "req", parser.FieldType_Default, aType("Req"))}},
	}}}
	sd, err := parse(context.Background(), main, meta.LastServiceOnly, Options{EnableThriftBase: enable})
	vrt.Assert(err == nil && sd != nil, "C14.thriftbase.parse.noerror")
	if err != nil || sd == nil {
		return
	}
	vrt.Reach("parsed")
	fn := sd.Functions()["Do"]
	vrt.Assert(fn != nil, "C14.thriftbase.function.found")
	if fn == nil {
		return
	}
	wantReq := map[parser.FieldType]Requireness{parser.FieldType_Default: DefaultRequireness, parser.FieldType_Required: RequiredRequireness, parser.FieldType_Optional: OptionalRequireness}[nreq]
	nested := func(st *StructDescriptor, label string) {
		f := st.FieldById(255)
		vrt.Assert(f != nil, label+".field.found")
		if f == nil {
			return
		}
		vrt.Assert(!f.IsRequestBase() && !f.IsResponseBase(), label+".not-a-base-field")
		vrt.Assert(st.GetRequestBase() == nil && st.GetResponseBase() == nil, label+".no-base-accessor")
		vrt.Assert(f.Required() == wantReq, label+".requiredness")
		vrt.Assert(st.Requires().IsSet(255) == (wantReq != OptionalRequireness), label+".requires-bitmap")
		vrt.Assert(f.Type().Type() == STRUCT && f.Type().Struct().FieldById(1) != nil, label+".type")
	}
	rq := fn.Request().Struct().FieldById(1).Type().Struct()
	qb := rq.FieldById(255)
	vrt.Assert(qb != nil && qb.IsRequestBase() == enable && !qb.IsResponseBase(), "C14.thriftbase.request.root-base-field")
	vrt.Assert((rq.GetRequestBase() != nil) == enable, "C14.thriftbase.request.root-accessor")
	nested(rq.FieldById(1).Type().Struct(), "C14.thriftbase.request.nested")
	rs := fn.Response().Struct().FieldById(0).Type().Struct()
	rb := rs.FieldById(255)
	vrt.Assert(rb != nil && rb.IsResponseBase() == enable && !rb.IsRequestBase(), "C14.thriftbase.response.root-base-field")
	vrt.Assert((rs.GetResponseBase() != nil) == enable, "C14.thriftbase.response.root-accessor")
	nested(rs.FieldById(1).Type().Struct(), "C14.thriftbase.response.nested")
	nested(rs.FieldById(2).Type().Elem().Struct(), "C14.thriftbase.response.list-element")
}

// VerifParse exposes parse to harnesses of other packages (hand-built ASTs; thriftgo's symbol resolution, which
// those ASTs do not need, is skipped under the engine).
func VerifParse(tree *parser.Thrift, opts Options) (*ServiceDescriptor, error) {
	if vrt.Symbolic() {
		vrt.Redirect("github.com/cloudwego/thriftgo/semantic.ResolveSymbols", func(*parser.Thrift) error { return nil })
	}
	return parse(context.Background(), tree, meta.LastServiceOnly, opts)
}
