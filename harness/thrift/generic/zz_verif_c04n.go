package generic

import (
	vrt "github.com/cloudwego/dynamicgo/internal/zzverif"
	"github.com/cloudwego/dynamicgo/thrift"
)

func init() { vrt.Register("VerifC04_Nested", VerifC04_Nested) }

// verifC04Schema: S{1: list<i32> xs; 2: map<string,i32> m; 3: Inner in; 4: i32 z; 5: list<Inner> ins}, Inner{1: i32 a; 2: string b}
func verifC04Schema() *thrift.TypeDescriptor {
	inner := thrift.VerifStruct("Inner", thrift.Options{},
		thrift.VField{ID: 1, Name: "a", Type: thrift.VerifBasic(thrift.I32), Req: 2},
		thrift.VField{ID: 2, Name: "b", Type: thrift.VerifBasic(thrift.STRING), Req: 2})
	return thrift.VerifStruct("S", thrift.Options{},
		thrift.VField{ID: 1, Name: "xs", Type: thrift.VerifList(thrift.VerifBasic(thrift.I32)), Req: 2},
		thrift.VField{ID: 2, Name: "m", Type: thrift.VerifMap(thrift.VerifBasic(thrift.STRING), thrift.VerifBasic(thrift.I32)), Req: 2},
		thrift.VField{ID: 3, Name: "in", Type: inner, Req: 2},
		thrift.VField{ID: 4, Name: "z", Type: thrift.VerifBasic(thrift.I32), Req: 2},
		thrift.VField{ID: 5, Name: "ins", Type: thrift.VerifList(inner), Req: 2},
		thrift.VField{ID: 6, Name: "opt", Type: inner, Req: 2})
}

func verifInnerBytes(hasA, hasB bool) []byte {
	var b []byte
	if hasA {
		b = vrt.PutBE32(vrt.PutField(b, vrt.TI32, 1), int(int32(vrt.U32())))
	}
	if hasB {
		b = vrt.PutString(vrt.PutField(b, vrt.TSTRING, 2), vrt.Bytes(1))
	}
	return append(b, 0)
}

// VerifC04_Nested: multi-level edits.  The value of S carries CNT elements in each container; the edit
// addresses an element two or three levels down (TGT), through the untyped Node API (MODE 0), the typed Value
// API with field ids (MODE 1) or with field names (MODE 2); OP 0 = set, 1 = unset, 2 = ReplaceByPath (Node).
// Oracle: the reference decoder applied level by level: every top-level field other than the addressed one
// keeps its bytes, the addressed container differs from its original by exactly the edited element.
//   TGT 0: xs[i] (i symbolic in 0..CNT)   1: m[k] (k a symbolic 1-byte key)   2: in.a   3: in.b
//   TGT 4: ins[j].a (j symbolic < CNT)    5: ins[CNT] (append a whole Inner)
//   TGT 6: opt.a where the optional struct opt is absent (an absent INNER component: error, value unchanged)
//   TGT 7: ins[j] (a whole variable-width element, j symbolic < CNT)
func VerifC04_Nested() {
	cnt := vrt.Param("CNT")
	tgt := vrt.Param("TGT")
	op := vrt.Param("OP")
	mode := vrt.Param("MODE")
	desc := verifC04Schema()
	fld := func(id thrift.FieldID, name string) Path {
		if mode == 2 {
			return NewPathFieldName(name)
		}
		return NewPathFieldId(id)
	}
	// build the value
	var b []byte
	b = vrt.PutListHdr(vrt.PutField(b, vrt.TLIST, 1), vrt.TI32, cnt)
	for i := 0; i < cnt; i++ {
		b = vrt.PutBE32(b, int(int32(vrt.U32())))
	}
	b = vrt.PutMapHdr(vrt.PutField(b, vrt.TMAP, 2), vrt.TSTRING, vrt.TI32, cnt)
	keys := make([]byte, cnt)
	for i := 0; i < cnt; i++ {
		keys[i] = vrt.U8()
		for j := 0; j < i; j++ {
			vrt.Assume(keys[j] != keys[i])
		}
		b = vrt.PutBE32(vrt.PutString(b, []byte{keys[i]}), int(int32(vrt.U32())))
	}
	hasA, hasB := vrt.Bool(), vrt.Bool()
	b = append(vrt.PutField(b, vrt.TSTRUCT, 3), verifInnerBytes(hasA, hasB)...)
	b = vrt.PutBE32(vrt.PutField(b, vrt.TI32, 4), int(int32(vrt.U32())))
	b = vrt.PutListHdr(vrt.PutField(b, vrt.TLIST, 5), vrt.TSTRUCT, cnt)
	elemA := make([]bool, cnt)
	for i := 0; i < cnt; i++ {
		elemA[i] = vrt.Bool()
		b = append(b, verifInnerBytes(elemA[i], true)...)
	}
	b = append(b, 0)
	orig := verifSnapshot(b)
	top, ok := vrt.TChildren(orig, vrt.TSTRUCT, 4)
	vrt.Assume(ok && len(top) == 5)

	// the edit
	var path []Path
	var sub Node
	var subRaw []byte
	var present bool          // the addressed element exists
	var insertable bool = true // absent element may be inserted by set
	contField := 0            // index in top of the field holding the edited container
	var contType byte
	absentInner := false
	var lvl2 = -1 // for TGT 4: index of the element of ins that holds the edited struct
	elemIdx := -1
	var wantID int
	switch tgt {
	case 0:
		i := vrt.Conc(int(vrt.U8()) % (cnt + 1))
		path = []Path{fld(1, "xs"), NewPathIndex(i)}
		sub, subRaw = verifNewValue(vrt.TI32)
		present, contField, contType, elemIdx = i < cnt, 0, vrt.TLIST, i
	case 1:
		k := vrt.U8()
		path = []Path{fld(2, "m"), NewPathStrKey(string([]byte{k}))}
		sub, subRaw = verifNewValue(vrt.TI32)
		contField, contType = 1, vrt.TMAP
		for i := range keys {
			if keys[i] == k {
				present, elemIdx = true, i
			}
		}
		subRaw = append([]byte(nil), subRaw...)
		_ = k
	case 2:
		path = []Path{fld(3, "in"), fld(1, "a")}
		sub, subRaw = verifNewValue(vrt.TI32)
		present, contField, contType, wantID = hasA, 2, vrt.TSTRUCT, 1
	case 3:
		path = []Path{fld(3, "in"), fld(2, "b")}
		sub, subRaw = verifNewValue(vrt.TSTRING)
		present, contField, contType, wantID = hasB, 2, vrt.TSTRUCT, 2
	case 4:
		if cnt == 0 {
			vrt.Reach("skip")
			return
		}
		j := vrt.Conc(int(vrt.U8()) % cnt)
		path = []Path{fld(5, "ins"), NewPathIndex(j), fld(1, "a")}
		sub, subRaw = verifNewValue(vrt.TI32)
		present, contField, contType, lvl2, wantID = elemA[j], 4, vrt.TLIST, j, 1
	case 6:
		path = []Path{fld(6, "opt"), fld(1, "a")}
		sub, subRaw = verifNewValue(vrt.TI32)
		absentInner = true
	case 7:
		if cnt == 0 {
			vrt.Reach("skip")
			return
		}
		j := vrt.Conc(int(vrt.U8()) % cnt)
		path = []Path{fld(5, "ins"), NewPathIndex(j)}
		subRaw = []byte{vrt.TI32, 0, 1, 0, 0, 0, vrt.U8(), 0}
		sub = NewNode(thrift.STRUCT, subRaw)
		present, contField, contType, elemIdx = true, 4, vrt.TLIST, j
	case 5:
		path = []Path{fld(5, "ins"), NewPathIndex(cnt)}
		subRaw = []byte{vrt.TI32, 0, 1, 0, 0, 0, vrt.U8(), 0}
		sub = NewNode(thrift.STRUCT, subRaw)
		present, contField, contType, elemIdx = false, 4, vrt.TLIST, cnt
	}
	_ = insertable

	var r []byte
	var exist bool
	var err error
	switch {
	case op == 0 && mode == 0:
		n := NewNode(thrift.STRUCT, b)
		exist, err = n.SetByPath(sub, path...)
		r = n.Raw()
	case op == 0:
		v := NewValue(desc, b)
		var sd *thrift.TypeDescriptor
		switch sub.Type() {
		case thrift.I32:
			sd = thrift.VerifBasic(thrift.I32)
		case thrift.STRING:
			sd = thrift.VerifBasic(thrift.STRING)
		default:
			sd = desc.Struct().FieldById(3).Type()
		}
		exist, err = v.SetByPath(NewValue(sd, subRaw), path...)
		r = v.Raw()
	case op == 1 && mode == 0:
		n := NewNode(thrift.STRUCT, b)
		err = n.UnsetByPath(path...)
		r = n.Raw()
	case op == 1:
		v := NewValue(desc, b)
		err = v.UnsetByPath(path...)
		r = v.Raw()
	default:
		if mode != 0 {
			vrt.Reach("skip")
			return
		}
		n := NewNode(thrift.STRUCT, b)
		exist, err = n.ReplaceByPath(func(old Node) Node { return sub }, path...)
		r = n.Raw()
	}

	vrt.Dump("orig", orig)
	vrt.Dump("result", r)
	vrt.Dump("sub", subRaw)
	if err != nil {
		vrt.Dump("err", []byte(err.Error()))
	}
	// expectations
	if absentInner {
		vrt.Reach("absent-inner")
		if op != 1 {
			vrt.Assert(err != nil && !exist, "C04.nested.absent-inner.error")
		}
		vrt.Assert(vrt.BytesEq(r, 0, len(r), orig, 0, len(orig)), "C04.nested.absent-inner.unchanged")
		return
	}
	if op == 2 && !present {
		vrt.Reach("replace.absent")
		vrt.Assert(err != nil && !exist, "C04.nested.replace.absent.error")
		vrt.Assert(vrt.BytesEq(r, 0, len(r), orig, 0, len(orig)), "C04.nested.replace.absent.unchanged")
		return
	}
	if op == 1 && !present {
		// unsetting something absent changes nothing (an error result is allowed)
		vrt.Reach("unset.absent")
		vrt.Assert(vrt.BytesEq(r, 0, len(r), orig, 0, len(orig)), "C04.nested.unset.absent.unchanged")
		return
	}
	vrt.Assert(err == nil, "C04.nested.noerror")
	if err != nil {
		return
	}
	if op != 1 {
		vrt.Assert(exist == present, "C04.nested.exist-flag")
	}
	after, ok2 := vrt.TChildren(r, vrt.TSTRUCT, 4)
	vrt.Assert(ok2 && len(after) == 5, "C04.nested.wellformed")
	if !ok2 || len(after) != 5 {
		return
	}
	vrt.Reach("edited")
	for i := range top {
		if i == contField {
			continue
		}
		vrt.Assert(verifSameChild(orig, top[i], r, after[i]), "C04.nested.other-fields-unchanged")
	}
	vrt.Assert(after[contField].ID == top[contField].ID && after[contField].Typ == top[contField].Typ, "C04.nested.container-field")
	// level 2
	ob, ab := orig[top[contField].Start:top[contField].End], r[after[contField].Start:after[contField].End]
	before2, okb := vrt.TChildren(ob, contType, 3)
	after2, oka := vrt.TChildren(ab, contType, 3)
	vrt.Assert(okb && oka, "C04.nested.container-wellformed")
	if !okb || !oka {
		return
	}
	if lvl2 >= 0 {
		// the edited struct is element lvl2 of the list: the other elements keep their bytes, then descend
		vrt.Assert(len(after2) == len(before2), "C04.nested.level2.count")
		if len(after2) != len(before2) {
			return
		}
		for i := range before2 {
			if i != lvl2 {
				vrt.Assert(verifSameChild(ob, before2[i], ab, after2[i]), "C04.nested.level2.others-unchanged")
			}
		}
		ob, ab = ob[before2[lvl2].Start:before2[lvl2].End], ab[after2[lvl2].Start:after2[lvl2].End]
		before2, okb = vrt.TChildren(ob, vrt.TSTRUCT, 2)
		after2, oka = vrt.TChildren(ab, vrt.TSTRUCT, 2)
		vrt.Assert(okb && oka, "C04.nested.level3.wellformed")
		if !okb || !oka {
			return
		}
		contType = vrt.TSTRUCT
	}
	// locate the edited element before / after
	bi, ai := -1, -1
	switch contType {
	case vrt.TSTRUCT:
		for i := range before2 {
			if before2[i].ID == wantID {
				bi = i
			}
		}
		for i := range after2 {
			if after2[i].ID == wantID {
				ai = i
			}
		}
	case vrt.TLIST:
		if present {
			bi = elemIdx
		}
		if op != 1 {
			ai = elemIdx
		}
	case vrt.TMAP:
		if present {
			bi = elemIdx
		}
		if op != 1 {
			for i := range after2 {
				if after2[i].KEnd-after2[i].KStart == 5 && ab[after2[i].KStart+4] == path[1].str()[0] {
					ai = i
				}
			}
		}
	}
	vrt.Assert((bi >= 0) == present, "C04.nested.model-presence")
	if op == 1 {
		verifExceptOne(ob, before2, bi, ab, after2, -1, "C04.nested.unset")
		return
	}
	if contType == vrt.TLIST && !present {
		// the statement does not fix the position of the inserted element
		vrt.Assert(verifInsertedSomewhere(ob, before2, ab, after2, subRaw), "C04.nested.set.append.model")
		return
	}
	vrt.Assert(ai >= 0 && ai < len(after2), "C04.nested.set.present-after")
	if ai < 0 || ai >= len(after2) {
		return
	}
	vrt.Assert(vrt.BytesEq(ab, after2[ai].Start, after2[ai].End, subRaw, 0, len(subRaw)), "C04.nested.set.value")
	verifExceptOne(ob, before2, bi, ab, after2, ai, "C04.nested.set")
}
