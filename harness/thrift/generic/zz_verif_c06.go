package generic

import (
	vrt "github.com/cloudwego/dynamicgo/internal/zzverif"
	"github.com/cloudwego/dynamicgo/thrift"
)

func init() {
	vrt.Register("VerifC06_NodeReads", VerifC06_NodeReads)
	vrt.Register("VerifC06_Children", VerifC06_Children)
	vrt.Register("VerifC06_Interface", VerifC06_Interface)
}

// NewNode documents that it does not validate its input; it reads the element-type bytes
// of LIST/SET (1 byte) and MAP (2 bytes) headers unconditionally, so shorter buffers are
// outside its precondition.
func verifTooShortForNewNode(t thrift.Type, n int) bool {
	switch t {
	case thrift.LIST, thrift.SET:
		return n < 1
	case thrift.MAP:
		return n < 2
	}
	return false
}

func verifResultSane(got Node, b []byte, label string) {
	if got.IsError() {
		return
	}
	vrt.Assert(vrt.InBuf(got.Raw(), b), label)
}

// VerifC06_NodeReads: single-element generic reads on N arbitrary bytes taken as a value of type T.
func VerifC06_NodeReads() {
	b := vrt.Bytes(vrt.Param("N"))
	t := thrift.Type(vrt.Param("T"))
	if verifTooShortForNewNode(t, len(b)) {
		vrt.Reach("done")
		vrt.Reach("ok")
		vrt.Reach("err")
		return
	}
	node := NewNode(t, b)
	switch vrt.Param("OP") {
	case 0:
		id := thrift.FieldID(vrt.U16())
		verifResultSane(node.Field(id), b, "C06.generic.field.in-buffer")
		verifResultSane(node.GetByPath(NewPathFieldId(id)), b, "C06.generic.getbypath.field.in-buffer")
	case 1:
		i := vrt.Int()
		verifResultSane(node.Index(i), b, "C06.generic.index.in-buffer")
		verifResultSane(node.GetByPath(NewPathIndex(i)), b, "C06.generic.getbypath.index.in-buffer")
	case 2:
		k := vrt.Int()
		verifResultSane(node.GetByInt(k), b, "C06.generic.getbyint.in-buffer")
		verifResultSane(node.GetByPath(NewPathIntKey(k)), b, "C06.generic.getbypath.intkey.in-buffer")
	case 3:
		k := string(vrt.Bytes(1))
		verifResultSane(node.GetByStr(k), b, "C06.generic.getbystr.in-buffer")
		verifResultSane(node.GetByPath(NewPathStrKey(k)), b, "C06.generic.getbypath.strkey.in-buffer")
	case 4:
		k := vrt.Bytes(2)
		verifResultSane(node.GetByRaw(k), b, "C06.generic.getbyraw.in-buffer")
		verifResultSane(node.GetByPath(NewPathBinKey(k)), b, "C06.generic.getbypath.binkey.in-buffer")
	}
	vrt.Reach("done")
}

// VerifC06_Children: Children (lazy and recursive) on arbitrary bytes.
func VerifC06_Children() {
	b := vrt.Bytes(vrt.Param("N"))
	t := thrift.Type(vrt.Param("T"))
	if verifTooShortForNewNode(t, len(b)) {
		vrt.Reach("done")
		vrt.Reach("ok")
		vrt.Reach("err")
		return
	}
	node := NewNode(t, b)
	var out []PathNode
	opts := &Options{}
	err := node.Children(&out, vrt.Param("REC") != 0, opts)
	if err == nil {
		vrt.Reach("ok")
		for i := range out {
			if !out[i].Node.IsError() && out[i].Node.Type() != 0 {
				vrt.Assert(vrt.InBuf(out[i].Node.Raw(), b), "C06.generic.children.in-buffer")
			}
		}
	} else {
		vrt.Reach("err")
	}
}

// VerifC06_Interface: conversion to Go values on arbitrary bytes.
func VerifC06_Interface() {
	b := vrt.Bytes(vrt.Param("N"))
	t := thrift.Type(vrt.Param("T"))
	if verifTooShortForNewNode(t, len(b)) {
		vrt.Reach("done")
		vrt.Reach("ok")
		vrt.Reach("err")
		return
	}
	node := NewNode(t, b)
	_, err := node.Interface(&Options{})
	if err == nil {
		vrt.Reach("ok")
	} else {
		vrt.Reach("err")
	}
}

func init() { vrt.Register("VerifC06_TypedReads", VerifC06_TypedReads) }

// VerifC06_TypedReads: the typed (descriptor-carrying) reads on N arbitrary bytes taken as a value of
// S{1: list<i32> xs; 2: map<string,i32> m; 3: Inner in; 4: i32 z; 5: list<Inner> ins; 6: Inner opt}: lookups by
// field id and by field NAME (one and two steps), FieldByName, Foreach.
func VerifC06_TypedReads() {
	b := vrt.Bytes(vrt.Param("N"))
	v := NewValue(verifC04Schema(), b)
	sane := func(got Value, label string) {
		if !got.IsError() {
			vrt.Assert(vrt.InBuf(got.Raw(), b), label)
		}
	}
	switch vrt.Param("OP") {
	case 0:
		sane(v.GetByPath(NewPathFieldName("z")), "C06.typed.byname.in-buffer")
		sane(v.FieldByName("xs"), "C06.typed.fieldbyname.in-buffer")
	case 1:
		sane(v.GetByPath(NewPathFieldName("in"), NewPathFieldName("b")), "C06.typed.byname.nested.in-buffer")
		sane(v.GetByPath(NewPathFieldId(3), NewPathFieldId(2)), "C06.typed.byid.nested.in-buffer")
	case 2:
		sane(v.GetByPath(NewPathFieldName("m"), NewPathStrKey(string(vrt.Bytes(1)))), "C06.typed.byname.mapkey.in-buffer")
		sane(v.GetByPath(NewPathFieldName("ins"), NewPathIndex(vrt.Int()), NewPathFieldName("a")), "C06.typed.byname.list-element.in-buffer")
	case 3:
		_ = v.Foreach(func(p Path, e Value) bool {
			sane(e, "C06.typed.foreach.in-buffer")
			return true
		}, &Options{})
	}
	vrt.Reach("done")
}
