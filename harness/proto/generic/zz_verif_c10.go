package generic

import (
	vrt "github.com/cloudwego/dynamicgo/internal/zzverif"
	"github.com/cloudwego/dynamicgo/proto"
	gpw "google.golang.org/protobuf/encoding/protowire"
)

func init() {
	vrt.Register("VerifC10_SetField", VerifC10_SetField)
	vrt.Register("VerifC10_UnsetField", VerifC10_UnsetField)
	vrt.Register("VerifC10_SetElem", VerifC10_SetElem)
	vrt.Register("VerifC10_UnsetElem", VerifC10_UnsetElem)
	vrt.Register("VerifC10_SetKey", VerifC10_SetKey)
	vrt.Register("VerifC10_UnsetKey", VerifC10_UnsetKey)
	vrt.Register("VerifC10_LoadMarshal", VerifC10_LoadMarshal)
}

// schema: Inner{ sint64 x=1; string y=2; repeated int32 p=3 [packed]; repeated string r=4; map<string,int32> ms=5; map<int32,string> mi=6 }
//         Outer{ int32 a=1; string s=2; Inner in=3; repeated string rs=4; repeated int32 rp=5 [packed]; map<string,int32> ms=6; map<int32,string> mi=7 }
func verifC10Inner() *proto.TypeDescriptor {
	m := proto.VerifNewMessage("Inner")
	proto.VerifAddField(m, 1, "x", "x", proto.VerifBasic(proto.SINT64), false)
	proto.VerifAddField(m, 2, "y", "y", proto.VerifBasic(proto.STRING), false)
	proto.VerifAddField(m, 3, "p", "p", proto.VerifBasic(proto.INT32), true)
	proto.VerifAddField(m, 4, "r", "r", proto.VerifBasic(proto.STRING), true)
	proto.VerifAddMap(m, 5, "ms", "ms", proto.VerifBasic(proto.STRING), proto.VerifBasic(proto.INT32))
	proto.VerifAddMap(m, 6, "mi", "mi", proto.VerifBasic(proto.INT32), proto.VerifBasic(proto.STRING))
	return proto.VerifBuild(m)
}

func verifC10Outer() *proto.TypeDescriptor {
	m := proto.VerifNewMessage("Outer")
	proto.VerifAddField(m, 1, "a", "a", proto.VerifBasic(proto.INT32), false)
	proto.VerifAddField(m, 2, "s", "s", proto.VerifBasic(proto.STRING), false)
	proto.VerifAddField(m, 3, "in", "in", verifC10Inner(), false)
	proto.VerifAddField(m, 4, "rs", "rs", proto.VerifBasic(proto.STRING), true)
	proto.VerifAddField(m, 5, "rp", "rp", proto.VerifBasic(proto.INT32), true)
	proto.VerifAddMap(m, 6, "ms", "ms", proto.VerifBasic(proto.STRING), proto.VerifBasic(proto.INT32))
	proto.VerifAddMap(m, 7, "mi", "mi", proto.VerifBasic(proto.INT32), proto.VerifBasic(proto.STRING))
	return proto.VerifBuild(m)
}

var verifC10EntrySchema = &vrt.PSchema{}
var verifC10InnerSchema = &vrt.PSchema{
	Sub:    map[int]*vrt.PSchema{5: verifC10EntrySchema, 6: verifC10EntrySchema},
	Packed: map[int]bool{3: true},
}
var verifC10OuterSchema = &vrt.PSchema{
	Sub:    map[int]*vrt.PSchema{3: verifC10InnerSchema, 6: verifC10EntrySchema, 7: verifC10EntrySchema},
	Packed: map[int]bool{5: true},
}

// verifC10Msg is the model of one message of the container shape shared by Inner (base 0) and
// Outer (base 1): field numbers of the repeated / map fields are 3+base .. 6+base.
type verifC10Msg struct {
	hasA bool // Outer.a / Inner.x
	a    uint64
	hasS bool // Outer.s / Inner.y
	s    []byte
	rs   [][]byte // repeated string
	rp   []uint64 // packed repeated int32 (sign-extended)
	msK  [][]byte // map<string,int32>
	msV  []uint64
	miK  []uint64 // map<int32,string>
	miV  [][]byte
}

func verifSmallI32() uint64 {
	v := uint64(int64(int32(vrt.U32())))
	vrt.Assume(v < 128)
	return v
}

// verifC10Draw draws a message: symbolic presence of the scalars, NRS/NRP/NMS/NMI container sizes.
func verifC10Draw(slen, nrs, nrp, nms, nmi int, keyDistinct bool) verifC10Msg {
	var m verifC10Msg
	m.hasA = vrt.Bool()
	m.a = verifSmallI32()
	m.hasS = vrt.Bool()
	m.s = verifC10Str(slen)
	for i := 0; i < nrs; i++ {
		m.rs = append(m.rs, verifC10Str(1))
	}
	for i := 0; i < nrp; i++ {
		m.rp = append(m.rp, verifSmallI32())
	}
	for i := 0; i < nms; i++ {
		m.msK = append(m.msK, []byte{'k', byte('0' + i)})
		m.msV = append(m.msV, verifSmallI32())
	}
	for i := 0; i < nmi; i++ {
		m.miK = append(m.miK, uint64(10+i))
		m.miV = append(m.miV, verifC10Str(1))
	}
	return m
}

// verifC10Str: n bytes, the first symbolic ASCII, the rest filler.
func verifC10Str(n int) []byte {
	b := make([]byte, n)
	for i := range b {
		b[i] = 'z'
	}
	if n > 0 {
		b[0] = vrt.U8() & 0x7f
	}
	return b
}

// verifC10Enc encodes the model the way protobuf-go does (field-number order); base is 0 for
// Inner and 1 for Outer; nested is the already encoded Inner (Outer only, nil = absent).
func verifC10Enc(m verifC10Msg, base int, zigzagA bool, nested []byte, hasNested bool) []byte {
	var b []byte
	if m.hasA {
		v := m.a
		if zigzagA {
			v = gpw.EncodeZigZag(int64(m.a))
		}
		b = gpw.AppendVarint(gpw.AppendTag(b, 1, gpw.VarintType), v)
	}
	if m.hasS {
		b = gpw.AppendBytes(gpw.AppendTag(b, 2, gpw.BytesType), m.s)
	}
	if hasNested {
		b = gpw.AppendBytes(gpw.AppendTag(b, 3, gpw.BytesType), nested)
	}
	if base == 0 {
		// Inner: p=3 packed, r=4
		if len(m.rp) > 0 {
			var p []byte
			for _, v := range m.rp {
				p = gpw.AppendVarint(p, v)
			}
			b = gpw.AppendBytes(gpw.AppendTag(b, 3, gpw.BytesType), p)
		}
		for _, s := range m.rs {
			b = gpw.AppendBytes(gpw.AppendTag(b, 4, gpw.BytesType), s)
		}
	} else {
		for _, s := range m.rs {
			b = gpw.AppendBytes(gpw.AppendTag(b, 4, gpw.BytesType), s)
		}
		if len(m.rp) > 0 {
			var p []byte
			for _, v := range m.rp {
				p = gpw.AppendVarint(p, v)
			}
			b = gpw.AppendBytes(gpw.AppendTag(b, 5, gpw.BytesType), p)
		}
	}
	for i := range m.msK {
		var e []byte
		e = gpw.AppendBytes(gpw.AppendTag(e, 1, gpw.BytesType), m.msK[i])
		e = gpw.AppendVarint(gpw.AppendTag(e, 2, gpw.VarintType), m.msV[i])
		b = gpw.AppendBytes(gpw.AppendTag(b, gpw.Number(5+base), gpw.BytesType), e)
	}
	for i := range m.miK {
		var e []byte
		e = gpw.AppendVarint(gpw.AppendTag(e, 1, gpw.VarintType), m.miK[i])
		e = gpw.AppendBytes(gpw.AppendTag(e, 2, gpw.BytesType), m.miV[i])
		b = gpw.AppendBytes(gpw.AppendTag(b, gpw.Number(6+base), gpw.BytesType), e)
	}
	return b
}

// verifC10Pair: LEVEL 0 edits the Outer message itself, LEVEL 1 edits the Inner message nested
// in it.  Returns the encoded root, the path prefix to the edited message and an encoder of the
// expected root for an edited model.
type verifC10Env struct {
	level  int
	outer  verifC10Msg
	inner  verifC10Msg
	hasIn  bool
	prefix []Path
}

func (e *verifC10Env) target() *verifC10Msg {
	if e.level == 0 {
		return &e.outer
	}
	return &e.inner
}

func (e *verifC10Env) encode() []byte {
	var in []byte
	if e.hasIn {
		in = verifC10Enc(e.inner, 0, true, nil, false)
	}
	return verifC10Enc(e.outer, 1, false, in, e.hasIn)
}

// fn maps the logical container to its field number at the edited level.
func (e *verifC10Env) fn(logical int) proto.FieldNumber {
	// logical: 1 scalar, 2 string, 4 rs, 5 rp, 6 ms, 7 mi (Outer numbering)
	if e.level == 0 || logical <= 2 {
		return proto.FieldNumber(logical)
	}
	switch logical {
	case 4:
		return 4
	case 5:
		return 3
	}
	return proto.FieldNumber(logical - 1)
}

func verifC10NewEnv(level, slen, nrs, nrp, nms, nmi int) *verifC10Env {
	e := &verifC10Env{level: level}
	if level == 0 {
		e.outer = verifC10Draw(slen, nrs, nrp, nms, nmi, true)
		e.hasIn = vrt.Bool()
		e.inner = verifC10Draw(1, 0, 0, 0, 0, true)
	} else {
		e.outer = verifC10Draw(1, 0, 0, 0, 0, true)
		// a trailing sibling after the nested message
		e.outer.rs = [][]byte{verifC10Str(1)}
		e.hasIn = true
		e.inner = verifC10Draw(slen, nrs, nrp, nms, nmi, true)
		e.prefix = []Path{NewPathFieldId(3)}
	}
	return e
}

func (e *verifC10Env) path(p ...Path) []Path {
	return append(append([]Path{}, e.prefix...), p...)
}

func verifC10Check(v *Value, want []byte, label string) {
	got := v.Raw()
	vrt.Dump(label+" want", want)
	vrt.Dump(label+" got ", got)
	_, ok := vrt.PFields(got)
	vrt.Assert(ok, label+".well-formed")
	if ok {
		vrt.Assert(vrt.PEq(want, got, verifC10OuterSchema, 3), label+".equals-model")
	}
}

// VerifC10_SetField: set the scalar / string field (present or absent) of the root or nested message.
func VerifC10_SetField() {
	level := vrt.Param("LEVEL")
	slen := vrt.Param("SLEN")
	nlen := vrt.Param("NLEN")
	which := vrt.Param("WHICH") // 1 scalar, 2 string
	byName := vrt.Bool()
	e := verifC10NewEnv(level, slen, 1, 1, 0, 0)
	src := e.encode()
	v := NewRootValue(verifC10Outer(), src)
	t := e.target()
	var sub Node
	var last Path
	was := false
	if which == 1 {
		nv := uint64(int64(int32(vrt.U32())))
		if level == 0 {
			sub = NewNodeInt32(int32(nv))
			last = NewPathFieldId(1)
			if byName {
				last = NewPathFieldName("a")
			}
		} else {
			nv = vrt.U64()
			sub = NewNodeSint64(int64(nv))
			last = NewPathFieldId(1)
			if byName {
				last = NewPathFieldName("x")
			}
		}
		was = t.hasA
		t.hasA, t.a = true, nv
	} else {
		ns := verifC10Str(nlen)
		sub = NewNodeString(string(ns))
		last = NewPathFieldId(2)
		if byName {
			if level == 0 {
				last = NewPathFieldName("s")
			} else {
				last = NewPathFieldName("y")
			}
		}
		was = t.hasS
		t.hasS, t.s = true, ns
	}
	exist, err := v.SetByPath(sub, e.path(last)...)
	vrt.Assert(err == nil, "C10.set.field.noerror")
	if err != nil {
		return
	}
	vrt.Reach("set")
	vrt.Assert(exist == was, "C10.set.field.exist-flag")
	verifC10Check(&v, e.encode(), "C10.set.field")
}

// VerifC10_UnsetField: unset a scalar / string / nested / whole repeated / whole map field.
func VerifC10_UnsetField() {
	level := vrt.Param("LEVEL")
	slen := vrt.Param("SLEN")
	which := vrt.Param("WHICH") // 1 scalar, 2 string, 3 nested (level 0), 4 rs, 5 rp, 6 ms, 7 mi
	e := verifC10NewEnv(level, slen, 2, 2, 1, 1)
	src := e.encode()
	v := NewRootValue(verifC10Outer(), src)
	t := e.target()
	var last Path
	was := true
	pth := e.path
	switch which {
	case 1:
		last = NewPathFieldId(1)
		was = t.hasA
		t.hasA = false
	case 2:
		last = NewPathFieldId(2)
		was = t.hasS
		t.hasS = false
	case 3:
		// the whole nested message, addressed from the root
		last = NewPathFieldId(3)
		was = e.hasIn
		e.hasIn = false
		pth = func(p ...Path) []Path { return p }
	case 4:
		last = NewPathFieldId(e.fn(4))
		t.rs = nil
	case 5:
		last = NewPathFieldId(e.fn(5))
		t.rp = nil
	case 6:
		last = NewPathFieldId(e.fn(6))
		t.msK, t.msV = nil, nil
	case 7:
		last = NewPathFieldId(e.fn(7))
		t.miK, t.miV = nil, nil
	}
	err := v.UnsetByPath(pth(last)...)
	if !was {
		// nothing to remove: an error or an unchanged message
		vrt.Reach("absent")
		if err == nil {
			verifC10Check(&v, e.encode(), "C10.unset.field.absent")
		}
		return
	}
	vrt.Assert(err == nil, "C10.unset.field.noerror")
	if err != nil {
		return
	}
	vrt.Reach("unset")
	verifC10Check(&v, e.encode(), "C10.unset.field")
}

// VerifC10_SetElem: set element IDX of a repeated string / packed int32 field holding CNT elements
// (IDX == CNT appends).
func VerifC10_SetElem() {
	level := vrt.Param("LEVEL")
	packed := vrt.Param("PACKED") == 1
	cnt := vrt.Param("CNT")
	idx := vrt.Param("IDX")
	var e *verifC10Env
	if packed {
		e = verifC10NewEnv(level, 1, 1, cnt, 0, 0)
	} else {
		e = verifC10NewEnv(level, 1, cnt, 1, 0, 0)
	}
	src := e.encode()
	v := NewRootValue(verifC10Outer(), src)
	t := e.target()
	var sub Node
	var fn proto.FieldNumber
	if packed {
		nv := uint64(int64(int32(vrt.U32())))
		sub = NewNodeInt32(int32(nv))
		fn = e.fn(5)
		if idx < cnt {
			t.rp[idx] = nv
		} else {
			t.rp = append(t.rp, nv)
		}
	} else {
		ns := verifC10Str(vrt.Param("NLEN"))
		sub = NewNodeString(string(ns))
		fn = e.fn(4)
		if idx < cnt {
			t.rs[idx] = ns
		} else {
			t.rs = append(t.rs, ns)
		}
	}
	exist, err := v.SetByPath(sub, e.path(NewPathFieldId(fn), NewPathIndex(idx))...)
	vrt.Assert(err == nil, "C10.set.elem.noerror")
	if err != nil {
		return
	}
	vrt.Reach("set")
	vrt.Assert(exist == (idx < cnt), "C10.set.elem.exist-flag")
	verifC10Check(&v, e.encode(), "C10.set.elem")
}

// VerifC10_UnsetElem: unset element IDX of a repeated field with CNT elements.
func VerifC10_UnsetElem() {
	level := vrt.Param("LEVEL")
	packed := vrt.Param("PACKED") == 1
	cnt := vrt.Param("CNT")
	idx := vrt.Param("IDX")
	var e *verifC10Env
	if packed {
		e = verifC10NewEnv(level, 1, 1, cnt, 0, 0)
	} else {
		e = verifC10NewEnv(level, 1, cnt, 1, 0, 0)
	}
	src := e.encode()
	v := NewRootValue(verifC10Outer(), src)
	t := e.target()
	var fn proto.FieldNumber
	if packed {
		fn = e.fn(5)
		if idx < cnt {
			t.rp = append(append([]uint64{}, t.rp[:idx]...), t.rp[idx+1:]...)
		}
	} else {
		fn = e.fn(4)
		if idx < cnt {
			t.rs = append(append([][]byte{}, t.rs[:idx]...), t.rs[idx+1:]...)
		}
	}
	err := v.UnsetByPath(e.path(NewPathFieldId(fn), NewPathIndex(idx))...)
	if idx >= cnt {
		// nothing to remove: either an error or an unchanged message
		if err != nil {
			vrt.Reach("absent")
			return
		}
		vrt.Reach("absent")
		verifC10Check(&v, e.encode(), "C10.unset.elem.absent")
		return
	}
	vrt.Assert(err == nil, "C10.unset.elem.noerror")
	if err != nil {
		return
	}
	vrt.Reach("unset")
	verifC10Check(&v, e.encode(), "C10.unset.elem")
}

// VerifC10_SetKey: set a map entry (existing key KI < CNT, or an absent key) of map<string,int32> / map<int32,string>.
func VerifC10_SetKey() {
	level := vrt.Param("LEVEL")
	strKey := vrt.Param("STRKEY") == 1
	cnt := vrt.Param("CNT")
	ki := vrt.Param("KI")
	var e *verifC10Env
	if strKey {
		e = verifC10NewEnv(level, 1, 0, 0, cnt, 1)
	} else {
		e = verifC10NewEnv(level, 1, 0, 0, 1, cnt)
	}
	src := e.encode()
	v := NewRootValue(verifC10Outer(), src)
	t := e.target()
	var sub Node
	var pth []Path
	if strKey {
		nv := uint64(int64(int32(vrt.U32())))
		sub = NewNodeInt32(int32(nv))
		key := []byte{'k', byte('0' + ki)}
		if ki < cnt {
			t.msV[ki] = nv
		} else {
			t.msK = append(t.msK, key)
			t.msV = append(t.msV, nv)
		}
		pth = e.path(NewPathFieldId(e.fn(6)), NewPathStrKey(string(key)))
	} else {
		ns := verifC10Str(vrt.Param("NLEN"))
		sub = NewNodeString(string(ns))
		key := uint64(10 + ki)
		if ki < cnt {
			t.miV[ki] = ns
		} else {
			t.miK = append(t.miK, key)
			t.miV = append(t.miV, ns)
		}
		pth = e.path(NewPathFieldId(e.fn(7)), NewPathIntKey(int(key)))
	}
	exist, err := v.SetByPath(sub, pth...)
	vrt.Assert(err == nil, "C10.set.key.noerror")
	if err != nil {
		return
	}
	vrt.Reach("set")
	vrt.Assert(exist == (ki < cnt), "C10.set.key.exist-flag")
	verifC10Check(&v, e.encode(), "C10.set.key")
}

// VerifC10_UnsetKey: unset a map entry (existing or absent key).
func VerifC10_UnsetKey() {
	level := vrt.Param("LEVEL")
	strKey := vrt.Param("STRKEY") == 1
	cnt := vrt.Param("CNT")
	ki := vrt.Param("KI")
	var e *verifC10Env
	if strKey {
		e = verifC10NewEnv(level, 1, 0, 0, cnt, 1)
	} else {
		e = verifC10NewEnv(level, 1, 0, 0, 1, cnt)
	}
	src := e.encode()
	v := NewRootValue(verifC10Outer(), src)
	t := e.target()
	var pth []Path
	if strKey {
		key := []byte{'k', byte('0' + ki)}
		if ki < cnt {
			t.msK = append(append([][]byte{}, t.msK[:ki]...), t.msK[ki+1:]...)
			t.msV = append(append([]uint64{}, t.msV[:ki]...), t.msV[ki+1:]...)
		}
		pth = e.path(NewPathFieldId(e.fn(6)), NewPathStrKey(string(key)))
	} else {
		key := uint64(10 + ki)
		if ki < cnt {
			t.miK = append(append([]uint64{}, t.miK[:ki]...), t.miK[ki+1:]...)
			t.miV = append(append([][]byte{}, t.miV[:ki]...), t.miV[ki+1:]...)
		}
		pth = e.path(NewPathFieldId(e.fn(7)), NewPathIntKey(int(key)))
	}
	err := v.UnsetByPath(pth...)
	if ki >= cnt {
		vrt.Reach("absent")
		if err == nil {
			verifC10Check(&v, e.encode(), "C10.unset.key.absent")
		}
		return
	}
	vrt.Assert(err == nil, "C10.unset.key.noerror")
	if err != nil {
		return
	}
	vrt.Reach("unset")
	verifC10Check(&v, e.encode(), "C10.unset.key")
}

// VerifC10_LoadMarshal: PathNode.Load (recursive) + Marshal reproduces the message.
func VerifC10_LoadMarshal() {
	e := verifC10NewEnv(1, 1, vrt.Param("NRS"), vrt.Param("NRP"), vrt.Param("NMS"), vrt.Param("NMI"))
	// containers at the root as well (their children are inspected below)
	for i := 0; i < vrt.Param("NMS"); i++ {
		e.outer.msK = append(e.outer.msK, []byte{'k', byte('0' + i)})
		e.outer.msV = append(e.outer.msV, verifSmallI32())
	}
	for i := 0; i < vrt.Param("NMI"); i++ {
		e.outer.miK = append(e.outer.miK, uint64(10+i))
		e.outer.miV = append(e.outer.miV, verifC10Str(1))
	}
	src := e.encode()
	desc := verifC10Outer()
	v := NewRootValue(desc, src)
	opts := &Options{}
	pn := PathNode{Node: v.Node}
	err := pn.Load(vrt.Param("REC") == 1, opts, desc)
	vrt.Assert(err == nil, "C10.load.noerror")
	if err != nil {
		return
	}
	// the children of the loaded tree are usable nodes: a map / list child reads its entries with the
	// declared key and element kinds (lazy children carry them from the descriptor)
	for i := range pn.Next {
		c := &pn.Next[i]
		if c.Path.Type() != PathFieldId {
			continue
		}
		switch c.Path.id() {
		case 6:
			if len(e.outer.msK) > 0 {
				n := c.Node.GetByStr(string(e.outer.msK[0]))
				v, err := n.Int()
				vrt.Assert(err == nil && uint64(int64(v)) == e.outer.msV[0], "C10.load.child.map-string-key.value")
			}
		case 7:
			if len(e.outer.miK) > 0 {
				n := c.Node.GetByInt(int(e.outer.miK[0]))
				v, err := n.String()
				vrt.Assert(err == nil && v == string(e.outer.miV[0]), "C10.load.child.map-int-key.value")
			}
		case 4:
			if len(e.outer.rs) > 0 {
				n := c.Node.Index(0)
				v, err := n.String()
				vrt.Assert(err == nil && v == string(e.outer.rs[0]), "C10.load.child.list.value")
			}
		}
	}
	out, err := pn.Marshal(opts)
	vrt.Assert(err == nil, "C10.marshal.noerror")
	if err != nil {
		return
	}
	vrt.Reach("marshalled")
	vrt.Dump("C10.load-marshal in ", src)
	vrt.Dump("C10.load-marshal out", out)
	_, ok := vrt.PFields(out)
	vrt.Assert(ok, "C10.load-marshal.well-formed")
	if ok {
		vrt.Assert(vrt.PEq(src, out, verifC10OuterSchema, 3), "C10.load-marshal.equals-input")
	}
}

func init() { vrt.Register("VerifC10_Deep", VerifC10_Deep) }

// VerifC10_Deep: Outer2{ map<string,In2> mm=MFN; repeated In2 lm=LFN; string t=3 }, In2{ string y=1; int32 x=2 },
// optionally (WRAP=1) nested in Top{ Outer2 o=1; string z=2 }.  Edits below a map value / list element:
// SetByPath / UnsetByPath of y or x of entry / element SEL of CNT.  MFN / LFN of 16 and above give 2-byte tags.
func VerifC10_Deep() {
	viaMap := vrt.Param("VIAMAP") == 1
	cnt := vrt.Param("CNT")
	sel := vrt.Param("SEL")
	op := vrt.Param("OP") // 0 set y, 1 set x, 2 unset y, 3 unset x
	slen := vrt.Param("SLEN")
	nlen := vrt.Param("NLEN")
	wrap := vrt.Param("WRAP") == 1
	big := vrt.Param("BIGFN") == 1
	mfn, lfn := 1, 2
	if big {
		mfn, lfn = 16, 17
	}
	in2 := proto.VerifNewMessage("In2")
	proto.VerifAddField(in2, 1, "y", "y", proto.VerifBasic(proto.STRING), false)
	proto.VerifAddField(in2, 2, "x", "x", proto.VerifBasic(proto.INT32), false)
	proto.VerifBuild(in2)
	outer := proto.VerifNewMessage("Outer2")
	proto.VerifAddMap(outer, proto.FieldNumber(mfn), "mm", "mm", proto.VerifBasic(proto.STRING), in2)
	proto.VerifAddField(outer, proto.FieldNumber(lfn), "lm", "lm", in2, true)
	proto.VerifAddField(outer, 3, "t", "t", proto.VerifBasic(proto.STRING), false)
	proto.VerifBuild(outer)
	root := outer
	schema := &vrt.PSchema{Sub: map[int]*vrt.PSchema{
		mfn: {Sub: map[int]*vrt.PSchema{2: {}}},
		lfn: {},
	}}
	if wrap {
		top := proto.VerifNewMessage("Top")
		proto.VerifAddField(top, 1, "o", "o", outer, false)
		proto.VerifAddField(top, 2, "z", "z", proto.VerifBasic(proto.STRING), false)
		proto.VerifBuild(top)
		root = top
		schema = &vrt.PSchema{Sub: map[int]*vrt.PSchema{1: schema}}
	}
	type in2v struct {
		hasY, hasX bool
		y          []byte
		x          uint64
	}
	vals := make([]in2v, cnt)
	for i := range vals {
		vals[i] = in2v{hasY: vrt.Bool(), hasX: vrt.Bool(), y: verifC10Str(slen), x: verifSmallI32()}
		if i != sel {
			vals[i].y = verifC10Str(1)
		}
	}
	tv := verifC10Str(1)
	enc := func() []byte {
		var b []byte
		for i, v := range vals {
			var m []byte
			if v.hasY {
				m = gpw.AppendBytes(gpw.AppendTag(m, 1, gpw.BytesType), v.y)
			}
			if v.hasX {
				m = gpw.AppendVarint(gpw.AppendTag(m, 2, gpw.VarintType), v.x)
			}
			if viaMap {
				var e []byte
				e = gpw.AppendBytes(gpw.AppendTag(e, 1, gpw.BytesType), []byte{'k', byte('0' + i)})
				e = gpw.AppendBytes(gpw.AppendTag(e, 2, gpw.BytesType), m)
				b = gpw.AppendBytes(gpw.AppendTag(b, gpw.Number(mfn), gpw.BytesType), e)
			} else {
				b = gpw.AppendBytes(gpw.AppendTag(b, gpw.Number(lfn), gpw.BytesType), m)
			}
		}
		// protobuf-go orders by field number: t=3 comes first when the containers have numbers >= 16
		if big {
			b = append(gpw.AppendBytes(gpw.AppendTag(nil, 3, gpw.BytesType), tv), b...)
		} else {
			b = gpw.AppendBytes(gpw.AppendTag(b, 3, gpw.BytesType), tv)
		}
		if wrap {
			b = gpw.AppendBytes(gpw.AppendTag(nil, 1, gpw.BytesType), b)
			b = gpw.AppendBytes(gpw.AppendTag(b, 2, gpw.BytesType), []byte{'z'})
		}
		return b
	}
	src := enc()
	v := NewRootValue(root, src)
	var pth []Path
	if wrap {
		pth = append(pth, NewPathFieldId(1))
	}
	if viaMap {
		pth = append(pth, NewPathFieldId(proto.FieldNumber(mfn)), NewPathStrKey(string([]byte{'k', byte('0' + sel)})))
	} else {
		pth = append(pth, NewPathFieldId(proto.FieldNumber(lfn)), NewPathIndex(sel))
	}
	t := &vals[sel]
	was := true
	var err error
	switch op {
	case 0:
		ns := verifC10Str(nlen)
		t.hasY, t.y = true, ns
		_, err = v.SetByPath(NewNodeString(string(ns)), append(pth, NewPathFieldId(1))...)
	case 1:
		nv := uint64(int64(int32(vrt.U32())))
		t.hasX, t.x = true, nv
		_, err = v.SetByPath(NewNodeInt32(int32(nv)), append(pth, NewPathFieldId(2))...)
	case 2:
		was = t.hasY
		t.hasY = false
		err = v.UnsetByPath(append(pth, NewPathFieldId(1))...)
	case 3:
		was = t.hasX
		t.hasX = false
		err = v.UnsetByPath(append(pth, NewPathFieldId(2))...)
	}
	if !was {
		vrt.Reach("absent")
		if err != nil {
			return
		}
	}
	vrt.Assert(err == nil, "C10.deep.noerror")
	if err != nil {
		return
	}
	vrt.Reach("edited")
	got := v.Raw()
	want := enc()
	vrt.Dump("C10.deep want", want)
	vrt.Dump("C10.deep got ", got)
	_, ok := vrt.PFields(got)
	vrt.Assert(ok, "C10.deep.well-formed")
	if ok {
		vrt.Assert(vrt.PEq(want, got, schema, 5), "C10.deep.equals-model")
	}
}

func init() { vrt.Register("VerifC10_SetMany", VerifC10_SetMany) }

// VerifC10_SetMany: set the scalar and the string field (each present or absent) of the root
// (LEVEL 0) or of the nested message (LEVEL 1, the way the package's tests address it) in one call.
func VerifC10_SetMany() {
	level := vrt.Param("LEVEL")
	slen := vrt.Param("SLEN")
	nlen := vrt.Param("NLEN")
	e := verifC10NewEnv(level, slen, 1, 1, 0, 0)
	src := e.encode()
	v := NewRootValue(verifC10Outer(), src)
	t := e.target()
	opts := &Options{}
	ns := verifC10Str(nlen)
	var n1 Node
	if level == 0 {
		nv := uint64(int64(int32(vrt.U32())))
		n1 = NewNodeInt32(int32(nv))
		t.hasA, t.a = true, nv
	} else {
		nv := vrt.U64()
		n1 = NewNodeSint64(int64(nv))
		t.hasA, t.a = true, nv
	}
	t.hasS, t.s = true, ns
	pns := []PathNode{
		{Path: NewPathFieldId(1), Node: n1},
		{Path: NewPathFieldId(2), Node: NewNodeString(string(ns))},
	}
	var err error
	if level == 0 {
		err = v.SetMany(pns, opts, &v, []int{})
	} else {
		inner, addr := v.GetByPathWithAddress(NewPathFieldId(3))
		vrt.Assert(!inner.IsError(), "C10.setmany.nested-found")
		if inner.IsError() {
			return
		}
		// the last element of path and address is only a flag (see TestSetMany)
		err = inner.SetMany(pns, opts, &v, append(addr, 0), NewPathFieldId(3), NewPathFieldId(1024))
	}
	vrt.Assert(err == nil, "C10.setmany.noerror")
	if err != nil {
		return
	}
	vrt.Reach("set")
	verifC10Check(&v, e.encode(), "C10.setmany")
}

func init() {
	vrt.Register("VerifC10_Int64Key", VerifC10_Int64Key)
	vrt.Register("VerifC10_PackedInElement", VerifC10_PackedInElement)
}

// VerifC10_Int64Key: M{map<int64,string> m=1; string t=2} with one entry: insert / replace / unset the key KV
// (a table of values around the 32-bit boundary).
func VerifC10_Int64Key() {
	kv := []int64{5, 1 << 40, -(1 << 33), 1<<32 + 1, 2147483648, -2147483649}[vrt.Param("KV")]
	op := vrt.Param("OP") // 0 insert absent key, 1 replace existing, 2 unset existing
	msg := proto.VerifNewMessage("M")
	proto.VerifAddMap(msg, 1, "m", "m", proto.VerifBasic(proto.INT64), proto.VerifBasic(proto.STRING))
	proto.VerifAddField(msg, 2, "t", "t", proto.VerifBasic(proto.STRING), false)
	proto.VerifBuild(msg)
	entry := func(k int64, v []byte) []byte {
		var e []byte
		e = gpw.AppendVarint(gpw.AppendTag(e, 1, gpw.VarintType), uint64(k))
		e = gpw.AppendBytes(gpw.AppendTag(e, 2, gpw.BytesType), v)
		return gpw.AppendBytes(gpw.AppendTag(nil, 1, gpw.BytesType), e)
	}
	v0, nv, tv := verifC10Str(1), verifC10Str(2), verifC10Str(1)
	existing := int64(7)
	if op != 0 {
		existing = kv
	}
	src := append(entry(existing, v0), gpw.AppendBytes(gpw.AppendTag(nil, 2, gpw.BytesType), tv)...)
	v := NewRootValue(msg, src)
	var want []byte
	var err error
	switch op {
	case 0:
		_, err = v.SetByPath(NewNodeString(string(nv)), NewPathFieldId(1), NewPathIntKey(int(kv)))
		want = append(append(entry(existing, v0), entry(kv, nv)...), gpw.AppendBytes(gpw.AppendTag(nil, 2, gpw.BytesType), tv)...)
	case 1:
		_, err = v.SetByPath(NewNodeString(string(nv)), NewPathFieldId(1), NewPathIntKey(int(kv)))
		want = append(entry(kv, nv), gpw.AppendBytes(gpw.AppendTag(nil, 2, gpw.BytesType), tv)...)
	default:
		err = v.UnsetByPath(NewPathFieldId(1), NewPathIntKey(int(kv)))
		want = gpw.AppendBytes(gpw.AppendTag(nil, 2, gpw.BytesType), tv)
	}
	vrt.Assert(err == nil, "C10.int64key.noerror")
	if err != nil {
		return
	}
	vrt.Reach("edited")
	got := v.Raw()
	vrt.Dump("C10.int64key want", want)
	vrt.Dump("C10.int64key got ", got)
	_, ok := vrt.PFields(got)
	vrt.Assert(ok, "C10.int64key.well-formed")
	if ok {
		vrt.Assert(vrt.PEq(want, got, &vrt.PSchema{Sub: map[int]*vrt.PSchema{1: {}}}, 3), "C10.int64key.equals-model")
	}
	if op != 2 {
		g := v.GetByPath(NewPathFieldId(1), NewPathIntKey(int(kv)))
		s, e2 := g.String()
		vrt.Assert(e2 == nil && s == string(nv), "C10.int64key.readable-after")
	}
}

// VerifC10_PackedInElement: Top{repeated Mid mids=1; string z=2}, Mid{repeated int32 nums=1 [packed]; string s=2}:
// a size-changing edit of nums[J] of element SEL (two elements, two numbers each): every enclosing prefix - the
// packed run's and the element's - follows, the other element is untouched.
func VerifC10_PackedInElement() {
	sel := vrt.Param("SEL")
	j := vrt.Param("J")   // 0,1 existing; 2 append
	op := vrt.Param("OP") // 0 set, 1 unset
	mid := proto.VerifNewMessage("Mid")
	proto.VerifAddField(mid, 1, "nums", "nums", proto.VerifBasic(proto.INT32), true)
	proto.VerifAddField(mid, 2, "s", "s", proto.VerifBasic(proto.STRING), false)
	proto.VerifBuild(mid)
	top := proto.VerifNewMessage("Top")
	proto.VerifAddField(top, 1, "mids", "mids", mid, true)
	proto.VerifAddField(top, 2, "z", "z", proto.VerifBasic(proto.STRING), false)
	proto.VerifBuild(top)
	nums := [][]uint64{{verifSmallI32(), verifSmallI32()}, {verifSmallI32(), verifSmallI32()}}
	ss := [][]byte{verifC10Str(1), verifC10Str(1)}
	enc := func() []byte {
		var b []byte
		for i := range nums {
			var m []byte
			if len(nums[i]) > 0 {
				var p []byte
				for _, x := range nums[i] {
					p = gpw.AppendVarint(p, x)
				}
				m = gpw.AppendBytes(gpw.AppendTag(m, 1, gpw.BytesType), p)
			}
			m = gpw.AppendBytes(gpw.AppendTag(m, 2, gpw.BytesType), ss[i])
			b = gpw.AppendBytes(gpw.AppendTag(b, 1, gpw.BytesType), m)
		}
		return gpw.AppendBytes(gpw.AppendTag(b, 2, gpw.BytesType), []byte{'z'})
	}
	src := enc()
	v := NewRootValue(top, src)
	pth := []Path{NewPathFieldId(1), NewPathIndex(sel), NewPathFieldId(1), NewPathIndex(j)}
	var err error
	if op == 0 {
		nv := uint64(int64(int32(vrt.U32()))) // any width: 1..10 bytes
		if j < 2 {
			nums[sel][j] = nv
		} else {
			nums[sel] = append(nums[sel], nv)
		}
		_, err = v.SetByPath(NewNodeInt32(int32(nv)), pth...)
	} else {
		if j >= 2 {
			vrt.Reach("edited")
			return
		}
		nums[sel] = append(append([]uint64{}, nums[sel][:j]...), nums[sel][j+1:]...)
		err = v.UnsetByPath(pth...)
	}
	vrt.Assert(err == nil, "C10.packed-in-element.noerror")
	if err != nil {
		return
	}
	vrt.Reach("edited")
	got := v.Raw()
	want := enc()
	vrt.Dump("C10.packed-in-element want", want)
	vrt.Dump("C10.packed-in-element got ", got)
	_, ok := vrt.PFields(got)
	vrt.Assert(ok, "C10.packed-in-element.well-formed")
	if ok {
		vrt.Assert(vrt.PEq(want, got, &vrt.PSchema{Sub: map[int]*vrt.PSchema{1: {Packed: map[int]bool{1: true}}}}, 3), "C10.packed-in-element.equals-model")
	}
}

func init() { vrt.Register("VerifC10_IntKeyKinds", VerifC10_IntKeyKinds) }

// VerifC10_IntKeyKinds: M{map<KK,string> m=1; string t=2} for every integer key kind KK with one entry:
// insert / replace / unset the key KV (values at the width boundaries of the kind); the entry written for an
// inserted key carries the key in the kind's own encoding (varint, zig-zag, fixed32, fixed64).
func VerifC10_IntKeyKinds() {
	kinds := []proto.Type{proto.INT32, proto.SINT32, proto.SFIX32, proto.UINT32, proto.FIX32, proto.INT64, proto.SINT64, proto.SFIX64, proto.UINT64, proto.FIX64}
	kk := kinds[vrt.Param("KK")]
	var table []int64
	switch kk {
	case proto.INT32, proto.SINT32, proto.SFIX32:
		table = []int64{5, -3, 2147483647, -2147483648, 300}
	case proto.UINT32, proto.FIX32:
		table = []int64{5, 4294967295, 2147483648, 300, 65536}
	case proto.UINT64, proto.FIX64:
		table = []int64{5, 1 << 40, 2147483648, 4294967296, 1<<62 + 1}
	default:
		table = []int64{5, 1 << 40, -(1 << 33), 2147483648, -2147483649}
	}
	kv := table[vrt.Param("KV")]
	op := vrt.Param("OP") // 0 insert absent key, 1 replace existing, 2 unset existing
	msg := proto.VerifNewMessage("M")
	proto.VerifAddMap(msg, 1, "m", "m", proto.VerifBasic(kk), proto.VerifBasic(proto.STRING))
	proto.VerifAddField(msg, 2, "t", "t", proto.VerifBasic(proto.STRING), false)
	proto.VerifBuild(msg)
	key := func(k int64) []byte {
		switch kk {
		case proto.SINT32, proto.SINT64:
			return gpw.AppendVarint(gpw.AppendTag(nil, 1, gpw.VarintType), gpw.EncodeZigZag(k))
		case proto.SFIX32, proto.FIX32:
			return gpw.AppendFixed32(gpw.AppendTag(nil, 1, gpw.Fixed32Type), uint32(k))
		case proto.SFIX64, proto.FIX64:
			return gpw.AppendFixed64(gpw.AppendTag(nil, 1, gpw.Fixed64Type), uint64(k))
		default:
			return gpw.AppendVarint(gpw.AppendTag(nil, 1, gpw.VarintType), uint64(k))
		}
	}
	entry := func(k int64, v []byte) []byte {
		e := key(k)
		e = gpw.AppendBytes(gpw.AppendTag(e, 2, gpw.BytesType), v)
		return gpw.AppendBytes(gpw.AppendTag(nil, 1, gpw.BytesType), e)
	}
	v0, nv, tv := verifC10Str(1), verifC10Str(2), verifC10Str(1)
	existing := int64(7)
	if op != 0 {
		existing = kv
	}
	tail := gpw.AppendBytes(gpw.AppendTag(nil, 2, gpw.BytesType), tv)
	src := append(entry(existing, v0), tail...)
	v := NewRootValue(msg, src)
	var want []byte
	var err error
	if op == 3 {
		// the tree form: Load (recursive) and Marshal reproduce the message, key included
		pn := PathNode{Node: v.Node}
		err = pn.Load(true, &Options{}, msg)
		vrt.Assert(err == nil, "C10.intkey-kinds.load.noerror")
		if err != nil {
			return
		}
		out, err := pn.Marshal(&Options{})
		vrt.Assert(err == nil, "C10.intkey-kinds.marshal.noerror")
		if err != nil {
			return
		}
		vrt.Reach("edited")
		vrt.Dump("C10.intkey-kinds in ", src)
		vrt.Dump("C10.intkey-kinds out", out)
		_, ok := vrt.PFields(out)
		vrt.Assert(ok, "C10.intkey-kinds.load-marshal.well-formed")
		if ok {
			vrt.Assert(vrt.PEq(src, out, &vrt.PSchema{Sub: map[int]*vrt.PSchema{1: {}}}, 3), "C10.intkey-kinds.load-marshal.equals-input")
		}
		return
	}
	switch op {
	case 0:
		_, err = v.SetByPath(NewNodeString(string(nv)), NewPathFieldId(1), NewPathIntKey(int(kv)))
		want = append(append(entry(existing, v0), entry(kv, nv)...), tail...)
	case 1:
		_, err = v.SetByPath(NewNodeString(string(nv)), NewPathFieldId(1), NewPathIntKey(int(kv)))
		want = append(entry(kv, nv), tail...)
	default:
		err = v.UnsetByPath(NewPathFieldId(1), NewPathIntKey(int(kv)))
		want = tail
	}
	vrt.Assert(err == nil, "C10.intkey-kinds.noerror")
	if err != nil {
		return
	}
	vrt.Reach("edited")
	got := v.Raw()
	vrt.Dump("C10.intkey-kinds want", want)
	vrt.Dump("C10.intkey-kinds got ", got)
	_, ok := vrt.PFields(got)
	vrt.Assert(ok, "C10.intkey-kinds.well-formed")
	if ok {
		vrt.Assert(vrt.PEq(want, got, &vrt.PSchema{Sub: map[int]*vrt.PSchema{1: {}}}, 3), "C10.intkey-kinds.equals-model")
	}
	if op != 2 {
		g := v.GetByPath(NewPathFieldId(1), NewPathIntKey(int(kv)))
		s, e2 := g.String()
		vrt.Assert(e2 == nil && s == string(nv), "C10.intkey-kinds.readable-after")
	}
}

func init() { vrt.Register("VerifC10_NestedByName", VerifC10_NestedByName) }

// VerifC10_NestedByName: Req{Mid mid=1; repeated string ys=2}, Mid{string s=1; repeated string xs=2}: xs is the
// last thing in mid and the enclosing message continues with records of the same number (ys).  Edits of
// mid.xs addressed by field id or by field NAME (set existing, append, unset) touch mid.xs only.
func VerifC10_NestedByName() {
	byName := vrt.Param("BYNAME") != 0
	ca, cb := vrt.Param("CA"), vrt.Param("CB")
	op := vrt.Param("OP") // 0 set xs[IDX] (IDX == CA appends), 1 unset xs[IDX], 2 set the absent mid.s, 3 unset the present mid.s
	idx := vrt.Param("IDX")
	if (op < 2 && (idx > ca || (op == 1 && idx >= ca))) || (op >= 2 && idx != 0) {
		vrt.Reach("skip")
		return
	}
	mid := proto.VerifNewMessage("Mid")
	proto.VerifAddField(mid, 1, "s", "s", proto.VerifBasic(proto.STRING), false)
	proto.VerifAddField(mid, 2, "xs", "xs", proto.VerifBasic(proto.STRING), true)
	proto.VerifBuild(mid)
	req := proto.VerifNewMessage("Req")
	proto.VerifAddField(req, 1, "mid", "mid", mid, false)
	proto.VerifAddField(req, 2, "ys", "ys", proto.VerifBasic(proto.STRING), true)
	proto.VerifBuild(req)
	fld := func(id proto.FieldNumber, name string) Path {
		if byName {
			return NewPathFieldName(name)
		}
		return NewPathFieldId(id)
	}
	sv := verifC10Str(1)
	xs := make([][]byte, ca)
	for i := range xs {
		xs[i] = verifC10Str(1 + i%2)
	}
	ys := make([][]byte, cb)
	for i := range ys {
		ys[i] = verifC10Str(1)
	}
	nv := verifC10Str(2)
	hasS := op != 2
	enc := func(xs [][]byte) []byte {
		var m []byte
		if hasS {
			m = gpw.AppendBytes(gpw.AppendTag(m, 1, gpw.BytesType), sv)
		}
		for _, x := range xs {
			m = gpw.AppendBytes(gpw.AppendTag(m, 2, gpw.BytesType), x)
		}
		b := gpw.AppendBytes(gpw.AppendTag(nil, 1, gpw.BytesType), m)
		for _, y := range ys {
			b = gpw.AppendBytes(gpw.AppendTag(b, 2, gpw.BytesType), y)
		}
		return b
	}
	src := enc(xs)
	v := NewRootValue(req, src)
	var want [][]byte
	var err error
	if op == 2 {
		var exist bool
		exist, err = v.SetByPath(NewNodeString(string(nv)), fld(1, "mid"), fld(1, "s"))
		vrt.Assert(!exist, "C10.nested-by-name.set-absent.exist-flag")
		want, sv, hasS = xs, nv, true
	} else if op == 3 {
		err = v.UnsetByPath(fld(1, "mid"), fld(1, "s"))
		want, hasS = xs, false
	} else if op == 0 {
		_, err = v.SetByPath(NewNodeString(string(nv)), fld(1, "mid"), fld(2, "xs"), NewPathIndex(idx))
		want = append([][]byte{}, xs...)
		if idx == ca {
			want = append(want, nv)
		} else {
			want[idx] = nv
		}
	} else {
		err = v.UnsetByPath(fld(1, "mid"), fld(2, "xs"), NewPathIndex(idx))
		want = append(append([][]byte{}, xs[:idx]...), xs[idx+1:]...)
	}
	vrt.Assert(err == nil, "C10.nested-by-name.noerror")
	if err != nil {
		return
	}
	vrt.Reach("edited")
	got := v.Raw()
	exp := enc(want)
	vrt.Dump("C10.nested-by-name want", exp)
	vrt.Dump("C10.nested-by-name got ", got)
	_, ok := vrt.PFields(got)
	vrt.Assert(ok, "C10.nested-by-name.well-formed")
	if ok {
		vrt.Assert(vrt.PEq(exp, got, &vrt.PSchema{Sub: map[int]*vrt.PSchema{1: {}}}, 3), "C10.nested-by-name.equals-model")
	}
}
