// Package vrt is the harness runtime. Under vsym every function here is an
// engine intrinsic (inputs are symbolic); natively they replay a vector.
package vrt

import (
	"fmt"
	"os"
	"unsafe"
)

// Vec is the native replay vector: one value per nondeterministic scalar, in call order.
var Vec []uint64
var pos int

// Params are the harness bounds (set by the replay driver).
var Params = map[string]int{}

// Failures collects failed assertion labels in native mode.
var Failures []string

// Reached collects reach labels in native mode.
var Reached []string

type AssumeFailed struct{ N int }

func Reset(vec []uint64, params map[string]int) {
	Vec, pos, Failures, Reached = vec, 0, nil, nil
	Params = params
}

func next() uint64 {
	if pos < len(Vec) {
		v := Vec[pos]
		pos++
		return v
	}
	pos++
	return 0
}

func U8() uint8   { return uint8(next()) }
func U16() uint16 { return uint16(next()) }
func U32() uint32 { return uint32(next()) }
func U64() uint64 { return next() }
func I8() int8    { return int8(next()) }
func I16() int16  { return int16(next()) }
func I32() int32  { return int32(next()) }
func I64() int64  { return int64(next()) }
func Int() int    { return int(next()) }
func Bool() bool  { return next()&1 != 0 }

// Bytes returns n fresh input bytes (len == cap == n).
func Bytes(n int) []byte {
	b := make([]byte, n)
	for i := range b {
		b[i] = byte(next())
	}
	return b
}

// Assume restricts the explored inputs.
func Assume(c bool) {
	if !c {
		panic(AssumeFailed{pos})
	}
}

// Assert states the property.
func Assert(c bool, label string) {
	if !c {
		Failures = append(Failures, label)
	}
}

// Reach marks a scenario as covered (vacuity guard).
func Reach(label string) { Reached = append(Reached, label) }

// Param returns a harness bound.
func Param(name string) int {
	v, ok := Params[name]
	if !ok {
		panic(fmt.Sprintf("vrt: parameter %q not set", name))
	}
	return v
}

// Conc asks the engine to enumerate the concrete values of x (identity natively).
func Conc(x int) int { return x }

// Symbolic reports whether the harness runs under the symbolic engine.
func Symbolic() bool { return false }

// Redirect makes the engine run fn wherever the function called name (go/ssa spelling, e.g.
// "(*pkg/path.T).Method") is called; natively it does nothing: harnesses that use it take a
// different route natively (see Symbolic).
func Redirect(name string, fn interface{}) {}

// Dump prints b (natively, when VERIF_DUMP is set; nothing under the engine): a triage aid.
func Dump(label string, b []byte) {
	if os.Getenv("VERIF_DUMP") != "" {
		fmt.Fprintf(os.Stderr, "DUMP %s: %x\n", label, b)
	}
}

// Note records a value in the evidence sample.
func Note(label string, v int) {}

// SameSpan: got is exactly buf[start:end] (same memory).
func SameSpan(got, buf []byte, start, end int) bool {
	if len(got) != end-start {
		return false
	}
	if len(got) == 0 {
		return true
	}
	if start < 0 || end > cap(buf) {
		return false
	}
	return &got[0] == &buf[:cap(buf)][start]
}

// InBuf: got lies inside buf's memory (or is empty).
func InBuf(got, buf []byte) bool {
	if len(got) < 0 || len(got) > cap(got) {
		return false // corrupt slice header
	}
	if len(got) == 0 {
		return true
	}
	if len(buf) == 0 {
		return false
	}
	for i := 0; i+len(got) <= len(buf); i++ {
		if &buf[i] == &got[0] {
			return true
		}
	}
	return false
}

// Freeze marks a buffer read-only for the engine's write monitor (no-op natively).
func Freeze(b []byte) {}

// Unfreeze reverts Freeze.
func Unfreeze(b []byte) {}

var registry = map[string]func(){}

// Register makes a harness callable by name from the native replay driver.
func Register(name string, f func()) { registry[name] = f }

// Lookup finds a registered harness.
func Lookup(name string) func() { return registry[name] }

// StrInBuf: the bytes of s lie inside buf's memory (or s is empty).
func StrInBuf(s string, buf []byte) bool {
	if len(s) == 0 {
		return true
	}
	if len(buf) == 0 {
		return false
	}
	sp := (*[2]uintptr)(unsafe.Pointer(&s))[0]
	bp := uintptr(unsafe.Pointer(&buf[0]))
	return sp >= bp && sp+uintptr(len(s)) <= bp+uintptr(len(buf))
}
