package json

import (
	"unsafe"

	vrt "github.com/cloudwego/dynamicgo/internal/zzverif"
)

func init() { vrt.Register("VerifC03_QuoteGrowth", VerifC03_QuoteGrowth) }

// verifQuote is the contract of the assembly routine native.Quote, used in its place under the engine
// (natively the real routine runs): escape the input into at most *dn bytes at dp; when everything fits
// return nb, otherwise stop at an input position k < nb, return ^k; *dn = number of bytes written.
// (The real routine may stop earlier than the first byte that does not fit - at a SIMD chunk boundary;
// stopping at the last possible position exercises the same resume protocol of the caller.)
func verifQuote(s unsafe.Pointer, nb int, dp unsafe.Pointer, dn *int, flags uint64) int {
	const hex = "0123456789abcdef"
	space := *dn
	w := 0
	put := func(c byte) {
		*(*byte)(unsafe.Pointer(uintptr(dp) + uintptr(w))) = c
		w++
	}
	for i := 0; i < nb; i++ {
		c := *(*byte)(unsafe.Pointer(uintptr(s) + uintptr(i)))
		need := 1
		if c == '"' || c == '\\' {
			need = 2
		} else if c < 0x20 {
			need = 6
		}
		if w+need > space {
			*dn = w
			return ^i
		}
		switch {
		case need == 2:
			put('\\')
			put(c)
		case need == 6:
			put('\\')
			put('u')
			put('0')
			put('0')
			put(hex[c>>4])
			put(hex[c&15])
		default:
			put(c)
		}
	}
	*dn = w
	return nb
}

// VerifC03_QuoteGrowth: the Go wrapper NoQuote around the assembly quoter, with an output buffer of CAP bytes
// of which PRE are in use: for every ASCII string of N bytes (escapes make the output outgrow the buffer, the
// wrapper doubles it and resumes) the bytes appended are a JSON string body denoting exactly the input and
// the bytes already in the buffer are kept.
func VerifC03_QuoteGrowth() {
	n := vrt.Param("N")
	capn := vrt.Param("CAP")
	pre := vrt.Param("PRE")
	if pre >= capn {
		vrt.Reach("quoted")
		return
	}
	if vrt.Symbolic() {
		vrt.Redirect("github.com/cloudwego/dynamicgo/internal/native.Quote", verifQuote)
	}
	val := vrt.Bytes(n)
	for i := range val {
		vrt.Assume(val[i] < 0x80)
	}
	buf := make([]byte, pre, capn)
	for i := range buf {
		buf[i] = 'p'
	}
	NoQuote(&buf, string(val))
	vrt.Reach("quoted")
	vrt.Assert(len(buf) >= pre+n, "C03.quote-growth.length")
	if len(buf) < pre+n {
		return
	}
	for i := 0; i < pre; i++ {
		vrt.Assert(buf[i] == 'p', "C03.quote-growth.prefix-kept")
	}
	got, ok := verifUnquoteBody(buf[pre:])
	vrt.Assert(ok, "C03.quote-growth.valid-json-string-body")
	if ok {
		vrt.Assert(vrt.BytesEq(got, 0, len(got), val, 0, len(val)), "C03.quote-growth.denotes-input")
	}
}

// verifUnquoteBody decodes the content of a JSON string (RFC 8259 section 7) whose characters are ASCII:
// the reference reading of what the quoter wrote (executable under the engine, unlike encoding/json).
func verifUnquoteBody(b []byte) ([]byte, bool) {
	hexv := func(c byte) (int, bool) {
		switch {
		case c >= '0' && c <= '9':
			return int(c - '0'), true
		case c >= 'a' && c <= 'f':
			return int(c-'a') + 10, true
		case c >= 'A' && c <= 'F':
			return int(c-'A') + 10, true
		}
		return 0, false
	}
	var out []byte
	for i := 0; i < len(b); i++ {
		c := b[i]
		if c < 0x20 || c == '"' || c >= 0x80 {
			return nil, false
		}
		if c != '\\' {
			out = append(out, c)
			continue
		}
		i++
		if i >= len(b) {
			return nil, false
		}
		switch b[i] {
		case '"', '\\', '/':
			out = append(out, b[i])
		case 'b':
			out = append(out, 8)
		case 'f':
			out = append(out, 12)
		case 'n':
			out = append(out, 10)
		case 'r':
			out = append(out, 13)
		case 't':
			out = append(out, 9)
		case 'u':
			if i+4 >= len(b) {
				return nil, false
			}
			v := 0
			for k := 1; k <= 4; k++ {
				h, ok := hexv(b[i+k])
				if !ok {
					return nil, false
				}
				v = v<<4 | h
			}
			if v >= 0x80 {
				return nil, false // not produced for ASCII input
			}
			out = append(out, byte(v))
			i += 4
		default:
			return nil, false
		}
	}
	return out, true
}
