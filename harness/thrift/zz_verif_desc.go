package thrift

import (
	"math"
	"unsafe"

	"github.com/cloudwego/dynamicgo/internal/util"
	"github.com/cloudwego/thriftgo/parser"
)

// Descriptor builders for the verification harnesses. They run the same
// internal builders that idl.go runs after thriftgo has parsed an IDL
// (ids.Set, names.Set, names.Build, convertRequireness), so the resulting
// descriptors carry the real lookup structures.

// VField describes one field for VerifStruct.
type VField struct {
	ID    FieldID
	Name  string
	Alias string
	Type  *TypeDescriptor
	Req   int // parser.FieldType numbering: 0 default, 1 required, 2 optional
	Def   *DefaultValue
}

func VerifBasic(t Type) *TypeDescriptor {
	switch t {
	case BOOL:
		return builtinTypes["bool"]
	case BYTE:
		return builtinTypes["byte"]
	case I16:
		return builtinTypes["i16"]
	case I32:
		return builtinTypes["i32"]
	case I64:
		return builtinTypes["i64"]
	case DOUBLE:
		return builtinTypes["double"]
	case STRING:
		return builtinTypes["string"]
	}
	panic("VerifBasic: not a basic type")
}

func VerifBinary() *TypeDescriptor { return builtinTypes["binary"] }

func VerifList(elem *TypeDescriptor) *TypeDescriptor {
	return &TypeDescriptor{name: "list", typ: LIST, elem: elem}
}

func VerifSet(elem *TypeDescriptor) *TypeDescriptor {
	return &TypeDescriptor{name: "set", typ: SET, elem: elem}
}

func VerifMap(key, elem *TypeDescriptor) *TypeDescriptor {
	return &TypeDescriptor{name: "map", typ: MAP, key: key, elem: elem}
}

// VerifNewStruct makes an empty struct descriptor (fields are added with VerifAddField
// so that self-referential types can be built), finish with VerifBuild.
func VerifNewStruct(name string, nfields int) *TypeDescriptor {
	return &TypeDescriptor{
		name: name,
		typ:  STRUCT,
		struc: &StructDescriptor{
			baseID:   FieldID(math.MaxUint16),
			name:     name,
			ids:      util.FieldIDMap{},
			names:    util.FieldNameMap{},
			requires: make(RequiresBitmap, nfields),
		},
	}
}

func VerifAddField(ty *TypeDescriptor, f VField, opts Options) *FieldDescriptor {
	alias := f.Alias
	if alias == "" {
		alias = f.Name
	}
	_f := &FieldDescriptor{id: f.ID, name: f.Name, alias: alias, typ: f.Type, defaultValue: f.Def}
	fp := unsafe.Pointer(_f)
	ty.Struct().ids.Set(int32(f.ID), fp)
	convertRequireness(parser.FieldType(f.Req), ty.struc, _f, opts)
	ty.Struct().names.Set(_f.alias, fp)
	ty.Struct().names.Set(_f.name, fp)
	return _f
}

func VerifBuild(ty *TypeDescriptor) *TypeDescriptor {
	ty.Struct().names.Build()
	return ty
}

// VerifStruct builds a complete struct descriptor.
func VerifStruct(name string, opts Options, fields ...VField) *TypeDescriptor {
	ty := VerifNewStruct(name, len(fields))
	for _, f := range fields {
		VerifAddField(ty, f, opts)
	}
	return VerifBuild(ty)
}

// VerifDefaultI32 makes the parsed-default record of an i32 field the way makeDefaultValue does.
func VerifDefaultI32(v int32) *DefaultValue {
	p := BinaryProtocol{Buf: make([]byte, 0, 4)}
	p.WriteI32(v)
	js := "0"
	switch v {
	case 7:
		js = "7"
	case 8:
		js = "8"
	case 9:
		js = "9"
	}
	return &DefaultValue{goValue: int64(v), jsonValue: js, thriftBinary: string(p.Buf)}
}

// VerifAddHTTP attaches http-mapping annotations to a field the way handleAnnotation does
// (AnnoKindHttpMappping): appended in IDL order, the struct remembers the field.
func VerifAddHTTP(ty *TypeDescriptor, f *FieldDescriptor, hms ...HttpMapping) {
	for _, hm := range hms {
		f.httpMappings = append(f.httpMappings, hm)
		ty.Struct().addHttpMappingField(f)
	}
}

// VerifSetValueMapping attaches a value-mapping annotation the way handleAnnotation does (AnnoKindValueMapping).
func VerifSetValueMapping(f *FieldDescriptor, vm ValueMapping, typ AnnoType) {
	f.valueMapping = vm
	f.valueMappingType = typ
}

// VerifSetRequestBase marks f as the base.Base field of the root request struct ty, the way parseType does
// under EnableThriftBase.
func VerifSetRequestBase(ty *TypeDescriptor, f *FieldDescriptor) {
	f.isRequestBase = true
	ty.struc.baseID = f.id
}
