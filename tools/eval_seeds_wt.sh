#!/bin/bash
# usage: tools/eval_seeds_wt.sh [-p PROP] <seed ids...> — like eval_seeds.sh but applies each patch in a scratch
# worktree of /repo (HEAD) and points the check at it with -repo, so /repo itself stays untouched and other
# work can go on.  Prints one line per seed and appends it to out/seed_eval.log.
export GOFLAGS=-mod=mod GOPROXY=off GOSUMDB=off GOTOOLCHAIN=local
forced=""
if [ "$1" = "-p" ]; then forced=$2; shift 2; fi
wt=/tmp/wt_eval_$$
git -C /repo worktree add -q --detach $wt HEAD || exit 2
trap "git -C /repo worktree remove --force $wt >/dev/null 2>&1" EXIT
mkdir -p /verif/out
for d in "$@"; do
  dir=/verif/seeded/$d
  [ -f $dir/patch.diff ] || { echo "$d: no patch"; continue; }
  prop=${d%%_*}
  [ -n "$forced" ] && prop=$forced
  git -C $wt checkout -q -- .
  if ! git -C $wt apply $dir/patch.diff 2>/tmp/apply_$$.err; then echo "$d: patch does not apply: $(head -1 /tmp/apply_$$.err)" | tee -a /verif/out/seed_eval.log; continue; fi
  (cd $wt && go build ./... 2>&1 | head -3)
  start=$(date +%s)
  (cd /verif && timeout 1500 bin/vsym check -p $prop -repo $wt -no-evidence > /tmp/evalwt_$d.log 2>&1); rc=$?
  end=$(date +%s)
  v=$(grep -c "^VIOLATION" /tmp/evalwt_$d.log)
  lab=$(grep -A1 "^VIOLATION" /tmp/evalwt_$d.log | grep "label=" | sed 's/.*label=//' | sort -u | head -3 | tr '\n' ' ')
  inc=$(grep -c "^INCONCLUSIVE" /tmp/evalwt_$d.log)
  echo "$d: prop=$prop exit=$rc violations=$v inconclusive=$inc time=$((end-start))s labels: $lab" | tee -a /verif/out/seed_eval.log
done
