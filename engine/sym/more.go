package sym

import (
	"encoding/base64"
	"go/types"
	"strconv"
	"strings"

	"golang.org/x/tools/go/ssa"
)

const dgo = "github.com/cloudwego/dynamicgo/"

func registerMoreIntrinsics(e *Engine) {
	c := e.ctx
	// rt.Growslice(et, old GoSlice, cap) GoSlice — all call sites pass the byte type.
	e.intr[dgo+"internal/rt.Growslice"] = func(st *State, fn *ssa.Function, args []Value, ret func(Value)) {
		old := args[1].(Struct)
		op := st.asPtr(old[0])
		ol := st.concInt(st.asT(old[1]), "growslice len")
		want := st.asT(args[2])
		st.checkAlloc(want, 1, "growslice")
		nc := st.concInt(want, "growslice cap")
		if nc < ol {
			st.goPanic("growslice: len out of range")
		}
		id := st.allocN(nc, nil, "growslice")
		if ol > 0 {
			st.copyMem(Ptr{id, e.k64(0)}, op, ol)
		}
		ret(Struct{Ptr{id, e.k64(0)}, e.k64(ol), e.k64(nc)})
	}
	e.intr[dgo+"internal/rt.UnpackType"] = func(st *State, fn *ssa.Function, args []Value, ret func(Value)) {
		id := st.allocN(64, nil, "opaque *rt.GoType")
		st.newObj(id).Poison = "opaque runtime type descriptor"
		ret(Ptr{id, e.k64(0)})
	}
	e.intr[dgo+"internal/rt.UnpackEface"] = func(st *State, fn *ssa.Function, args []Value, ret func(Value)) {
		tid := st.allocN(64, nil, "opaque *rt.GoType")
		st.newObj(tid).Poison = "opaque runtime type descriptor"
		vid := st.allocN(16, nil, "opaque eface data")
		ret(Struct{Ptr{tid, e.k64(0)}, Ptr{vid, e.k64(0)}})
	}
	// runtime.strhash behind caching.StrHash: an uninterpreted function of the key bytes, so the
	// verdicts hold for every hash function and every collision pattern.  Keys of up to 7 bytes
	// are packed (length in the top byte) into the single 64-bit argument.
	e.intr[dgo+"internal/caching.StrHash"] = func(st *State, fn *ssa.Function, args []Value, ret func(Value)) {
		s := args[0].(Str)
		n := st.concInt(s.Len, "strhash key length")
		if n > 7 {
			st.unsupported("strhash of a key longer than 7 bytes")
		}
		packed := c.Const(uint64(n), 8)
		var bs []*T
		if n > 0 {
			bs = st.readBytes(s.P, n)
		}
		for i := int64(0); i < 7; i++ {
			if i < n {
				packed = c.Concat(packed, bs[i])
			} else {
				packed = c.Concat(packed, c.Const(0, 8))
			}
		}
		h := c.UF("strhash", 64, packed)
		// StrHash never returns 0
		ret(c.Ite(c.Eq(h, c.Const(0, 64)), c.Const(1, 64), h))
	}
	registerJSONStubs(e)
	_ = c
	// functions replaced by "return the zero value": runtime/reflection glue that only
	// feeds the assembly hand-over or error texts
	for _, n := range zeroStubs {
		e.intr[n] = zeroStub
	}
}

var zeroStubs = []string{
	dgo + "internal/rt.findReflectRtypeItab",
}

func zeroStub(st *State, fn *ssa.Function, args []Value, ret func(Value)) {
	res := fn.Signature.Results()
	switch res.Len() {
	case 0:
		ret(nil)
	case 1:
		ret(st.e.zero(res.At(0).Type()))
	default:
		ret(st.e.zero(res))
	}
}

// ---- contract stubs for the scalar text encoders (assembly on amd64) ----
//
// i64toa / f64toa / NoQuote / encodeBase64 append a short concrete placeholder that names a
// "ghost token" holding the value they were asked to encode.  The harness oracles read the ghost
// back (vrt.JNumInt ...) to check value exactness; natively the same calls parse the real text.

func (st *State) appendToBufPtr(bufp Ptr, text string) int64 {
	e := st.e
	bt := types.NewSlice(types.Typ[types.Uint8])
	sl := st.load(bufp, bt).(Slice)
	off := st.concInt(sl.Len, "encoder stub: buffer length")
	add := st.strConst(text).(Str)
	ns := st.doAppend(sl, add, bt, types.Typ[types.String])
	st.store(bufp, bt, ns)
	_ = e
	return off
}

// ghostBase keeps placeholder numbers apart from small literals the code writes itself (defaults).
const ghostBase = 100000

func (st *State) addGhost(g ghostTok) int {
	st.ghosts = append(st.ghosts[:len(st.ghosts):len(st.ghosts)], g)
	return len(st.ghosts) + ghostBase
}

func (st *State) ghostByText(text string, prefix string) *ghostTok {
	if !strings.HasPrefix(text, prefix) {
		return nil
	}
	n, err := strconv.Atoi(text[len(prefix):])
	n -= ghostBase
	if err != nil || n < 1 || n > len(st.ghosts) {
		return nil
	}
	return &st.ghosts[n-1]
}

// concreteBytes reads a byte slice whose content must be concrete (placeholder text).
func (st *State) concreteBytes(v Value) (string, bool) { return st.concreteBytesN(v, 64) }

func (st *State) concreteBytesN(v Value, max uint64) (string, bool) {
	var p Ptr
	var l *T
	switch x := v.(type) {
	case Slice:
		p, l = x.P, x.Len
	case Str:
		p, l = x.P, x.Len
	default:
		return "", false
	}
	ls := st.simp(l)
	if !ls.IsConst() || ls.K > max {
		return "", false
	}
	if ls.K == 0 {
		return "", true
	}
	bs := st.readBytes(p, int64(ls.K))
	out := make([]byte, len(bs))
	for i, b := range bs {
		b = st.simp(b)
		if !b.IsConst() {
			return "", false
		}
		out[i] = byte(b.K)
	}
	return string(out), true
}

func (st *State) bytesToSlice(bs []*T, name string) Slice {
	e := st.e
	id := st.allocN(int64(len(bs)), nil, name)
	if len(bs) > 0 {
		st.writeBytes(Ptr{id, e.k64(0)}, bs)
	}
	return Slice{Ptr{id, e.k64(0)}, e.k64(int64(len(bs))), e.k64(int64(len(bs)))}
}

func registerJSONStubs(e *Engine) {
	c := e.ctx
	jp := dgo + "internal/json."
	e.intr[jp+"i64toa"] = func(st *State, fn *ssa.Function, args []Value, ret func(Value)) {
		idx := st.addGhost(ghostTok{kind: "int", val: st.asT(args[1])})
		txt := strconv.Itoa(idx)
		st.appendToBufPtr(st.asPtr(args[0]), txt)
		ret(e.k64(int64(len(txt))))
	}
	// strconv.AppendUint(buf, v, 10): same contract, unsigned
	e.intr["strconv.AppendUint"] = func(st *State, fn *ssa.Function, args []Value, ret func(Value)) {
		base := st.simp(st.asT(args[2]))
		if !base.IsConst() || base.K != 10 {
			st.unsupported("strconv.AppendUint with base != 10")
		}
		idx := st.addGhost(ghostTok{kind: "uint", val: st.asT(args[1])})
		bt := types.NewSlice(types.Typ[types.Uint8])
		ret(st.doAppend(args[0].(Slice), st.strConst(strconv.Itoa(idx)), bt, types.Typ[types.String]))
	}
	// strconv.Atoi applied to exactly one integer ghost token returns the value the token names
	// (documented inverse of the decimal formatter); on any other text the real function runs
	e.intr["strconv.Atoi"] = func(st *State, fn *ssa.Function, args []Value, ret func(Value)) {
		txt, ok := st.concreteBytes(args[0])
		if g := st.ghostByText(txt, ""); ok && g != nil && g.kind == "int" {
			ret(Tuple{g.val, Iface{}})
			return
		}
		st.pushFrameClosure(Func{Fn: fn}, args, func(s *State, v Value) { ret(v) })
	}
	e.intr[jp+"f64toa"] = func(st *State, fn *ssa.Function, args []Value, ret func(Value)) {
		bits := st.asT(args[1])
		// non-finite doubles: the amd64 encoder writes nothing and reports 0 bytes
		exp := c.Extract(bits, 52, 11)
		if st.decide(c.Eq(exp, c.Const(0x7ff, 11))) {
			ret(e.k64(0))
			return
		}
		idx := st.addGhost(ghostTok{kind: "float", val: bits})
		txt := strconv.Itoa(idx)
		st.appendToBufPtr(st.asPtr(args[0]), txt)
		ret(e.k64(int64(len(txt))))
	}
	e.intr[jp+"NoQuote"] = func(st *State, fn *ssa.Function, args []Value, ret func(Value)) {
		s := args[1].(Str)
		n := st.concInt(s.Len, "NoQuote length")
		if n == 0 {
			ret(nil)
			return
		}
		bs := st.readBytes(s.P, n)
		idx := st.addGhost(ghostTok{kind: "str", bytes: bs})
		st.appendToBufPtr(st.asPtr(args[0]), "g"+strconv.Itoa(idx))
		ret(nil)
	}
	e.intr[jp+"encodeBase64"] = func(st *State, fn *ssa.Function, args []Value, ret func(Value)) {
		s := args[0].(Slice)
		n := st.concInt(s.Len, "base64 length")
		var bs []*T
		if n > 0 {
			bs = st.readBytes(s.P, n)
		}
		idx := st.addGhost(ghostTok{kind: "b64", bytes: bs})
		ret(st.strConst("b" + strconv.Itoa(idx)))
	}
	// base64x decoder (assembly on amd64): resolves a placeholder made by vrt.B64Text to the bytes it
	// names, decodes concrete standard base64 text, anything else is a decoding error
	b64dec := func(st *State, fn *ssa.Function, args []Value, ret func(Value)) {
		bt := types.NewSlice(types.Typ[types.Uint8])
		errT := fn.Signature.Results().At(1).Type()
		txt, ok := st.concreteBytes(args[1])
		if g := st.ghostByText(txt, "b"); ok && g != nil && g.kind == "b64" {
			ret(Tuple{st.bytesToSlice(g.bytes, "base64 decoded"), e.zero(errT)})
			return
		}
		if ok {
			if raw, err := base64.StdEncoding.DecodeString(txt); err == nil {
				bs := make([]*T, len(raw))
				for i, b := range raw {
					bs[i] = c.Const(uint64(b), 8)
				}
				ret(Tuple{st.bytesToSlice(bs, "base64 decoded"), e.zero(errT)})
				return
			}
		}
		ep := e.prog.ImportedPackage("errors")
		if ep == nil {
			st.unsupported("errors package not loaded")
		}
		st.callFunc(Func{Fn: ep.Func("New")}, []Value{st.strConst("base64: illegal input")}, func(s *State, v Value) {
			ret(Tuple{e.zero(bt), v})
		})
	}
	e.intr["(*github.com/cloudwego/base64x.Encoding).DecodeString"] = b64dec
	e.intr["(github.com/cloudwego/base64x.Encoding).DecodeString"] = b64dec
	e.intr[vrtPath+".B64Text"] = func(st *State, fn *ssa.Function, args []Value, ret func(Value)) {
		s := args[0].(Slice)
		n := st.concInt(s.Len, "base64 length")
		var bs []*T
		if n > 0 {
			bs = st.readBytes(s.P, n)
		}
		idx := st.addGhost(ghostTok{kind: "b64", bytes: bs})
		ret(st.strConst("b" + strconv.Itoa(idx)))
	}
	// oracle side
	e.intr[vrtPath+".GhostReset"] = func(st *State, fn *ssa.Function, args []Value, ret func(Value)) {
		st.ghosts = nil
		ret(nil)
	}
	e.intr[vrtPath+".JNumInt"] = func(st *State, fn *ssa.Function, args []Value, ret func(Value)) {
		txt, ok := st.concreteBytes(args[0])
		if g := st.ghostByText(txt, ""); ok && g != nil && g.kind == "int" {
			ret(Tuple{g.val, c.True})
			return
		}
		if g := st.ghostByText(txt, ""); ok && g != nil && g.kind == "uint" {
			// an unsigned decimal denotes an int64 only below 2^63
			ret(Tuple{g.val, c.BNot(c.Slt(g.val, c.Const(0, 64)))})
			return
		}
		// literal text written by the code itself (e.g. a default value)
		if v, err := strconv.ParseInt(txt, 10, 64); ok && err == nil && v < ghostBase && v > -ghostBase {
			ret(Tuple{c.Const(uint64(v), 64), c.True})
			return
		}
		ret(Tuple{c.Const(0, 64), c.False})
	}
	e.intr[vrtPath+".JNumUint"] = func(st *State, fn *ssa.Function, args []Value, ret func(Value)) {
		txt, ok := st.concreteBytes(args[0])
		if g := st.ghostByText(txt, ""); ok && g != nil && g.kind == "uint" {
			ret(Tuple{g.val, c.True})
			return
		}
		if g := st.ghostByText(txt, ""); ok && g != nil && g.kind == "int" {
			// a signed decimal denotes an unsigned value only when non-negative
			ret(Tuple{g.val, c.BNot(c.Slt(g.val, c.Const(0, 64)))})
			return
		}
		if v, err := strconv.ParseUint(txt, 10, 64); ok && err == nil && v < ghostBase {
			ret(Tuple{c.Const(v, 64), c.True})
			return
		}
		ret(Tuple{c.Const(0, 64), c.False})
	}
	e.intr[vrtPath+".JNumFloatBits"] = func(st *State, fn *ssa.Function, args []Value, ret func(Value)) {
		txt, ok := st.concreteBytes(args[0])
		if g := st.ghostByText(txt, ""); ok && g != nil && g.kind == "float" {
			ret(Tuple{g.val, c.True})
			return
		}
		ret(Tuple{c.Const(0, 64), c.False})
	}
	e.intr[vrtPath+".JStr"] = func(st *State, fn *ssa.Function, args []Value, ret func(Value)) {
		txt, ok := st.concreteBytes(args[0])
		if ok && txt == "" {
			ret(Tuple{st.bytesToSlice(nil, "ghost string"), c.True})
			return
		}
		if g := st.ghostByText(txt, "g"); ok && g != nil && g.kind == "str" {
			ret(Tuple{st.bytesToSlice(g.bytes, "ghost string"), c.True})
			return
		}
		ret(Tuple{e.zero(types.NewSlice(types.Typ[types.Uint8])), c.False})
	}
	e.intr[vrtPath+".JBase64"] = func(st *State, fn *ssa.Function, args []Value, ret func(Value)) {
		txt, ok := st.concreteBytes(args[0])
		if ok && txt == "" {
			ret(Tuple{st.bytesToSlice(nil, "ghost binary"), c.True})
			return
		}
		if g := st.ghostByText(txt, "b"); ok && g != nil && g.kind == "b64" {
			ret(Tuple{st.bytesToSlice(g.bytes, "ghost binary"), c.True})
			return
		}
		ret(Tuple{e.zero(types.NewSlice(types.Typ[types.Uint8])), c.False})
	}
}
