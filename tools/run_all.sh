#!/bin/bash
# runs every registered quick (or $1=thorough) check; prints one line each
tier=${1:-quick}
cd /verif
for p in $(python3 -c "import json;print(' '.join(c['property_id'] for c in json.load(open('MANIFEST.json'))['checks']))"); do
  s=$(date +%s)
  out=$(GOFLAGS=-mod=mod GOPROXY=off GOSUMDB=off GOTOOLCHAIN=local bin/vsym check -p $p -tier $tier 2>&1); rc=$?
  e=$(date +%s)
  echo "$p exit=$rc $((e-s))s $(echo "$out" | grep '^SUMMARY' | sed 's/SUMMARY property=[A-Z0-9]* //')"
  echo "$out" | grep "^VIOLATION\|^INCONCLUSIVE" | head -5
done
