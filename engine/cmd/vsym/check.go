package main

import (
	"crypto/sha1"
	"encoding/json"
	"flag"
	"fmt"
	"os"
	"os/exec"
	"path/filepath"
	"runtime"
	"sort"
	"strings"
	"sync"
	"time"

	"golang.org/x/tools/go/ssa"

	"verif/engine/sym"
)

// Finding is a candidate violation produced by the engine.
type Finding struct {
	Job     Job
	Kind    string
	Label   string // assertion label or KIND@function
	Detail  string
	Site    string
	Stack   []string
	Vec     []uint64
	Native  *ReplayResult
	Status  string // VIOLATION | KNOWN | UNCONFIRMED | UB-OBSERVED
	KnownID string
	What    string
}

type jobResult struct {
	job       Job
	paths     int
	steps     int64
	outcomes  map[string]int
	reached   map[string]int
	findings  []Finding
	unsupp    []string
	queries   int
	sat       int
	unsat     int
	unknown   int
	solverT   time.Duration
	wall      time.Duration
	funcs     map[string]int
	witnesses []witness
	stop      string
	aborted   string
	obligs    int
	recorded  []sym.RecordedQuery
}

type witness struct {
	vec     []uint64
	reached []string
	outcome string
}

func checkCmd(args []string) int {
	fs := flag.NewFlagSet("check", flag.ExitOnError)
	repo := fs.String("repo", "/repo", "repository")
	root := fs.String("root", "/verif", "verif root")
	prop := fs.String("p", "", "property id")
	tier := fs.String("tier", "", "quick|thorough (default $VERIF_TIER or quick)")
	only := fs.String("only", "", "run only harness ids with this prefix")
	workers := fs.Int("j", 0, "workers (default NumCPU)")
	solver := fs.String("solver", "z3-new", "solver")
	verbose := fs.Int("v", 0, "verbosity")
	noReplay := fs.Bool("no-replay", false, "skip native replay (debug only; never exits 0)")
	noEvidence := fs.Bool("no-evidence", false, "do not write the evidence file")
	fs.Parse(args)
	if *tier == "" {
		*tier = os.Getenv("VERIF_TIER")
	}
	if *tier != "thorough" {
		*tier = "quick"
	}
	seed := int64(0)
	fmt.Sscan(os.Getenv("VERIF_SEED"), &seed)
	if *workers <= 0 {
		*workers = runtime.NumCPU()
	}
	t0 := time.Now()
	spec, err := loadSpec(filepath.Join(*root, "checks", *prop+".json"))
	if err != nil {
		fmt.Fprintln(os.Stderr, "vsym:", err)
		return 2
	}
	known, err := loadKnown(filepath.Join(*root, "known_findings.json"))
	if err != nil {
		fmt.Fprintln(os.Stderr, "vsym:", err)
		return 2
	}
	harnessDir := filepath.Join(*root, "harness")

	// expand jobs, grouped by config
	byCfg := map[string][]Job{}
	pkgsByCfg := map[string]map[string]bool{}
	for i := range spec.Harnesses {
		h := &spec.Harnesses[i]
		if *only != "" && !strings.HasPrefix(h.ID, *only) {
			continue
		}
		if h.Config == "" {
			h.Config = "amd64"
		}
		jobs, err := expandJobs(h, *tier)
		if err != nil {
			fmt.Fprintln(os.Stderr, "vsym:", err)
			return 2
		}
		byCfg[h.Config] = append(byCfg[h.Config], jobs...)
		if len(jobs) > 0 {
			if pkgsByCfg[h.Config] == nil {
				pkgsByCfg[h.Config] = map[string]bool{}
			}
			pkgsByCfg[h.Config][h.Pkg] = true
		}
	}
	var all []*jobResult
	inconclusive := []string{}
	for _, cfg := range []string{"amd64", "portable"} {
		jobs := byCfg[cfg]
		if len(jobs) == 0 {
			continue
		}
		var pkgs []string
		for p := range pkgsByCfg[cfg] {
			pkgs = append(pkgs, p)
		}
		sort.Strings(pkgs)
		ov, err := sym.BuildOverlay(harnessDir, *repo)
		if err != nil {
			fmt.Fprintln(os.Stderr, "vsym:", err)
			return 2
		}
		goarch := ""
		if cfg == "portable" {
			goarch = "arm64"
		}
		tl := time.Now()
		prog, err := sym.Load(*repo, ov, goarch, pkgs...)
		if err != nil {
			fmt.Fprintln(os.Stderr, "vsym: load failed:", err)
			fmt.Printf("INCONCLUSIVE property=%s reason=load-failed\n", spec.Property)
			return 2
		}
		if *verbose > 0 {
			fmt.Fprintf(os.Stderr, "[%s] loaded %d packages in %v\n", cfg, len(prog.Prog.AllPackages()), time.Since(tl))
		}
		res := runJobs(prog, jobs, spec, *workers, *solver, *verbose, *tier)
		all = append(all, res...)
	}

	// native replay: findings + sample witnesses
	var findings []*Finding
	for _, r := range all {
		for i := range r.findings {
			findings = append(findings, &r.findings[i])
		}
		for _, u := range r.unsupp {
			inconclusive = append(inconclusive, r.job.String()+": "+u)
		}
		if r.stop != "" {
			inconclusive = append(inconclusive, r.job.String()+": stopped: "+r.stop)
		}
		if r.unknown > 0 {
			inconclusive = append(inconclusive, fmt.Sprintf("%s: %d solver unknowns", r.job.String(), r.unknown))
		}
	}
	// cross-solver diff on a sample of the decided queries
	cc := spec.CrossCheck
	if cc == 0 {
		cc = 24
	}
	for _, d := range crossCheck(all, cc) {
		inconclusive = append(inconclusive, d)
	}
	validated := 0
	validationMismatch := []string{}
	if !*noReplay {
		v, mm, err := replayAll(*repo, harnessDir, all, findings, *tier, seed)
		if err != nil {
			fmt.Fprintln(os.Stderr, "vsym: replay:", err)
			inconclusive = append(inconclusive, "native replay failed: "+err.Error())
		}
		validated = v
		validationMismatch = mm
		for _, m := range mm {
			inconclusive = append(inconclusive, "translator validation mismatch: "+m)
		}
	}

	// classify findings
	violations := 0
	knownHit := map[string]bool{}
	seenViol := map[string]bool{}
	for _, f := range findings {
		confirmed := false
		if f.Native != nil {
			switch f.Kind {
			case "ASSERT":
				confirmed = f.Native.Outcome == "ASSERT" && contains(f.Native.Failures, f.Label)
				if !confirmed && (f.Native.Outcome == "PANIC" || f.Native.Outcome == "CRASH" || f.Native.Outcome == "HANG") {
					confirmed = true
				}
			case "PANIC":
				confirmed = f.Native.Outcome == "PANIC" || f.Native.Outcome == "CRASH"
			case "OOB", "ROWRITE":
				confirmed = f.Native.Outcome == "PANIC" || f.Native.Outcome == "CRASH" || f.Native.Outcome == "ASSERT"
				if !confirmed {
					f.Status = "UB-OBSERVED"
				}
			case "ALLOC":
				// a multi-second stall while the runtime zeroes an attacker-sized allocation is the same defect
				confirmed = f.Native.Outcome == "ALLOC" || f.Native.Outcome == "PANIC" || f.Native.Outcome == "CRASH" || f.Native.Outcome == "HANG"
			case "UNWIND":
				confirmed = f.Native.Outcome == "HANG"
			}
		}
		if *noReplay {
			f.Status = "UNREPLAYED"
			continue
		}
		if !confirmed {
			if f.Status == "" {
				f.Status = "UNCONFIRMED"
				nat := "none"
				if f.Native != nil {
					nat = f.Native.Outcome + " " + strings.Join(f.Native.Failures, ",") + " " + f.Native.Panic
				}
				inconclusive = append(inconclusive, fmt.Sprintf("unconfirmed model for %s %s (%s): native=%s vec=%v", f.Job.String(), f.Kind, f.Label, nat, f.Vec))
			}
			continue
		}
		f.Status = "VIOLATION"
		for i := range known {
			if known[i].matches(spec.Property, f.Job.H.ID, f.Label) {
				f.Status = "KNOWN"
				f.KnownID = known[i].ID
				f.What = known[i].What
			}
		}
		if f.Status == "KNOWN" {
			knownHit[f.KnownID] = true
			continue
		}
		key := f.Job.H.ID + "|" + f.Label
		if seenViol[key] {
			continue
		}
		seenViol[key] = true
		violations++
		path := writeReplayFile(*root, spec.Property, f)
		fmt.Printf("VIOLATION property=%s replay=%s\n", spec.Property, path)
		fmt.Printf("  harness=%s %s label=%s\n  %s\n  at %s\n  native: %s %s\n", f.Job.String(), f.Kind, f.Label, f.Detail, f.Site, f.Native.Outcome, firstLine(f.Native.Panic))
	}
	for _, r := range all {
		if r.aborted == "" {
			continue
		}
		confirmed := false
		for i := range r.findings {
			if st := r.findings[i].Status; st == "VIOLATION" || st == "KNOWN" {
				confirmed = true
			}
		}
		if !confirmed {
			inconclusive = append(inconclusive, r.job.String()+": exploration aborted ("+r.aborted+") without a confirmed finding")
		}
	}
	for _, k := range known {
		if k.Property == spec.Property && k.Status == "known" {
			if knownHit[k.ID] {
				fmt.Printf("KNOWN-FINDING: property=%s %s: %s\n", spec.Property, k.ID, k.What)
			}
		}
	}
	ub := 0
	for _, f := range findings {
		if f.Status == "UB-OBSERVED" {
			ub++
			if *verbose > 0 {
				fmt.Printf("UB-OBSERVED property=%s harness=%s %s %s at %s vec=%v\n", spec.Property, f.Job.String(), f.Kind, f.Detail, f.Site, f.Vec)
			}
		}
	}

	// vacuity: every reach label of every harness must be reached in some job
	reachAll := map[string]map[string]int{}
	for _, r := range all {
		m := reachAll[r.job.H.ID]
		if m == nil {
			m = map[string]int{}
			reachAll[r.job.H.ID] = m
		}
		for k, v := range r.reached {
			m[k] += v
		}
	}
	for i := range spec.Harnesses {
		h := &spec.Harnesses[i]
		if _, ran := reachAll[h.ID]; !ran {
			continue
		}
		for _, l := range h.Reach {
			if reachAll[h.ID][l] == 0 {
				// a label may be unreachable because every path to it ended in a (known) finding
				inconclusive = append(inconclusive, fmt.Sprintf("vacuity: harness %s never reached label %q", h.ID, l))
			}
		}
	}

	wall := time.Since(t0).Seconds()
	if !*noEvidence {
		writeEvidence(*root, spec, *tier, seed, all, findings, validated, validationMismatch, inconclusive, wall, violations, *solver)
	}
	// summary
	tp, ts := 0, int64(0)
	tq := 0
	for _, r := range all {
		tp += r.paths
		ts += r.steps
		tq += r.queries
	}
	fmt.Printf("SUMMARY property=%s tier=%s jobs=%d paths=%d instrs=%d queries=%d validated=%d violations=%d known=%d ub_observed=%d inconclusive=%d wall=%.1fs\n",
		spec.Property, *tier, len(all), tp, ts, tq, validated, violations, len(knownHit), ub, len(inconclusive), wall)
	if len(inconclusive) > 0 {
		for i, s := range inconclusive {
			if i >= 30 {
				fmt.Printf("  ... %d more\n", len(inconclusive)-30)
				break
			}
			fmt.Printf("INCONCLUSIVE property=%s %s\n", spec.Property, s)
		}
	}
	if violations > 0 {
		return 1
	}
	if len(inconclusive) > 0 || *noReplay {
		return 2
	}
	return 0
}

func firstLine(s string) string {
	if i := strings.IndexByte(s, '\n'); i >= 0 {
		return s[:i]
	}
	return s
}

func contains(xs []string, s string) bool {
	for _, x := range xs {
		if x == s {
			return true
		}
	}
	return false
}

func runJobs(prog *sym.Program, jobs []Job, spec *Spec, workers int, solver string, verbose int, tier string) []*jobResult {
	if workers > len(jobs) {
		workers = len(jobs)
	}
	results := make([]*jobResult, len(jobs))
	ch := make(chan int, len(jobs))
	for i := range jobs {
		ch <- i
	}
	close(ch)
	var wg sync.WaitGroup
	tmo := spec.SolverMs
	if tmo == 0 {
		tmo = 10000
		if tier == "thorough" {
			tmo = 60000
		}
	}
	var mu sync.Mutex
	for w := 0; w < workers; w++ {
		wg.Add(1)
		go func() {
			defer wg.Done()
			for i := range ch {
				r := runJob(prog, jobs[i], spec, solver, tmo, verbose)
				results[i] = r
				if verbose > 0 {
					mu.Lock()
					fmt.Fprintf(os.Stderr, "  job %-50s paths=%-6d outcomes=%v queries=%d solver=%.1fs wall=%.1fs\n", jobs[i].String(), r.paths, r.outcomes, r.queries, r.solverT.Seconds(), r.wall.Seconds())
					mu.Unlock()
				}
			}
		}()
	}
	wg.Wait()
	return results
}

func findPkg(prog *sym.Program, rel string) *ssa.Package {
	ip := "github.com/cloudwego/dynamicgo"
	if rel != "." && rel != "./" {
		ip += "/" + strings.TrimPrefix(rel, "./")
	}
	return prog.ByPath[ip]
}

func runJob(prog *sym.Program, job Job, spec *Spec, solver string, timeoutMs int, verbose int) *jobResult {
	r := &jobResult{job: job, outcomes: map[string]int{}, reached: map[string]int{}, funcs: map[string]int{}}
	t0 := time.Now()
	e, err := sym.NewEngine(prog.Prog, solver, timeoutMs)
	if err != nil {
		r.unsupp = append(r.unsupp, "solver start: "+err.Error())
		return r
	}
	defer e.Close()
	e.InitAllow = sym.DefaultInitAllow
	e.Verbose = verbose - 1
	for k, v := range job.Params {
		e.Params[k] = v
	}
	if job.H.Steps > 0 {
		e.StepBudget = job.H.Steps
	}
	e.PathTimeout = 90 * time.Second
	if job.H.MaxPaths > 0 {
		e.MaxPaths = job.H.MaxPaths
	}
	if job.H.ConcCap > 0 {
		e.ConcCap = job.H.ConcCap
	}
	if job.H.Alloc != "" {
		budget := evalBudget(job.H.Alloc, job.Params)
		e.AllocMax = func(es int64) int64 { return budget / es }
	}
	for _, ns := range job.H.NoStubs {
		e.Unregister(ns)
	}
	e.Solver().Record = true
	e.Solver().RecordMax = 2
	pkg := findPkg(prog, job.H.Pkg)
	if pkg == nil {
		r.unsupp = append(r.unsupp, "package not loaded: "+job.H.Pkg)
		return r
	}
	if err := e.Prepare([]*ssa.Package{pkg}); err != nil {
		r.unsupp = append(r.unsupp, "init: "+err.Error())
		return r
	}
	fn := pkg.Func(job.H.Entry)
	if fn == nil {
		r.unsupp = append(r.unsupp, "no entry function "+job.H.Entry)
		return r
	}
	monitors := map[string]bool{"PANIC": true, "OOB": true, "ALLOC": true, "UNWIND": true, "ROWRITE": true}
	if len(job.H.Monitors) > 0 {
		monitors = map[string]bool{}
		for _, m := range job.H.Monitors {
			monitors[m] = true
		}
	}
	seenF := map[string]int{}
	seenU := map[string]bool{}
	nFind := 0
	e.Run(fn, func(pr sym.PathResult) {
		k := pr.Out.Kind.String()
		r.outcomes[k]++
		switch pr.Out.Kind {
		case sym.OutReturn:
			if len(r.witnesses) < 64 || pr.State.NumReached() > 0 && len(r.witnesses) < 256 {
				r.witnesses = append(r.witnesses, witness{vec: pr.State.InputVector(pr.Out.Model), reached: pr.State.ReachedLabels(), outcome: "OK"})
			}
		case sym.OutInfeasible:
		case sym.OutUnsupported:
			key := pr.Out.Label + " @ " + pr.Out.Site
			if !seenU[key] {
				seenU[key] = true
				r.unsupp = append(r.unsupp, "UNSUPPORTED "+key)
			}
		default:
			label := pr.Out.Label
			if pr.Out.Kind != sym.OutAssert {
				if !monitors[k] {
					return
				}
				label = k + "@" + topRepoFunc(pr.Out.Stack, pr.Out.Site)
			}
			key := k + "|" + label
			seenF[key]++
			if pr.Out.Kind == sym.OutUnwind && seenF[key] >= 2 {
				// a non-terminating path was found twice: every further path through the same loop costs a
				// full time budget; the finding is reported, the rest of this job is not explored
				e.Abort("non-termination finding " + label)
			}
			nFind++
			if nFind >= 64 && time.Since(t0) > 20*time.Second {
				// the job already carries findings to report; exploring every remaining path of a tree that
				// violates the property can take arbitrarily long (each violating path is another fork)
				e.Abort("many findings")
			}
			if seenF[key] > 3 { // keep a few witnesses per label
				return
			}
			r.findings = append(r.findings, Finding{Job: job, Kind: k, Label: label, Detail: pr.Out.Label, Site: pr.Out.Site, Stack: pr.Out.Stack, Vec: pr.State.InputVector(pr.Out.Model)})
		}
	})
	r.paths = e.Paths
	r.steps = e.Steps
	for k, v := range e.Reached {
		r.reached[k] = v
	}
	s := e.Solver()
	r.queries, r.sat, r.unsat, r.unknown, r.solverT = s.Queries, s.NSat, s.NUnsat, s.NUnk, s.Time
	r.stop = e.StopReason()
	r.aborted = e.Aborted()
	r.obligs = e.ObligTotal
	r.recorded = s.Recorded
	for f, n := range e.FuncsHit {
		if f.Pkg != nil && strings.HasPrefix(f.Pkg.Pkg.Path(), "github.com/cloudwego/dynamicgo") && !strings.Contains(f.Pkg.Pkg.Path(), "zzverif") && !strings.HasPrefix(f.Name(), "Verif") && !strings.HasPrefix(f.Name(), "verif") {
			r.funcs[f.String()] += n
		}
	}
	r.wall = time.Since(t0)
	return r
}

// topRepoFunc names the innermost function of /repo (not harness code) on the stack.
func topRepoFunc(stack []string, site string) string {
	for _, s := range stack {
		name := s
		if i := strings.Index(name, " ("); i >= 0 {
			name = name[:i]
		}
		if strings.Contains(name, "cloudwego/dynamicgo") && !strings.Contains(name, "zzverif") && !strings.Contains(name, ".Verif") && !strings.Contains(name, ".verif") {
			return shortFn(name)
		}
	}
	if i := strings.Index(site, " "); i >= 0 {
		site = site[:i]
	}
	return shortFn(site)
}

func shortFn(s string) string {
	return strings.ReplaceAll(s, "github.com/cloudwego/dynamicgo/", "")
}

func replayAll(repo, harnessDir string, all []*jobResult, findings []*Finding, tier string, seed int64) (validated int, mismatches []string, err error) {
	perJob := 4
	if tier == "thorough" {
		perJob = 16
	}
	for _, cfg := range []string{"amd64", "portable"} {
		var cases []ReplayCase
		type ref struct {
			f *Finding
			w *witness
			j Job
		}
		var refs []ref
		pkgs := map[string]bool{}
		for _, f := range findings {
			if f.Job.H.Config != cfg {
				continue
			}
			c := ReplayCase{Harness: f.Job.H.Entry, Pkg: f.Job.H.Pkg, Params: f.Job.Params, Vec: f.Vec, TimeoutMs: 10000}
			if f.Job.H.Alloc != "" {
				c.AllocMax = 2*evalBudget(f.Job.H.Alloc, f.Job.Params) + (1 << 16)
			}
			cases = append(cases, c)
			refs = append(refs, ref{f: f, j: f.Job})
			pkgs[f.Job.H.Pkg] = true
		}
		for _, r := range all {
			if r.job.H.Config != cfg {
				continue
			}
			n := len(r.witnesses)
			step := 1
			if n > perJob {
				step = n / perJob
			}
			cnt := 0
			for i := int(seed) % maxInt(step, 1); i < n && cnt < perJob; i += step {
				w := &r.witnesses[i]
				cases = append(cases, ReplayCase{Harness: r.job.H.Entry, Pkg: r.job.H.Pkg, Params: r.job.Params, Vec: w.vec, TimeoutMs: 20000})
				refs = append(refs, ref{w: w, j: r.job})
				pkgs[r.job.H.Pkg] = true
				cnt++
			}
		}
		if len(cases) == 0 {
			continue
		}
		rp := &Replayer{Repo: repo, HarnessDir: harnessDir, Portable: cfg == "portable"}
		for p := range pkgs {
			rp.Pkgs = append(rp.Pkgs, p)
		}
		res, rerr := rp.Run(cases)
		rp.Cleanup()
		if rerr != nil {
			return validated, mismatches, rerr
		}
		for i, rf := range refs {
			rr := res[i]
			if rf.f != nil {
				rf.f.Native = &rr
				continue
			}
			// witness of a passing path: native run must pass too and reach the same labels
			a := append([]string(nil), rf.w.reached...)
			b := uniq(rr.Reached)
			sort.Strings(a)
			if rr.Outcome == "OK" && strings.Join(a, ",") == strings.Join(b, ",") {
				validated++
			} else {
				mismatches = append(mismatches, fmt.Sprintf("%s vec=%v engine=OK%v native=%s%v %s", rf.j.String(), rf.w.vec, a, rr.Outcome, b, firstLine(rr.Panic)+strings.Join(rr.Failures, ",")))
			}
		}
	}
	return validated, mismatches, nil
}

func maxInt(a, b int) int {
	if a > b {
		return a
	}
	return b
}

func uniq(xs []string) []string {
	m := map[string]bool{}
	for _, x := range xs {
		m[x] = true
	}
	out := make([]string, 0, len(m))
	for x := range m {
		out = append(out, x)
	}
	sort.Strings(out)
	return out
}

func writeReplayFile(root, prop string, f *Finding) string {
	dir := filepath.Join(root, "out", "replays")
	os.MkdirAll(dir, 0755)
	c := ReplayCase{Harness: f.Job.H.Entry, Pkg: f.Job.H.Pkg, Params: f.Job.Params, Vec: f.Vec, TimeoutMs: 10000}
	doc := map[string]interface{}{"property": prop, "harness_id": f.Job.H.ID, "config": f.Job.H.Config, "case": c, "kind": f.Kind, "label": f.Label, "detail": f.Detail, "site": f.Site, "stack": f.Stack}
	b, _ := json.MarshalIndent(doc, "", " ")
	h := sha1.Sum(b)
	p := filepath.Join(dir, fmt.Sprintf("%s-%x.json", prop, h[:6]))
	os.WriteFile(p, b, 0644)
	return p
}

func writeEvidence(root string, spec *Spec, tier string, seed int64, all []*jobResult, findings []*Finding, validated int, mismatches, inconclusive []string, wall float64, violations int, solver string) {
	states, trans, queries, sat, unsat, obl := 0, int64(0), 0, 0, 0, 0
	var solverT time.Duration
	funcs := map[string]int{}
	type hsum struct {
		Jobs     int            `json:"jobs"`
		Paths    int            `json:"paths"`
		Outcomes map[string]int `json:"outcomes"`
		Reached  map[string]int `json:"reached"`
		Bounds   []string       `json:"bounds"`
	}
	hs := map[string]*hsum{}
	var samples []interface{}
	for _, r := range all {
		states += r.paths
		trans += r.steps
		queries += r.queries
		sat += r.sat
		unsat += r.unsat
		obl += r.obligs
		solverT += r.solverT
		for f, n := range r.funcs {
			funcs[f] += n
		}
		h := hs[r.job.H.ID]
		if h == nil {
			h = &hsum{Outcomes: map[string]int{}, Reached: map[string]int{}}
			hs[r.job.H.ID] = h
		}
		h.Jobs++
		h.Paths += r.paths
		for k, v := range r.outcomes {
			h.Outcomes[k] += v
		}
		for k, v := range r.reached {
			h.Reached[k] += v
		}
		h.Bounds = append(h.Bounds, strings.TrimPrefix(r.job.String(), r.job.H.ID+" "))
		if len(r.witnesses) > 0 && len(samples) < 40 {
			w := r.witnesses[len(r.witnesses)/2]
			samples = append(samples, map[string]interface{}{"harness": r.job.String(), "input_vector": w.vec, "reached": w.reached, "outcome": w.outcome})
		}
	}
	if len(samples) == 0 {
		samples = append(samples, map[string]interface{}{"note": "no completed path"})
	}
	var fl []string
	for f := range funcs {
		fl = append(fl, f)
	}
	sort.Strings(fl)
	var fnd []map[string]interface{}
	for _, f := range findings {
		fnd = append(fnd, map[string]interface{}{"harness": f.Job.String(), "kind": f.Kind, "label": f.Label, "status": f.Status, "known_id": f.KnownID, "site": f.Site, "vec": f.Vec})
	}
	ev := map[string]interface{}{
		"property_id": spec.Property,
		"tier":        tier,
		"seed":        seed,
		"level":       "model_checking",
		"wall_s":      wall,
		"violations":  violations,
		"assumptions": spec.Assume,
		"coverage": map[string]interface{}{
			"states":                        maxInt(states, 0),
			"transitions":                   trans,
			"traces_validated_against_impl": validated,
			"samples":                       samples,
			"exhaustive":                    false,
			"technique":                     "bounded symbolic execution of go/ssa (regenerated from /repo on this run) with SMT (" + solver + ") deciding every branch, bounds check and assertion",
			"rule":                          "states = feasible paths completed within the stated bounds; transitions = SSA instructions executed symbolically; traces_validated = solver models of completed paths replayed natively (go test -overlay) with identical reach labels and no assertion failure",
			"functions_encoded":             fl,
			"queries":                       queries,
			"queries_sat":                   sat,
			"queries_unsat":                 unsat,
			"assertion_obligations":         obl,
			"solver_time_s":                 solverT.Seconds(),
			"harnesses":                     hs,
			"findings":                      fnd,
			"translator_mismatches":         mismatches,
			"inconclusive":                  inconclusive,
			"outside_claim":                 spec.Outside,
			"stubs_used":                    spec.StubsUsed,
		},
	}
	if crossStats != nil {
		ev["coverage"].(map[string]interface{})["cross_solver"] = crossStats
	}
	b, _ := json.MarshalIndent(ev, "", " ")
	os.MkdirAll(filepath.Join(root, "evidence"), 0755)
	os.WriteFile(filepath.Join(root, "evidence", spec.Property+".json"), b, 0644)
}

// crossStats is filled by crossCheck and written into the evidence.
var crossStats map[string]interface{}

// crossCheck re-decides a sample of the recorded queries with the other installed solvers
// (z3 4.8.12 and cvc5) and returns a description of every disagreement.
func crossCheck(all []*jobResult, limit int) []string {
	var qs []sym.RecordedQuery
	for _, r := range all {
		qs = append(qs, r.recorded...)
	}
	if len(qs) == 0 || limit <= 0 {
		return nil
	}
	step := 1
	if len(qs) > limit {
		step = len(qs) / limit
	}
	var sample []sym.RecordedQuery
	for i := 0; i < len(qs) && len(sample) < limit; i += step {
		sample = append(sample, qs[i])
	}
	solvers := [][]string{{"z3", "-in", "-T:20"}, {"cvc5", "--lang=smt2", "--tlimit=20000"}}
	var bad []string
	agree := map[string]int{}
	unknown := map[string]int{}
	for _, q := range sample {
		want := "unsat"
		if q.Res == sym.Sat {
			want = "sat"
		}
		for _, sv := range solvers {
			cmd := exec.Command(sv[0], sv[1:]...)
			cmd.Stdin = strings.NewReader("(set-logic ALL)\n" + q.Script)
			out, _ := cmd.CombinedOutput()
			txt := strings.TrimSpace(string(out))
			first := txt
			if i := strings.IndexByte(txt, '\n'); i >= 0 {
				first = txt[:i]
			}
			switch {
			case first == want:
				agree[sv[0]]++
			case first == "sat" || first == "unsat":
				bad = append(bad, fmt.Sprintf("cross-solver disagreement: z3-new says %s, %s says %s", want, sv[0], first))
			default:
				unknown[sv[0]]++ // unknown / timeout / unsupported construct: no verdict
			}
		}
	}
	crossStats = map[string]interface{}{"queries_sampled": len(sample), "agree": agree, "no_verdict": unknown, "disagreements": len(bad)}
	return bad
}
