package t2j

import (
	"context"

	"github.com/cloudwego/dynamicgo/conv"
	vrt "github.com/cloudwego/dynamicgo/internal/zzverif"
	"github.com/cloudwego/dynamicgo/thrift"
	"github.com/cloudwego/dynamicgo/thrift/annotation"
)

func init() {
	vrt.Register("VerifC03_Field", VerifC03_Field)
}

// Schema of the C03/C13/C16 harnesses:
//
//	struct S { 1: bool b (alias "bb"), 2: byte y, 3: i16 h, 4: i32 i, 5: i64 l, 6: double d, 7: string s,
//	           8: binary bin, 9: list<i32> xs, 10: map<string,i32> m, 11: map<i64,string> im, 12: Inner sub, 13: set<string> ss }
//	struct Inner { 1: i32 x }
func verifSchema() *thrift.TypeDescriptor {
	inner := thrift.VerifStruct("Inner", thrift.Options{}, thrift.VField{ID: 1, Name: "x", Type: thrift.VerifBasic(thrift.I32), Req: 2})
	return thrift.VerifStruct("S", thrift.Options{},
		thrift.VField{ID: 1, Name: "b", Alias: "bb", Type: thrift.VerifBasic(thrift.BOOL), Req: 2},
		thrift.VField{ID: 2, Name: "y", Type: thrift.VerifBasic(thrift.BYTE), Req: 2},
		thrift.VField{ID: 3, Name: "h", Type: thrift.VerifBasic(thrift.I16), Req: 2},
		thrift.VField{ID: 4, Name: "i", Type: thrift.VerifBasic(thrift.I32), Req: 2},
		thrift.VField{ID: 5, Name: "l", Type: thrift.VerifBasic(thrift.I64), Req: 2},
		thrift.VField{ID: 6, Name: "d", Type: thrift.VerifBasic(thrift.DOUBLE), Req: 2},
		thrift.VField{ID: 7, Name: "s", Type: thrift.VerifBasic(thrift.STRING), Req: 2},
		thrift.VField{ID: 8, Name: "bin", Type: thrift.VerifBinary(), Req: 2},
		thrift.VField{ID: 9, Name: "xs", Type: thrift.VerifList(thrift.VerifBasic(thrift.I32)), Req: 2},
		thrift.VField{ID: 10, Name: "m", Type: thrift.VerifMap(thrift.VerifBasic(thrift.STRING), thrift.VerifBasic(thrift.I32)), Req: 2},
		thrift.VField{ID: 11, Name: "im", Type: thrift.VerifMap(thrift.VerifBasic(thrift.I64), thrift.VerifBasic(thrift.STRING)), Req: 2},
		thrift.VField{ID: 12, Name: "sub", Type: inner, Req: 2},
		thrift.VField{ID: 13, Name: "ss", Type: thrift.VerifSet(thrift.VerifBasic(thrift.STRING)), Req: 2},
		thrift.VField{ID: 14, Name: "bm", Type: thrift.VerifMap(thrift.VerifBasic(thrift.BYTE), thrift.VerifBasic(thrift.I32)), Req: 2},
		thrift.VField{ID: 15, Name: "hm", Type: thrift.VerifMap(thrift.VerifBasic(thrift.I16), thrift.VerifBasic(thrift.BOOL)), Req: 2},
	)
}

var verifAlias = map[int]string{1: "bb", 2: "y", 3: "h", 4: "i", 5: "l", 6: "d", 7: "s", 8: "bin", 9: "xs", 10: "m", 11: "im", 12: "sub", 13: "ss", 14: "bm", 15: "hm"}

func verifTok(out []byte, n vrt.JNode) []byte     { return out[n.Start:n.End] }
func verifStrBody(out []byte, n vrt.JNode) []byte { return out[n.Start+1 : n.End-1] }

func verifStrIs(out []byte, n vrt.JNode, want []byte) bool {
	if n.Kind != vrt.JString {
		return false
	}
	got, ok := vrt.JStr(verifStrBody(out, n))
	return ok && vrt.BytesEq(got, 0, len(got), want, 0, len(want))
}

func verifIntIs(out []byte, n vrt.JNode, want int64) bool {
	if n.Kind != vrt.JNumber {
		return false
	}
	got, ok := vrt.JNumInt(verifTok(out, n))
	return ok && got == want
}

// VerifC03_Field: a message with an optional leading i32 field, the field under test F (symbolic content),
// and an optional trailing unknown field; every value-affecting option bit symbolic.
func VerifC03_Field() {
	f := vrt.Param("F")
	desc := verifSchema()
	opts := conv.Options{
		Int642String:         vrt.Bool(),
		ByteAsUint8:          vrt.Bool(),
		NoBase64Binary:       vrt.Bool(),
		DisallowUnknownField: vrt.Bool(),
	}
	var in []byte
	lead := vrt.Bool()
	var leadV int
	if lead {
		leadV = int(int32(vrt.U32()))
		in = vrt.PutBE32(vrt.PutField(in, vrt.TI32, 4), leadV)
	}
	// the field under test
	var vBool bool
	var vInt int64
	var vBits uint64
	var vStr []byte
	var vInts []int
	var vKeys [][]byte
	var vIKeys []int64
	cnt := vrt.Param("CNT")
	switch f {
	case 1:
		vBool = vrt.Bool()
		x := byte(0)
		if vBool {
			x = 1
		}
		in = append(vrt.PutField(in, vrt.TBOOL, 1), x)
	case 2:
		x := vrt.U8()
		vInt = int64(x)
		in = append(vrt.PutField(in, vrt.TBYTE, 2), x)
	case 3:
		x := int16(vrt.U16())
		vInt = int64(x)
		in = vrt.PutBE16(vrt.PutField(in, vrt.TI16, 3), int(x))
	case 5:
		vInt = int64(vrt.U64())
		in = vrt.PutBE64(vrt.PutField(in, vrt.TI64, 5), vInt)
	case 6:
		vBits = vrt.U64()
		in = vrt.PutBE64(vrt.PutField(in, vrt.TDOUBLE, 6), int64(vBits))
	case 7, 8:
		vStr = vrt.Bytes(cnt)
		in = vrt.PutString(vrt.PutField(in, vrt.TSTRING, f), vStr)
	case 9:
		in = vrt.PutListHdr(vrt.PutField(in, vrt.TLIST, 9), vrt.TI32, cnt)
		for i := 0; i < cnt; i++ {
			x := int(int32(vrt.U32()))
			vInts = append(vInts, x)
			in = vrt.PutBE32(in, x)
		}
	case 10:
		in = vrt.PutMapHdr(vrt.PutField(in, vrt.TMAP, 10), vrt.TSTRING, vrt.TI32, cnt)
		for i := 0; i < cnt; i++ {
			k := vrt.Bytes(1)
			x := int(int32(vrt.U32()))
			vKeys = append(vKeys, k)
			vInts = append(vInts, x)
			in = vrt.PutBE32(vrt.PutString(in, k), x)
		}
	case 11:
		in = vrt.PutMapHdr(vrt.PutField(in, vrt.TMAP, 11), vrt.TI64, vrt.TSTRING, cnt)
		for i := 0; i < cnt; i++ {
			k := int64(vrt.U64())
			s := vrt.Bytes(1)
			vIKeys = append(vIKeys, k)
			vKeys = append(vKeys, s)
			in = vrt.PutString(vrt.PutBE64(in, k), s)
		}
	case 12:
		in = vrt.PutField(in, vrt.TSTRUCT, 12)
		if vrt.Bool() {
			x := int(int32(vrt.U32()))
			vInts = append(vInts, x)
			in = vrt.PutBE32(vrt.PutField(in, vrt.TI32, 1), x)
		}
		in = append(in, 0)
	case 14:
		in = vrt.PutMapHdr(vrt.PutField(in, vrt.TMAP, 14), vrt.TBYTE, vrt.TI32, cnt)
		for i := 0; i < cnt; i++ {
			k := vrt.U8()
			x := int(int32(vrt.U32()))
			vIKeys = append(vIKeys, int64(k))
			vInts = append(vInts, x)
			in = vrt.PutBE32(append(in, k), x)
		}
	case 15:
		in = vrt.PutMapHdr(vrt.PutField(in, vrt.TMAP, 15), vrt.TI16, vrt.TBOOL, cnt)
		for i := 0; i < cnt; i++ {
			k := int16(vrt.U16())
			vIKeys = append(vIKeys, int64(k))
			in = append(vrt.PutBE16(in, int(k)), 1)
		}
	case 13:
		in = vrt.PutListHdr(vrt.PutField(in, vrt.TSET, 13), vrt.TSTRING, cnt)
		for i := 0; i < cnt; i++ {
			s := vrt.Bytes(1)
			vKeys = append(vKeys, s)
			in = vrt.PutString(in, s)
		}
	}
	unknown := vrt.Bool()
	if unknown {
		in = append(vrt.PutField(in, vrt.TBYTE, 99), vrt.U8())
	}
	in = append(in, 0)

	vrt.GhostReset()
	cv := NewBinaryConv(opts)
	out, err := cv.Do(context.Background(), desc, in)
	if err != nil {
		// the statement allows failing with an error; an unknown field under the disallow option must fail
		vrt.Reach("error")
		return
	}
	vrt.Assert(!(unknown && opts.DisallowUnknownField), "C03.unknown-field.disallowed.error")
	vrt.Reach("converted")
	root, ok := vrt.JParse(out)
	vrt.Assert(ok, "C03.output.valid-json")
	if !ok {
		return
	}
	vrt.Assert(root.Kind == vrt.JObject, "C03.output.object")
	want := 1
	if lead {
		want = 2
	}
	vrt.Assert(len(root.Keys) == want, "C03.output.member-count")
	if len(root.Keys) != want {
		return
	}
	k := 0
	if lead {
		vrt.Assert(verifStrIs(out, root.Keys[0], []byte("i")), "C03.lead.key")
		vrt.Assert(verifIntIs(out, root.Elems[0], int64(leadV)), "C03.lead.value")
		k = 1
	}
	vrt.Assert(verifStrIs(out, root.Keys[k], []byte(verifAlias[f])), "C03.field.key")
	v := root.Elems[k]
	switch f {
	case 1:
		vrt.Assert((v.Kind == vrt.JTrue) == vBool && (v.Kind == vrt.JTrue || v.Kind == vrt.JFalse), "C03.bool.value")
	case 2:
		if opts.ByteAsUint8 {
			vrt.Assert(verifIntIs(out, v, vInt), "C03.byte.uint8.value")
		} else {
			vrt.Assert(verifIntIs(out, v, int64(int8(vInt))), "C03.byte.int8.value")
		}
	case 3:
		vrt.Assert(verifIntIs(out, v, vInt), "C03.i16.value")
	case 5:
		if opts.Int642String {
			vrt.Assert(v.Kind == vrt.JString, "C03.i64.string.kind")
			if v.Kind == vrt.JString {
				got, ok := vrt.JNumInt(verifStrBody(out, v))
				vrt.Assert(ok && got == vInt, "C03.i64.string.value")
			}
		} else {
			vrt.Assert(verifIntIs(out, v, vInt), "C03.i64.value")
		}
	case 6:
		vrt.Assert(v.Kind == vrt.JNumber, "C03.double.kind")
		if v.Kind == vrt.JNumber {
			got, ok := vrt.JNumFloatBits(verifTok(out, v))
			vrt.Assert(ok && got == vBits, "C03.double.value")
		}
	case 7:
		vrt.Assert(verifStrIs(out, v, vStr), "C03.string.value")
	case 8:
		if opts.NoBase64Binary {
			vrt.Assert(verifStrIs(out, v, vStr), "C03.binary.raw.value")
		} else {
			vrt.Assert(v.Kind == vrt.JString, "C03.binary.kind")
			if v.Kind == vrt.JString {
				got, ok := vrt.JBase64(verifStrBody(out, v))
				vrt.Assert(ok && vrt.BytesEq(got, 0, len(got), vStr, 0, len(vStr)), "C03.binary.base64.value")
			}
		}
	case 9:
		vrt.Assert(v.Kind == vrt.JArray && len(v.Elems) == cnt, "C03.list.shape")
		if v.Kind == vrt.JArray && len(v.Elems) == cnt {
			for i := range vInts {
				vrt.Assert(verifIntIs(out, v.Elems[i], int64(vInts[i])), "C03.list.element")
			}
		}
	case 10:
		vrt.Assert(v.Kind == vrt.JObject && len(v.Keys) == cnt, "C03.strmap.shape")
		if v.Kind == vrt.JObject && len(v.Keys) == cnt {
			for i := range vKeys {
				vrt.Assert(verifStrIs(out, v.Keys[i], vKeys[i]), "C03.strmap.key")
				vrt.Assert(verifIntIs(out, v.Elems[i], int64(vInts[i])), "C03.strmap.value")
			}
		}
	case 11:
		vrt.Assert(v.Kind == vrt.JObject && len(v.Keys) == cnt, "C03.intmap.shape")
		if v.Kind == vrt.JObject && len(v.Keys) == cnt {
			for i := range vIKeys {
				got, ok := vrt.JNumInt(verifStrBody(out, v.Keys[i]))
				vrt.Assert(ok && got == vIKeys[i], "C03.intmap.key")
				vrt.Assert(verifStrIs(out, v.Elems[i], vKeys[i]), "C03.intmap.value")
			}
		}
	case 14:
		vrt.Assert(v.Kind == vrt.JObject && len(v.Keys) == cnt, "C03.bytemap.shape")
		if v.Kind == vrt.JObject && len(v.Keys) == cnt {
			for i := range vIKeys {
				got, ok := vrt.JNumInt(verifStrBody(out, v.Keys[i]))
				want := int64(int8(vIKeys[i]))
				if opts.ByteAsUint8 {
					want = vIKeys[i]
				}
				vrt.Assert(ok && got == want, "C03.bytemap.key")
				vrt.Assert(verifIntIs(out, v.Elems[i], int64(vInts[i])), "C03.bytemap.value")
			}
		}
	case 15:
		vrt.Assert(v.Kind == vrt.JObject && len(v.Keys) == cnt, "C03.i16map.shape")
		if v.Kind == vrt.JObject && len(v.Keys) == cnt {
			for i := range vIKeys {
				got, ok := vrt.JNumInt(verifStrBody(out, v.Keys[i]))
				vrt.Assert(ok && got == vIKeys[i], "C03.i16map.key")
				vrt.Assert(v.Elems[i].Kind == vrt.JTrue, "C03.i16map.value")
			}
		}
	case 12:
		vrt.Assert(v.Kind == vrt.JObject && len(v.Keys) == len(vInts), "C03.struct.shape")
		if v.Kind == vrt.JObject && len(v.Keys) == len(vInts) && len(vInts) == 1 {
			vrt.Assert(verifStrIs(out, v.Keys[0], []byte("x")), "C03.struct.key")
			vrt.Assert(verifIntIs(out, v.Elems[0], int64(vInts[0])), "C03.struct.value")
		}
	case 13:
		vrt.Assert(v.Kind == vrt.JArray && len(v.Elems) == cnt, "C03.set.shape")
		if v.Kind == vrt.JArray && len(v.Elems) == cnt {
			for i := range vKeys {
				vrt.Assert(verifStrIs(out, v.Elems[i], vKeys[i]), "C03.set.element")
			}
		}
	}
}

func init() { vrt.Register("VerifC03_ValueMappingOff", VerifC03_ValueMappingOff) }

// VerifC03_ValueMappingOff: struct S2{1: i64 id (api.js_conv); 2: Inner in; 3: list<Inner> l}, Inner{1: i64 iid
// (api.js_conv)} converted with EnableValueMapping = false: annotated fields are emitted exactly like
// un-annotated ones (plain numbers), at the root, in a nested struct and in list elements.
func VerifC03_ValueMappingOff() {
	inner := thrift.VerifNewStruct("Inner", 2)
	fi := thrift.VerifAddField(inner, thrift.VField{ID: 1, Name: "iid", Type: thrift.VerifBasic(thrift.I64), Req: 2}, thrift.Options{})
	thrift.VerifSetValueMapping(fi, annotation.VerifJSConv(), 1)
	thrift.VerifBuild(inner)
	st := thrift.VerifNewStruct("S2", 4)
	f1 := thrift.VerifAddField(st, thrift.VField{ID: 1, Name: "id", Type: thrift.VerifBasic(thrift.I64), Req: 2}, thrift.Options{})
	thrift.VerifSetValueMapping(f1, annotation.VerifJSConv(), 1)
	thrift.VerifAddField(st, thrift.VField{ID: 2, Name: "in", Type: inner, Req: 2}, thrift.Options{})
	thrift.VerifAddField(st, thrift.VField{ID: 3, Name: "l", Type: thrift.VerifList(inner), Req: 2}, thrift.Options{})
	thrift.VerifBuild(st)
	v1, v2, v3 := int64(vrt.U64()), int64(vrt.U64()), int64(vrt.U64())
	var in []byte
	in = vrt.PutBE64(vrt.PutField(in, vrt.TI64, 1), v1)
	in = vrt.PutField(in, vrt.TSTRUCT, 2)
	in = append(vrt.PutBE64(vrt.PutField(in, vrt.TI64, 1), v2), 0)
	in = vrt.PutListHdr(vrt.PutField(in, vrt.TLIST, 3), vrt.TSTRUCT, 1)
	in = append(vrt.PutBE64(vrt.PutField(in, vrt.TI64, 1), v3), 0)
	in = append(in, 0)
	vrt.GhostReset()
	cv := NewBinaryConv(conv.Options{EnableValueMapping: false})
	out, err := cv.Do(context.Background(), st, in)
	vrt.Assert(err == nil, "C03.valuemapping-off.noerror")
	if err != nil {
		return
	}
	vrt.Reach("converted")
	root, ok := vrt.JParse(out)
	vrt.Assert(ok && root.Kind == vrt.JObject && len(root.Keys) == 3, "C03.valuemapping-off.valid-json")
	if !ok || root.Kind != vrt.JObject || len(root.Keys) != 3 {
		return
	}
	vrt.Assert(verifIntIs(out, root.Elems[0], v1), "C03.valuemapping-off.root.plain-number")
	n := root.Elems[1]
	vrt.Assert(n.Kind == vrt.JObject && len(n.Elems) == 1 && verifIntIs(out, n.Elems[0], v2), "C03.valuemapping-off.nested.plain-number")
	l := root.Elems[2]
	vrt.Assert(l.Kind == vrt.JArray && len(l.Elems) == 1 && l.Elems[0].Kind == vrt.JObject && len(l.Elems[0].Elems) == 1 && verifIntIs(out, l.Elems[0].Elems[0], v3), "C03.valuemapping-off.list-element.plain-number")
}

func init() { vrt.Register("VerifC03_UnknownSkipped", VerifC03_UnknownSkipped) }

// VerifC03_UnknownSkipped: struct U{1: string a; 3: string c} and a value that carries, between a and c, an
// unknown field 2 of shape UK with CNT elements: unless unknown fields are disallowed, the output is exactly
// {"a":..,"c":..} - the unknown value is skipped whole, whatever its type and size.
//   UK: 0 byte, 1 i64, 2 string, 3 list<i32>, 4 map<i32,i32>, 5 map<string,i64>, 6 map<byte,string>, 7 struct{1: list<byte>}, 8 set<double>, 9 list<string>
func VerifC03_UnknownSkipped() {
	uk := vrt.Param("UK")
	cnt := vrt.Param("CNT")
	desc := thrift.VerifStruct("U", thrift.Options{},
		thrift.VField{ID: 1, Name: "a", Type: thrift.VerifBasic(thrift.STRING), Req: 2},
		thrift.VField{ID: 3, Name: "c", Type: thrift.VerifBasic(thrift.STRING), Req: 2})
	a, c := []byte{vrt.U8() & 0x7f}, []byte{vrt.U8() & 0x7f, 'c'}
	var in []byte
	in = vrt.PutString(vrt.PutField(in, vrt.TSTRING, 1), a)
	switch uk {
	case 0:
		in = append(vrt.PutField(in, vrt.TBYTE, 2), vrt.U8())
	case 1:
		in = vrt.PutBE64(vrt.PutField(in, vrt.TI64, 2), int64(vrt.U64()))
	case 2:
		in = vrt.PutString(vrt.PutField(in, vrt.TSTRING, 2), vrt.Bytes(cnt))
	case 3:
		in = vrt.PutListHdr(vrt.PutField(in, vrt.TLIST, 2), vrt.TI32, cnt)
		for i := 0; i < cnt; i++ {
			in = vrt.PutBE32(in, int(int32(vrt.U32())))
		}
	case 4:
		in = vrt.PutMapHdr(vrt.PutField(in, vrt.TMAP, 2), vrt.TI32, vrt.TI32, cnt)
		for i := 0; i < cnt; i++ {
			in = vrt.PutBE32(vrt.PutBE32(in, int(int32(vrt.U32()))), int(int32(vrt.U32())))
		}
	case 5:
		in = vrt.PutMapHdr(vrt.PutField(in, vrt.TMAP, 2), vrt.TSTRING, vrt.TI64, cnt)
		for i := 0; i < cnt; i++ {
			in = vrt.PutBE64(vrt.PutString(in, vrt.Bytes(i)), int64(vrt.U64()))
		}
	case 6:
		in = vrt.PutMapHdr(vrt.PutField(in, vrt.TMAP, 2), vrt.TBYTE, vrt.TSTRING, cnt)
		for i := 0; i < cnt; i++ {
			in = vrt.PutString(append(in, vrt.U8()), vrt.Bytes(1))
		}
	case 7:
		in = vrt.PutField(in, vrt.TSTRUCT, 2)
		in = vrt.PutListHdr(vrt.PutField(in, vrt.TLIST, 1), vrt.TBYTE, cnt)
		for i := 0; i < cnt; i++ {
			in = append(in, vrt.U8())
		}
		in = append(in, 0)
	case 8:
		in = vrt.PutListHdr(vrt.PutField(in, vrt.TSET, 2), vrt.TDOUBLE, cnt)
		for i := 0; i < cnt; i++ {
			in = vrt.PutBE64(in, int64(vrt.U64()))
		}
	case 9:
		in = vrt.PutListHdr(vrt.PutField(in, vrt.TLIST, 2), vrt.TSTRING, cnt)
		for i := 0; i < cnt; i++ {
			in = vrt.PutString(in, vrt.Bytes(i+1))
		}
	}
	in = vrt.PutString(vrt.PutField(in, vrt.TSTRING, 3), c)
	in = append(in, 0)
	opts := conv.Options{DisallowUnknownField: vrt.Bool()}
	vrt.GhostReset()
	cv := NewBinaryConv(opts)
	out, err := cv.Do(context.Background(), desc, in)
	if opts.DisallowUnknownField {
		vrt.Reach("disallowed")
		vrt.Assert(err != nil, "C03.unknown-skipped.disallowed.error")
		return
	}
	vrt.Assert(err == nil, "C03.unknown-skipped.noerror")
	if err != nil {
		return
	}
	vrt.Reach("converted")
	root, ok := vrt.JParse(out)
	vrt.Assert(ok && root.Kind == vrt.JObject, "C03.unknown-skipped.valid-json")
	if !ok || root.Kind != vrt.JObject {
		return
	}
	vrt.Assert(len(root.Keys) == 2, "C03.unknown-skipped.member-count")
	if len(root.Keys) != 2 {
		return
	}
	vrt.Assert(verifStrIs(out, root.Keys[0], []byte("a")) && verifStrIs(out, root.Elems[0], a), "C03.unknown-skipped.field-before")
	vrt.Assert(verifStrIs(out, root.Keys[1], []byte("c")) && verifStrIs(out, root.Elems[1], c), "C03.unknown-skipped.field-after")
}
