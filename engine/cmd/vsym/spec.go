package main

import (
	"encoding/json"
	"fmt"
	"os"
	"sort"
	"strconv"
	"strings"
)

// Spec is /verif/checks/<id>.json.
type Spec struct {
	Property   string        `json:"property"`
	Level      string        `json:"level"`
	Harnesses  []HarnessSpec `json:"harnesses"`
	Assume     []string      `json:"assumptions"`
	Outside    []string      `json:"outside_claim"`
	StubsUsed  []string      `json:"stubs_used"`
	Functions  []string      `json:"functions_prefix"` // package path prefixes whose functions are listed as encoded
	SolverMs   int           `json:"solver_timeout_ms"`
	CrossCheck int           `json:"cross_check_queries"`
}

// HarnessSpec describes one harness entry point and its bounded parameter space.
type HarnessSpec struct {
	ID       string                       `json:"id"`
	Pkg      string                       `json:"pkg"`
	Entry    string                       `json:"entry"`
	Config   string                       `json:"config"` // amd64 | portable
	Params   map[string]map[string]string `json:"params"` // name -> tier -> "a..b" | "a,b,c"
	Reach    []string                     `json:"reach"`
	Steps    int                          `json:"step_budget"`
	Alloc    string                       `json:"alloc_budget"` // e.g. "64*N+8192" (bytes); "" = unchecked
	Tiers    []string                     `json:"tiers"`        // restrict harness to these tiers (default both)
	Monitors []string                     `json:"monitors"`     // outcome kinds that are violations besides ASSERT: PANIC,OOB,ALLOC,UNWIND,ROWRITE
	Note     string                       `json:"note"`
	MaxPaths int                          `json:"max_paths"`
	ConcCap  int                          `json:"conc_cap"`
	NoStubs  []string                     `json:"no_stubs"` // intrinsic names (substring match) to disable: the real code runs instead
}

func loadSpec(path string) (*Spec, error) {
	b, err := os.ReadFile(path)
	if err != nil {
		return nil, err
	}
	var s Spec
	if err := json.Unmarshal(b, &s); err != nil {
		return nil, fmt.Errorf("%s: %v", path, err)
	}
	return &s, nil
}

func parseRange(s string) ([]int64, error) {
	var out []int64
	for _, part := range strings.Split(s, ",") {
		part = strings.TrimSpace(part)
		if part == "" {
			continue
		}
		if i := strings.Index(part, ".."); i >= 0 {
			a, err1 := strconv.ParseInt(part[:i], 10, 64)
			b, err2 := strconv.ParseInt(part[i+2:], 10, 64)
			if err1 != nil || err2 != nil {
				return nil, fmt.Errorf("bad range %q", part)
			}
			for v := a; v <= b; v++ {
				out = append(out, v)
			}
			continue
		}
		v, err := strconv.ParseInt(part, 10, 64)
		if err != nil {
			return nil, fmt.Errorf("bad value %q", part)
		}
		out = append(out, v)
	}
	return out, nil
}

// Job is one (harness, parameter assignment).
type Job struct {
	H      *HarnessSpec
	Params map[string]int64
}

func (j Job) String() string {
	keys := make([]string, 0, len(j.Params))
	for k := range j.Params {
		keys = append(keys, k)
	}
	sort.Strings(keys)
	var sb strings.Builder
	sb.WriteString(j.H.ID)
	for _, k := range keys {
		fmt.Fprintf(&sb, " %s=%d", k, j.Params[k])
	}
	return sb.String()
}

func expandJobs(h *HarnessSpec, tier string) ([]Job, error) {
	if len(h.Tiers) > 0 {
		ok := false
		for _, t := range h.Tiers {
			if t == tier {
				ok = true
			}
		}
		if !ok {
			return nil, nil
		}
	}
	names := make([]string, 0, len(h.Params))
	for k := range h.Params {
		names = append(names, k)
	}
	sort.Strings(names)
	jobs := []Job{{H: h, Params: map[string]int64{}}}
	for _, n := range names {
		spec, ok := h.Params[n][tier]
		if !ok {
			spec = h.Params[n]["quick"]
		}
		vals, err := parseRange(spec)
		if err != nil {
			return nil, err
		}
		var next []Job
		for _, j := range jobs {
			for _, v := range vals {
				p := map[string]int64{}
				for k, x := range j.Params {
					p[k] = x
				}
				p[n] = v
				next = append(next, Job{H: h, Params: p})
			}
		}
		jobs = next
	}
	return jobs, nil
}

// evalBudget evaluates "a*N+b" style expressions over params (only + and * with integers/param names).
func evalBudget(expr string, params map[string]int64) int64 {
	total := int64(0)
	for _, term := range strings.Split(expr, "+") {
		prod := int64(1)
		for _, f := range strings.Split(term, "*") {
			f = strings.TrimSpace(f)
			if v, err := strconv.ParseInt(f, 10, 64); err == nil {
				prod *= v
			} else {
				prod *= params[f]
			}
		}
		total += prod
	}
	return total
}

// KnownFinding is an entry of /verif/known_findings.json.
type KnownFinding struct {
	Property string `json:"property"`
	ID       string `json:"id"`
	Status   string `json:"status"` // known | fixed
	Commit   string `json:"commit,omitempty"`
	Match    struct {
		Harness string `json:"harness"` // harness id (prefix match when ending in *)
		Assert  string `json:"assert"`  // assertion label, or KIND@function for monitors
	} `json:"match"`
	What string `json:"what"`
}

func loadKnown(path string) ([]KnownFinding, error) {
	b, err := os.ReadFile(path)
	if err != nil {
		if os.IsNotExist(err) {
			return nil, nil
		}
		return nil, err
	}
	var k []KnownFinding
	if err := json.Unmarshal(b, &k); err != nil {
		return nil, err
	}
	return k, nil
}

func (k *KnownFinding) matches(prop, harness, label string) bool {
	if k.Status != "known" || k.Property != prop {
		return false
	}
	h := k.Match.Harness
	if strings.HasSuffix(h, "*") {
		if !strings.HasPrefix(harness, strings.TrimSuffix(h, "*")) {
			return false
		}
	} else if h != harness {
		return false
	}
	return k.Match.Assert == label
}
