package sym

import (
	"fmt"
	"os"
	"path/filepath"
	"strings"

	"golang.org/x/tools/go/packages"
	"golang.org/x/tools/go/ssa"
	"golang.org/x/tools/go/ssa/ssautil"
)

// Program is a loaded, built SSA program plus the overlay used.
type Program struct {
	Prog    *ssa.Program
	Pkgs    []*ssa.Package
	ByPath  map[string]*ssa.Package
	Overlay map[string][]byte
}

// BuildOverlay maps every file under harnessDir onto the same relative path under repo.
func BuildOverlay(harnessDir, repo string) (map[string][]byte, error) {
	ov := map[string][]byte{}
	err := filepath.Walk(harnessDir, func(p string, info os.FileInfo, err error) error {
		if err != nil {
			return err
		}
		if info.IsDir() || !strings.HasSuffix(p, ".go") {
			return nil
		}
		rel, _ := filepath.Rel(harnessDir, p)
		b, err := os.ReadFile(p)
		if err != nil {
			return err
		}
		ov[filepath.Join(repo, rel)] = b
		return nil
	})
	return ov, err
}

// Load loads the patterns from repo with the overlay and builds SSA for everything.
func Load(repo string, overlay map[string][]byte, goarch string, patterns ...string) (*Program, error) {
	env := append(os.Environ(), "GOFLAGS=-mod=mod", "GOPROXY=off", "GOSUMDB=off", "GOTOOLCHAIN=local", "CGO_ENABLED=0")
	if goarch != "" {
		env = append(env, "GOARCH="+goarch)
	}
	cfg := &packages.Config{
		Mode:    packages.LoadAllSyntax,
		Dir:     repo,
		Env:     env,
		Overlay: overlay,
	}
	initial, err := packages.Load(cfg, patterns...)
	if err != nil {
		return nil, err
	}
	var errs []string
	packages.Visit(initial, nil, func(p *packages.Package) {
		for _, e := range p.Errors {
			errs = append(errs, e.Error())
		}
	})
	if len(errs) > 0 {
		if len(errs) > 10 {
			errs = errs[:10]
		}
		return nil, fmt.Errorf("load errors:\n%s", strings.Join(errs, "\n"))
	}
	prog, pkgs := ssautil.AllPackages(initial, ssa.InstantiateGenerics)
	prog.Build()
	out := &Program{Prog: prog, ByPath: map[string]*ssa.Package{}, Overlay: overlay}
	for _, p := range pkgs {
		if p != nil {
			out.Pkgs = append(out.Pkgs, p)
		}
	}
	for _, p := range prog.AllPackages() {
		out.ByPath[p.Pkg.Path()] = p
	}
	return out, nil
}
