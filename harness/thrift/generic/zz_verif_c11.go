package generic

import (
	vrt "github.com/cloudwego/dynamicgo/internal/zzverif"
	"github.com/cloudwego/dynamicgo/meta"
	"github.com/cloudwego/dynamicgo/thrift"
)

func init() {
	vrt.Register("VerifC11_Struct", VerifC11_Struct)
	vrt.Register("VerifC11_Containers", VerifC11_Containers)
}

// verifInnerDesc builds Inner{1: byte x, 2: i32 y} restricted to the fields selected by mask (bit0 = x, bit1 = y).
func verifInnerDesc(mask int) *thrift.TypeDescriptor {
	var fs []thrift.VField
	if mask&1 != 0 {
		fs = append(fs, thrift.VField{ID: 1, Name: "x", Type: thrift.VerifBasic(thrift.BYTE), Req: 2})
	}
	if mask&2 != 0 {
		fs = append(fs, thrift.VField{ID: 2, Name: "y", Type: thrift.VerifBasic(thrift.I32), Req: 2})
	}
	return thrift.VerifStruct("Inner", thrift.Options{}, fs...)
}

// verifDKind selects the type of the target-only field d (DTYPE): 0 i32, 1 map<string,i64>, 2 map<i32,string>,
// 3 list<double>, 4 string, 5 Inner, 6 set<i16>; verifDZero is its zero value.
var verifDKind int

func verifDType() *thrift.TypeDescriptor {
	switch verifDKind {
	case 1:
		return thrift.VerifMap(thrift.VerifBasic(thrift.STRING), thrift.VerifBasic(thrift.I64))
	case 2:
		return thrift.VerifMap(thrift.VerifBasic(thrift.I32), thrift.VerifBasic(thrift.STRING))
	case 3:
		return thrift.VerifList(thrift.VerifBasic(thrift.DOUBLE))
	case 4:
		return thrift.VerifBasic(thrift.STRING)
	case 5:
		return verifInnerDesc(3)
	case 6:
		return thrift.VerifSet(thrift.VerifBasic(thrift.I16))
	}
	return thrift.VerifBasic(thrift.I32)
}

func verifDZero(b []byte) []byte {
	switch verifDKind {
	case 1:
		return vrt.PutMapHdr(vrt.PutField(b, vrt.TMAP, 4), vrt.TSTRING, vrt.TI64, 0)
	case 2:
		return vrt.PutMapHdr(vrt.PutField(b, vrt.TMAP, 4), vrt.TI32, vrt.TSTRING, 0)
	case 3:
		return vrt.PutListHdr(vrt.PutField(b, vrt.TLIST, 4), vrt.TDOUBLE, 0)
	case 4:
		return vrt.PutString(vrt.PutField(b, vrt.TSTRING, 4), nil)
	case 5:
		return append(vrt.PutField(b, vrt.TSTRUCT, 4), 0)
	case 6:
		return vrt.PutListHdr(vrt.PutField(b, vrt.TSET, 4), vrt.TI16, 0)
	}
	return vrt.PutBE32(vrt.PutField(b, vrt.TI32, 4), 0)
}

// verifOuterDesc builds S{1: i32 a, 2: string b, 3: Inner c [, 4: i32 d (requiredness req)]} restricted by mask
// (bit0 a, bit1 b, bit2 c, bit3 d); inner is the descriptor used for c.
func verifOuterDesc(mask int, inner *thrift.TypeDescriptor, req int, abreq int) *thrift.TypeDescriptor {
	var fs []thrift.VField
	if mask&1 != 0 {
		fs = append(fs, thrift.VField{ID: 1, Name: "a", Type: thrift.VerifBasic(thrift.I32), Req: abreq})
	}
	if mask&2 != 0 {
		fs = append(fs, thrift.VField{ID: 2, Name: "b", Type: thrift.VerifBasic(thrift.STRING), Req: abreq})
	}
	if mask&4 != 0 {
		fs = append(fs, thrift.VField{ID: 3, Name: "c", Type: inner, Req: 2})
	}
	if mask&8 != 0 {
		fs = append(fs, thrift.VField{ID: 4, Name: "d", Type: verifDType(), Req: req})
	}
	return thrift.VerifStruct("S", thrift.Options{}, fs...)
}

// verifInnerValue appends an Inner value with symbolic presence/content, returning the projection onto mask as well.
func verifInnerValue(full, proj []byte, mask int) ([]byte, []byte) {
	if vrt.Bool() {
		x := vrt.U8()
		full = append(vrt.PutField(full, vrt.TBYTE, 1), x)
		if mask&1 != 0 {
			proj = append(vrt.PutField(proj, vrt.TBYTE, 1), x)
		}
	}
	if vrt.Bool() {
		y := int(int32(vrt.U32()))
		full = vrt.PutBE32(vrt.PutField(full, vrt.TI32, 2), y)
		if mask&2 != 0 {
			proj = vrt.PutBE32(vrt.PutField(proj, vrt.TI32, 2), y)
		}
	}
	return append(full, 0), append(proj, 0)
}

// VerifC11_Struct: cutting a value of S (any subset of its fields present, optionally an unknown field 9)
// into every sub/superset target descriptor (TMASK top level, IMASK nested) under the option bits OPT.
func VerifC11_Struct() {
	tmask := vrt.Param("TMASK")
	imask := vrt.Param("IMASK")
	verifDKind = vrt.Param("DTYPE")
	// requiredness of the target-only field and the three option bits are symbolic (forked in-harness)
	req := 0
	if tmask&8 != 0 {
		req = vrt.Conc(int(vrt.U8() % 3))
	}
	opts := &Options{DisallowUnknow: vrt.Bool(), NotCheckRequireNess: vrt.Bool(), WriteDefault: vrt.Bool()}
	srcInner := verifInnerDesc(3)
	src := verifOuterDesc(7, srcInner, 0, 2)
	abreq := 2 // AREQ=1: the target declares a and b with default requiredness (zero-filled under WriteDefault)
	if vrt.Param("AREQ") != 0 {
		abreq = 0
	}
	var dstInner *thrift.TypeDescriptor
	if imask == 3 && vrt.Param("SHARE") != 0 {
		dstInner = srcInner // pointer-shared sub-descriptor
	} else {
		dstInner = verifInnerDesc(imask)
	}
	dst := verifOuterDesc(tmask, dstInner, req, abreq)
	identical := false
	if vrt.Param("SAME") != 0 {
		dst = src
		tmask, imask = 7, 3
		identical = true
	}

	var full, proj []byte
	hasA, hasB := vrt.Bool(), vrt.Bool()
	if hasA {
		a := int(int32(vrt.U32()))
		full = vrt.PutBE32(vrt.PutField(full, vrt.TI32, 1), a)
		if tmask&1 != 0 {
			proj = vrt.PutBE32(vrt.PutField(proj, vrt.TI32, 1), a)
		}
	}
	if hasB {
		s := vrt.Bytes(1)
		full = vrt.PutString(vrt.PutField(full, vrt.TSTRING, 2), s)
		if tmask&2 != 0 {
			proj = vrt.PutString(vrt.PutField(proj, vrt.TSTRING, 2), s)
		}
	}
	if vrt.Bool() {
		full = vrt.PutField(full, vrt.TSTRUCT, 3)
		if tmask&4 != 0 {
			proj = vrt.PutField(proj, vrt.TSTRUCT, 3)
			full, proj = verifInnerValue(full, proj, imask)
		} else {
			full, _ = verifInnerValue(full, nil, imask)
		}
	}
	unknown := vrt.Bool()
	if unknown {
		full = append(vrt.PutField(full, vrt.TBYTE, 9), vrt.U8())
	}
	full = append(full, 0)
	orig := verifSnapshot(full)

	out, err := NewValue(src, full).MarshalTo(dst, opts)
	// model
	if identical {
		// statement: with identical descriptors cutting reproduces the input
		vrt.Reach("identical")
		vrt.Assert(err == nil, "C11.thrift.identical.noerror")
		if err == nil {
			vrt.Assert(vrt.BytesEq(out, 0, len(out), orig, 0, len(orig)), "C11.thrift.identical.reproduces-input")
		}
		return
	}
	if unknown && opts.DisallowUnknow {
		vrt.Reach("unknown-disallowed")
		vrt.Assert(err != nil, "C11.thrift.unknown.disallowed.error")
		return
	}
	extra := tmask&8 != 0 && !identical // target-only field d is never present in the source value
	if extra && req == 1 && !opts.NotCheckRequireNess {
		vrt.Reach("required-missing")
		vrt.Assert(err != nil, "C11.thrift.required-missing.error")
		return
	}
	vrt.Reach("projected")
	vrt.Assert(err == nil, "C11.thrift.noerror")
	if err != nil {
		return
	}
	if abreq == 0 && !identical && opts.WriteDefault && !opts.NotCheckRequireNess {
		// unset default-requiredness target fields are zero-filled after the copied fields, in id order
		if tmask&1 != 0 && !hasA {
			proj = vrt.PutBE32(vrt.PutField(proj, vrt.TI32, 1), 0)
		}
		if tmask&2 != 0 && !hasB {
			proj = vrt.PutString(vrt.PutField(proj, vrt.TSTRING, 2), nil)
		}
	}
	if extra && req == 0 && opts.WriteDefault && !opts.NotCheckRequireNess {
		vrt.Reach("zero-filled")
		proj = verifDZero(proj)
	}
	proj = append(proj, 0)
	vrt.Assert(vrt.BytesEq(out, 0, len(out), proj, 0, len(proj)), "C11.thrift.projection")
	vrt.Assert(vrt.BytesEq(full, 0, len(full), orig, 0, len(orig)), "C11.thrift.input-unchanged")
	_ = meta.ErrRead
}

// VerifC11_Containers: projection inside list<Inner> and map<string,Inner>.
func VerifC11_Containers() {
	imask := vrt.Param("IMASK")
	cnt := vrt.Param("CNT")
	opts := &Options{}
	srcInner := verifInnerDesc(3)
	dstInner := verifInnerDesc(imask)
	if imask == 3 && vrt.Param("SHARE") != 0 {
		dstInner = srcInner
	}
	mk := func(in *thrift.TypeDescriptor) *thrift.TypeDescriptor {
		return thrift.VerifStruct("C", thrift.Options{},
			thrift.VField{ID: 1, Name: "l", Type: thrift.VerifList(in), Req: 2},
			thrift.VField{ID: 2, Name: "m", Type: thrift.VerifMap(thrift.VerifBasic(thrift.STRING), in), Req: 2},
			// a map whose KEY is the struct that is cut, with a value type shared by both descriptors
			thrift.VField{ID: 3, Name: "km", Type: thrift.VerifMap(in, thrift.VerifBasic(thrift.I64)), Req: 2})
	}
	src, dst := mk(srcInner), mk(dstInner)
	var full, proj []byte
	full = vrt.PutListHdr(vrt.PutField(full, vrt.TLIST, 1), vrt.TSTRUCT, cnt)
	proj = vrt.PutListHdr(vrt.PutField(proj, vrt.TLIST, 1), vrt.TSTRUCT, cnt)
	for i := 0; i < cnt; i++ {
		full, proj = verifInnerValue(full, proj, imask)
	}
	full = vrt.PutMapHdr(vrt.PutField(full, vrt.TMAP, 2), vrt.TSTRING, vrt.TSTRUCT, cnt)
	proj = vrt.PutMapHdr(vrt.PutField(proj, vrt.TMAP, 2), vrt.TSTRING, vrt.TSTRUCT, cnt)
	for i := 0; i < cnt; i++ {
		k := []byte{byte('a' + i)}
		full = vrt.PutString(full, k)
		proj = vrt.PutString(proj, k)
		full, proj = verifInnerValue(full, proj, imask)
	}
	if vrt.Param("KEYMAP") != 0 {
		full = vrt.PutMapHdr(vrt.PutField(full, vrt.TMAP, 3), vrt.TSTRUCT, vrt.TI64, cnt)
		proj = vrt.PutMapHdr(vrt.PutField(proj, vrt.TMAP, 3), vrt.TSTRUCT, vrt.TI64, cnt)
		for i := 0; i < cnt; i++ {
			full, proj = verifInnerValue(full, proj, imask)
			v := int64(vrt.U64())
			full = vrt.PutBE64(full, v)
			proj = vrt.PutBE64(proj, v)
		}
	}
	full = append(full, 0)
	proj = append(proj, 0)
	out, err := NewValue(src, full).MarshalTo(dst, opts)
	vrt.Assert(err == nil, "C11.thrift.containers.noerror")
	if err != nil {
		return
	}
	vrt.Reach("projected")
	vrt.Assert(vrt.BytesEq(out, 0, len(out), proj, 0, len(proj)), "C11.thrift.containers.projection")
}
