package j2t

import (
	"github.com/cloudwego/dynamicgo/thrift/base"
	"context"
	"math"
	"strconv"

	"github.com/cloudwego/dynamicgo/conv"
	vrt "github.com/cloudwego/dynamicgo/internal/zzverif"
	"github.com/cloudwego/dynamicgo/internal/native/types"
	"github.com/cloudwego/dynamicgo/meta"
	"github.com/cloudwego/dynamicgo/thrift"
	"github.com/cloudwego/dynamicgo/thrift/annotation"
)

func init() {
	vrt.Register("VerifC02_Member", VerifC02_Member)
	vrt.Register("VerifC02_Malformed", VerifC02_Malformed)
	vrt.Register("VerifC02_TopScalar", VerifC02_TopScalar)
	vrt.Register("VerifC02_Flags", VerifC02_Flags)
	vrt.Register("VerifC02_Numbers", VerifC02_Numbers)
}

// Same schema as the t2j harnesses (S / Inner), see conv/t2j/zz_verif_c03.go.
func verifSchema(popts thrift.Options) *thrift.TypeDescriptor {
	inner := thrift.VerifStruct("Inner", popts, thrift.VField{ID: 1, Name: "x", Type: thrift.VerifBasic(thrift.I32), Req: 2})
	return thrift.VerifStruct("S", popts,
		thrift.VField{ID: 1, Name: "b", Alias: "bb", Type: thrift.VerifBasic(thrift.BOOL), Req: 2},
		thrift.VField{ID: 2, Name: "y", Type: thrift.VerifBasic(thrift.BYTE), Req: 2},
		thrift.VField{ID: 3, Name: "h", Type: thrift.VerifBasic(thrift.I16), Req: 2},
		thrift.VField{ID: 4, Name: "i", Type: thrift.VerifBasic(thrift.I32), Req: 2},
		thrift.VField{ID: 5, Name: "l", Type: thrift.VerifBasic(thrift.I64), Req: 2},
		thrift.VField{ID: 6, Name: "d", Type: thrift.VerifBasic(thrift.DOUBLE), Req: 2},
		thrift.VField{ID: 7, Name: "s", Type: thrift.VerifBasic(thrift.STRING), Req: 2},
		thrift.VField{ID: 8, Name: "bin", Type: thrift.VerifBinary(), Req: 2},
		thrift.VField{ID: 9, Name: "xs", Type: thrift.VerifList(thrift.VerifBasic(thrift.I32)), Req: 2},
		thrift.VField{ID: 10, Name: "m", Type: thrift.VerifMap(thrift.VerifBasic(thrift.STRING), thrift.VerifBasic(thrift.I32)), Req: 2},
		thrift.VField{ID: 11, Name: "im", Type: thrift.VerifMap(thrift.VerifBasic(thrift.I64), thrift.VerifBasic(thrift.STRING)), Req: 2},
		thrift.VField{ID: 12, Name: "sub", Type: inner, Req: 2},
		thrift.VField{ID: 13, Name: "ss", Type: thrift.VerifSet(thrift.VerifBasic(thrift.STRING)), Req: 2},
	)
}

// verifWSByte is the document's whitespace choice: one symbolic JSON whitespace byte (or none) that is
// used at every optional-whitespace position of the document.
var verifWSByte byte
var verifWSOn bool

func verifWSInit() {
	// WS parameter: 0 none, otherwise the whitespace byte used at every optional position
	w := vrt.Param("WS")
	verifWSOn = w != 0
	verifWSByte = byte(w)
}

func verifWS(b []byte) []byte {
	if verifWSOn {
		b = append(b, verifWSByte)
	}
	return b
}

// verifIntText appends the decimal text of a symbolic integer of up to 3 digits (no leading zeros)
// with optional '-' and returns its value.
func verifIntText(b []byte, digits int) ([]byte, int) {
	neg := vrt.Bool()
	if neg {
		b = append(b, '-')
	}
	v := 0
	for i := 0; i < digits; i++ {
		d := vrt.U8()
		vrt.Assume(d >= '0' && d <= '9')
		if i == 0 && digits > 1 {
			vrt.Assume(d != '0')
		}
		b = append(b, d)
		v = v*10 + int(d-'0')
	}
	if neg {
		v = -v
	}
	return b, v
}

// verifStrText appends a quoted JSON string of n symbolic printable ASCII bytes without escapes.
func verifStrText(b []byte, n int) ([]byte, []byte) {
	b = append(b, '"')
	var raw []byte
	for i := 0; i < n; i++ {
		c := vrt.U8()
		vrt.Assume(c >= 0x20 && c < 0x7f && c != '"' && c != '\\')
		b = append(b, c)
		raw = append(raw, c)
	}
	return append(b, '"'), raw
}

func verifErrIs(err error, code meta.ErrCode) bool {
	e, ok := err.(meta.Error)
	return ok && e.Code.Behavior() == code
}

// VerifC02_Member: document {[ "i": int ,] <member under test F> [, "zz": 1] [, "s": null]} with symbolic
// whitespace, scalar spellings and key spelling (name or alias), output capacity CAP.
func VerifC02_Member() {
	f := vrt.Param("F")
	digits := vrt.Param("DIG")
	desc := verifSchema(thrift.Options{})
	// one optional extra per document: 0 none, 1 leading "i" member, 2/3/4 unknown member (scalar / object /
	// array), 5 null member
	variant := vrt.Conc(int(vrt.U8() % 6))
	opts := conv.Options{NoBase64Binary: f == 8 && vrt.Bool()}
	if variant >= 2 && variant <= 4 {
		opts.DisallowUnknownField = vrt.Bool()
	}
	if f >= 2 && f <= 5 {
		opts.String2Int64 = vrt.Bool()
	}
	var doc, exp []byte
	verifWSInit()
	doc = verifWS(doc)
	doc = append(doc, '{')
	doc = verifWS(doc)
	first := true
	if variant == 1 {
		doc = append(doc, `"i"`...)
		doc = verifWS(doc)
		doc = append(doc, ':')
		var v int
		doc, v = verifIntText(doc, 1)
		exp = vrt.PutBE32(vrt.PutField(exp, vrt.TI32, 4), v)
		first = false
	}
	if !first {
		doc = verifWS(doc)
		doc = append(doc, ',')
		doc = verifWS(doc)
	}
	mismatch := false // the member's value kind contradicts the descriptor
	switch f {
	case 1:
		if vrt.Bool() {
			doc = append(doc, `"bb":`...) // alias
		} else {
			doc = append(doc, `"b":`...) // field name
		}
		doc = verifWS(doc)
		v := vrt.Bool()
		if v {
			doc = append(doc, "true"...)
			exp = append(vrt.PutField(exp, vrt.TBOOL, 1), 1)
		} else {
			doc = append(doc, "false"...)
			exp = append(vrt.PutField(exp, vrt.TBOOL, 1), 0)
		}
	case 2, 3, 4, 5:
		names := map[int]string{2: "y", 3: "h", 4: "i", 5: "l"}
		doc = append(doc, '"')
		doc = append(doc, names[f]...)
		doc = append(doc, '"', ':')
		doc = verifWS(doc)
		quoted := opts.String2Int64 && vrt.Bool()
		if quoted {
			doc = append(doc, '"')
		}
		var v int
		doc, v = verifIntText(doc, digits)
		if quoted {
			doc = append(doc, '"')
		}
		switch f {
		case 2:
			exp = append(vrt.PutField(exp, vrt.TBYTE, 2), byte(v))
		case 3:
			exp = vrt.PutBE16(vrt.PutField(exp, vrt.TI16, 3), v)
		case 4:
			exp = vrt.PutBE32(vrt.PutField(exp, vrt.TI32, 4), v)
		case 5:
			exp = vrt.PutBE64(vrt.PutField(exp, vrt.TI64, 5), int64(v))
		}
	case 7:
		doc = append(doc, `"s":`...)
		doc = verifWS(doc)
		var raw []byte
		doc, raw = verifStrText(doc, digits)
		exp = vrt.PutString(vrt.PutField(exp, vrt.TSTRING, 7), raw)
	case 8:
		doc = append(doc, `"bin":`...)
		if opts.NoBase64Binary {
			var raw []byte
			doc, raw = verifStrText(doc, 2)
			exp = vrt.PutString(vrt.PutField(exp, vrt.TSTRING, 8), raw)
		} else {
			doc = append(doc, `"YWI="`...)
			exp = vrt.PutString(vrt.PutField(exp, vrt.TSTRING, 8), []byte("ab"))
		}
	case 9:
		doc = append(doc, `"xs":`...)
		doc = verifWS(doc)
		doc = append(doc, '[')
		n := vrt.Param("CNT")
		exp = vrt.PutListHdr(vrt.PutField(exp, vrt.TLIST, 9), vrt.TI32, n)
		for i := 0; i < n; i++ {
			if i > 0 {
				doc = verifWS(doc)
				doc = append(doc, ',')
			}
			doc = verifWS(doc)
			var v int
			doc, v = verifIntText(doc, 1)
			exp = vrt.PutBE32(exp, v)
		}
		doc = verifWS(doc)
		doc = append(doc, ']')
	case 10:
		doc = append(doc, `"m":`...)
		doc = append(doc, '{')
		n := vrt.Param("CNT")
		exp = vrt.PutMapHdr(vrt.PutField(exp, vrt.TMAP, 10), vrt.TSTRING, vrt.TI32, n)
		for i := 0; i < n; i++ {
			if i > 0 {
				doc = append(doc, ',')
			}
			doc = verifWS(doc)
			var k []byte
			doc, k = verifStrText(doc, 1)
			doc = verifWS(doc)
			doc = append(doc, ':')
			doc = verifWS(doc)
			var v int
			doc, v = verifIntText(doc, 1)
			exp = vrt.PutBE32(vrt.PutString(exp, k), v)
		}
		doc = append(doc, '}')
	case 11:
		doc = append(doc, `"im":`...)
		doc = append(doc, '{')
		n := vrt.Param("CNT")
		exp = vrt.PutMapHdr(vrt.PutField(exp, vrt.TMAP, 11), vrt.TI64, vrt.TSTRING, n)
		for i := 0; i < n; i++ {
			if i > 0 {
				doc = append(doc, ',')
			}
			doc = append(doc, '"')
			var k int
			doc, k = verifIntText(doc, 1)
			doc = append(doc, '"', ':')
			var s []byte
			doc, s = verifStrText(doc, 1)
			exp = vrt.PutString(vrt.PutBE64(exp, int64(k)), s)
		}
		doc = append(doc, '}')
	case 12:
		doc = append(doc, `"sub":`...)
		doc = verifWS(doc)
		doc = append(doc, '{')
		exp = vrt.PutField(exp, vrt.TSTRUCT, 12)
		if vrt.Bool() {
			doc = append(doc, `"x":`...)
			var v int
			doc, v = verifIntText(doc, 1)
			exp = vrt.PutBE32(vrt.PutField(exp, vrt.TI32, 1), v)
		}
		doc = verifWS(doc)
		doc = append(doc, '}')
		exp = append(exp, 0)
	case 20: // kind contradiction: a string where an i32 is declared (without String2Int64), an object where a list is declared
		if vrt.Bool() {
			doc = append(doc, `"xs":{}`...)
		} else {
			vrt.Assume(!opts.String2Int64)
			doc = append(doc, `"i":"x"`...)
		}
		mismatch = true
	}
	unknown := variant >= 2 && variant <= 4
	if unknown {
		doc = verifWS(doc)
		doc = append(doc, `,"zz":`...)
		switch variant {
		case 2:
			doc = append(doc, '1')
		case 3:
			doc = append(doc, `{"a":[1,"}"]}`...)
		default:
			doc = append(doc, `[{},"]"]`...)
		}
	}
	if variant == 5 {
		// a null member is omitted
		doc = append(doc, `,"d":null`...)
	}
	doc = verifWS(doc)
	doc = append(doc, '}')
	doc = verifWS(doc)
	exp = append(exp, 0)

	cv := NewBinaryConv(opts)
	buf := make([]byte, 0, vrt.Param("CAP"))
	err := cv.DoInto(context.Background(), desc, doc, &buf)
	if mismatch {
		vrt.Reach("mismatch")
		vrt.Assert(err != nil, "C02.kind-mismatch.error")
		return
	}
	if unknown && opts.DisallowUnknownField {
		vrt.Reach("unknown-disallowed")
		vrt.Assert(err != nil && verifErrIs(err, meta.ErrUnknownField), "C02.unknown.disallowed.error")
		return
	}
	vrt.Reach("converted")
	vrt.Assert(err == nil, "C02.conforming.noerror")
	if err != nil {
		return
	}
	vrt.Assert(vrt.BytesEq(buf, 0, len(buf), exp, 0, len(exp)), "C02.conforming.encoding")
}

// VerifC02_Malformed: documents that are malformed inside their top-level value must yield an error.
// The document is a conforming skeleton with one structural byte replaced by a symbolic byte; the
// reference scanner decides whether the result is still well-formed JSON.
func VerifC02_Malformed() {
	desc := verifSchema(thrift.Options{})
	skels := []string{`{"i":1,"s":"ab"}`, `{"xs":[1,2],"m":{"k":3}}`, `{"sub":{"x":1},"bb":true}`, `{"d":1.5e2,"l":-7}`}
	doc := []byte(skels[vrt.Param("SK")])
	pos := vrt.Param("POS")
	if pos >= len(doc) {
		vrt.Reach("skip")
		return
	}
	c := vrt.U8()
	vrt.Assume(c != doc[pos])
	doc[pos] = c
	// the statement speaks of malformedness inside the top-level value: bytes after it are not judged
	_, _, ok := vrt.JParsePrefix(doc)
	cv := NewBinaryConv(conv.Options{})
	buf := make([]byte, 0, 64)
	err := cv.DoInto(context.Background(), desc, doc, &buf)
	if !ok {
		vrt.Reach("malformed")
		vrt.Assert(err != nil, "C02.malformed."+vrt.JErr+".error")
	} else {
		vrt.Reach("still-json")
	}
}

// VerifC02_TopScalar: a top-level STRING / I64 / BOOL descriptor fed N arbitrary bytes that start like
// the corresponding JSON scalar; malformed text inside the value must be an error.
func VerifC02_TopScalar() {
	n := vrt.Param("N")
	doc := vrt.Bytes(n)
	var desc *thrift.TypeDescriptor
	switch vrt.Param("T") {
	case 11:
		desc = thrift.VerifBasic(thrift.STRING)
		vrt.Assume(n > 0 && doc[0] == '"')
	case 10:
		desc = thrift.VerifBasic(thrift.I64)
		vrt.Assume(n > 0 && (doc[0] == '-' || (doc[0] >= '0' && doc[0] <= '9')))
	default:
		desc = thrift.VerifBasic(thrift.BOOL)
		vrt.Assume(n > 0 && (doc[0] == 't' || doc[0] == 'f'))
	}
	node, end, ok := vrt.JParsePrefix(doc)
	cv := NewBinaryConv(conv.Options{})
	buf := make([]byte, 0, 16)
	err := cv.DoInto(context.Background(), desc, doc, &buf)
	if !ok {
		vrt.Reach("malformed")
		vrt.Assert(err != nil, "C02.top-scalar.malformed."+vrt.JErr+".error")
	} else {
		vrt.Reach("wellformed")
		// a document that is exactly one literal of the descriptor's kind converts, to the denoted value
		if end == n && (node.Kind == vrt.JTrue || node.Kind == vrt.JFalse) {
			vrt.Assert(err == nil, "C02.top-scalar.bool.converts")
			if err == nil {
				vrt.Assert(len(buf) == 1 && (buf[0] == 1) == (node.Kind == vrt.JTrue) && buf[0] <= 1, "C02.top-scalar.bool.value")
			}
		}
		if end == n && node.Kind == vrt.JString {
			// (the label names the one escape the recorded finding KF-C02-7 is about, so that it hides nothing else)
			lab := "C02.top-scalar.string.converts"
			for i := 0; i+1 < n; i++ {
				if doc[i] == '\\' && doc[i+1] == '/' {
					lab = "C02.top-scalar.string.escaped-solidus.converts"
				}
			}
			vrt.Assert(err == nil, lab)
		}
	}
}

// VerifC02_Flags: the option bits handed to the converter core: each value-affecting option is
// passed on independently of all the others (every combination of the nine options).
func VerifC02_Flags() {
	o := conv.Options{
		WriteDefaultField: vrt.Bool(), DisallowUnknownField: vrt.Bool(), EnableValueMapping: vrt.Bool(),
		EnableHttpMapping: vrt.Bool(), String2Int64: vrt.Bool(), WriteRequireField: vrt.Bool(),
		NoBase64Binary: vrt.Bool(), WriteOptionalField: vrt.Bool(), ReadHttpValueFallback: vrt.Bool(),
	}
	cv := NewBinaryConv(o)
	f := cv.flags
	vrt.Assert((f&types.F_WRITE_DEFAULT != 0) == o.WriteDefaultField, "C02.flags.write-default")
	vrt.Assert((f&types.F_ALLOW_UNKNOWN != 0) == !o.DisallowUnknownField, "C02.flags.allow-unknown")
	vrt.Assert((f&types.F_VALUE_MAPPING != 0) == o.EnableValueMapping, "C02.flags.value-mapping")
	vrt.Assert((f&types.F_HTTP_MAPPING != 0) == o.EnableHttpMapping, "C02.flags.http-mapping")
	vrt.Assert((f&types.F_STRING_INT != 0) == o.String2Int64, "C02.flags.string-int")
	vrt.Assert((f&types.F_WRITE_REQUIRE != 0) == o.WriteRequireField, "C02.flags.write-require")
	vrt.Assert((f&types.F_NO_BASE64 != 0) == o.NoBase64Binary, "C02.flags.no-base64")
	vrt.Assert((f&types.F_WRITE_OPTIONAL != 0) == o.WriteOptionalField, "C02.flags.write-optional")
	vrt.Assert((f&types.F_TRACE_BACK != 0) == o.ReadHttpValueFallback, "C02.flags.trace-back")
	var cv2 BinaryConv
	cv2.SetOptions(o)
	vrt.Assert(cv2.flags == f, "C02.flags.setoptions-same")
	vrt.Reach("done")
}

var verifNumberSpellings = []string{"0", "-0", "7", "-12", "1.5", "-0.25", "1e2", "1E2", "1.5E3", "1.5e+3", "25E-1", "1e-2", "0.0", "123456789012", "9007199254740993", "1.7976931348623157e308", "5e-324"}

// VerifC02_Numbers: number spellings (decimal / exponent forms, both exponent letters, signs) for a DOUBLE
// member, inside an object and inside an array; the denoted value is what strconv.ParseFloat gives.
func VerifC02_Numbers() {
	desc := verifSchema(thrift.Options{})
	sp := verifNumberSpellings[vrt.Param("SP")%len(verifNumberSpellings)]
	want, err0 := strconv.ParseFloat(sp, 64)
	if err0 != nil {
		return
	}
	var doc []byte
	doc = append(doc, `{"d":`...)
	doc = append(doc, sp...)
	if vrt.Bool() {
		doc = append(doc, ' ')
	}
	doc = append(doc, '}')
	cv := NewBinaryConv(conv.Options{})
	buf := make([]byte, 0, 32)
	err := cv.DoInto(context.Background(), desc, doc, &buf)
	vrt.Assert(err == nil, "C02.number.spelling.noerror")
	if err != nil {
		return
	}
	exp := vrt.PutBE64(vrt.PutField(nil, vrt.TDOUBLE, 6), int64(math.Float64bits(want)))
	exp = append(exp, 0)
	vrt.Reach("converted")
	label := "C02.number.spelling.value"
	if sp == "-0" {
		label = "C02.number.spelling.negative-zero.value"
	}
	vrt.Assert(vrt.BytesEq(buf, 0, len(buf), exp, 0, len(exp)), label)
}

func init() { vrt.Register("VerifC02_ValueMapping", VerifC02_ValueMapping) }

// VerifC02_ValueMapping: struct{1: i64 id (api.js_conv, requiredness R); 2: string msg} with EnableValueMapping:
// {"id":"<digits>","msg":"m"} or {"id":<digits>,...}: the field is written exactly once with the denoted value
// (a value-mapped member counts as present for the requiredness bookkeeping), the other member is unaffected.
func VerifC02_ValueMapping() {
	r := vrt.Param("R")
	st := thrift.VerifNewStruct("V", 3)
	fid := thrift.VerifAddField(st, thrift.VField{ID: 1, Name: "id", Type: thrift.VerifBasic(thrift.I64), Req: r}, thrift.Options{})
	thrift.VerifSetValueMapping(fid, annotation.VerifJSConv(), 1)
	thrift.VerifAddField(st, thrift.VField{ID: 2, Name: "msg", Type: thrift.VerifBasic(thrift.STRING), Req: 2}, thrift.Options{})
	thrift.VerifBuild(st)
	opts := conv.Options{EnableValueMapping: true, WriteRequireField: vrt.Bool(), WriteDefaultField: vrt.Bool(), WriteOptionalField: vrt.Bool()}
	quoted := vrt.Bool()
	d1 := vrt.U8()
	vrt.Assume(d1 >= '1' && d1 <= '9')
	d2 := vrt.U8()
	vrt.Assume(d2 >= '0' && d2 <= '9')
	doc := []byte(`{"id":`)
	if quoted {
		doc = append(doc, '"', d1, d2, '"')
	} else {
		doc = append(doc, d1, d2)
	}
	doc = append(doc, `,"msg":"m"}`...)
	val := int64(d1-'0')*10 + int64(d2-'0')
	var want []byte
	want = vrt.PutBE64(vrt.PutField(want, vrt.TI64, 1), val)
	want = vrt.PutString(vrt.PutField(want, vrt.TSTRING, 2), []byte("m"))
	want = append(want, 0)
	cv := NewBinaryConv(opts)
	out, err := cv.Do(context.Background(), st, doc)
	vrt.Assert(err == nil, "C02.valuemapping.converts")
	if err != nil {
		return
	}
	vrt.Reach("converted")
	vrt.Assert(vrt.TWellFormed(out, vrt.TSTRUCT, 3), "C02.valuemapping.well-formed")
	vrt.Assert(vrt.BytesEq(out, 0, len(out), want, 0, len(want)), "C02.valuemapping.field-written-once-with-value")
}

func init() {
	vrt.Register("VerifC02_Escapes", VerifC02_Escapes)
	vrt.Register("VerifC02_SkippedValues", VerifC02_SkippedValues)
}

// VerifC02_Escapes: a top-level JSON string built from one symbolic plain character, one escape sequence of
// the table ESC (every short escape, BMP \u escapes in both hex cases, a surrogate pair) and an optional plain
// tail converts to exactly the denoted UTF-8 text; ESC=0 is \u00XY with symbolic hex digits.
func VerifC02_Escapes() {
	type esc struct{ text, want string }
	tab := []esc{
		{"", ""}, // placeholder for the symbolic \u00XY case
		{`\n`, "\n"}, {`\t`, "\t"}, {`\r`, "\r"}, {`\b`, "\b"}, {`\f`, "\f"}, {`\"`, "\""}, {`\\`, "\\"},
		{"\\u000b", "\x0b"},
		{"\\u001F", "\x1f"},
		{"\\u001a", "\x1a"},
		{"\\u00e9", "\xc3\xa9"},
		{"\\u00E9", "\xc3\xa9"},
		{"\\u2028", "\xe2\x80\xa8"},
		{"\\uffff", "\xef\xbf\xbf"},
		{"\\u0041", "A"},
		{"\\ud83d" + "\\ude00", "\xf0\x9f\x98\x80"},
		{"\\uD83D" + "\\uDE00", "\xf0\x9f\x98\x80"},
		{"\\ud800" + "\\udc00", "\xf0\x90\x80\x80"},
		{"\\udbff" + "\\udfff", "\xf4\x8f\xbf\xbf"},
	}
	e := tab[vrt.Param("ESC")]
	if vrt.Param("ESC") == 0 {
		hexv := func(c byte) int {
			switch {
			case c >= '0' && c <= '9':
				return int(c - '0')
			case c >= 'a' && c <= 'f':
				return int(c-'a') + 10
			}
			return int(c-'A') + 10
		}
		x, y := vrt.U8(), vrt.U8()
		isHex := func(c byte) bool {
			return (c >= '0' && c <= '9') || (c >= 'a' && c <= 'f') || (c >= 'A' && c <= 'F')
		}
		vrt.Assume(isHex(x) && isHex(y))
		v := hexv(x)<<4 | hexv(y)
		e.text = string([]byte{'\\', 'u', '0', '0', x, y})
		if v < 0x80 {
			e.want = string([]byte{byte(v)})
		} else {
			e.want = string([]byte{0xc0 | byte(v>>6), 0x80 | byte(v&0x3f)})
		}
	}
	c := vrt.U8()
	vrt.Assume(c >= 0x20 && c < 0x7f && c != '"' && c != '\\')
	tail := vrt.Param("TAIL")
	doc := []byte{'"', c}
	doc = append(doc, e.text...)
	want := append([]byte{c}, e.want...)
	for i := 0; i < tail; i++ {
		doc = append(doc, 'z')
		want = append(want, 'z')
	}
	doc = append(doc, '"')
	cv := NewBinaryConv(conv.Options{})
	buf := make([]byte, 0, 8)
	err := cv.DoInto(context.Background(), thrift.VerifBasic(thrift.STRING), doc, &buf)
	vrt.Assert(err == nil, "C02.escapes.converts")
	if err != nil {
		return
	}
	vrt.Reach("converted")
	exp := vrt.PutString(nil, want)
	vrt.Assert(vrt.BytesEq(buf, 0, len(buf), exp, 0, len(exp)), "C02.escapes.denoted-text")
}

// VerifC02_SkippedValues: an unknown member whose value is any JSON value of the table (number spellings with
// fractions and signed exponents, strings holding brackets and escapes, nested containers, literals) is
// skipped whole: the document converts to what it converts to without that member.
func VerifC02_SkippedValues() {
	vals := []string{
		`0`, `-0`, `12`, `1.5`, `-1.5e3`, `1e5`, `1E5`, `1e-5`, `6.02E+23`, `-0.5e+1`, `0.0e-0`,
		`"x"`, `"a}b"`, `"a]b"`, `"q\"}"`, `"\\"`, `"]"`, `""`,
		`true`, `false`, `null`,
		`[]`, `{}`, `[1,2]`, `{"a":1}`, `[[],{}]`, `{"a":{"b":"}"}}`, `[ "]" , 1e-2 ]`, `{"k":[1e+2,"}"]}`,
	}
	v := vals[vrt.Param("V")]
	where := vrt.Param("WHERE") // 0 first member, 1 between, 2 last
	st := thrift.VerifStruct("U", thrift.Options{},
		thrift.VField{ID: 1, Name: "a", Type: thrift.VerifBasic(thrift.I32), Req: 2},
		thrift.VField{ID: 2, Name: "msg", Type: thrift.VerifBasic(thrift.STRING), Req: 2})
	d := vrt.U8()
	vrt.Assume(d >= '0' && d <= '9')
	a := `"a":` + string([]byte{d})
	m := `"msg":"m"`
	u := `"zz":` + v
	var doc string
	switch where {
	case 0:
		doc = "{" + u + "," + a + "," + m + "}"
	case 1:
		doc = "{" + a + "," + u + "," + m + "}"
	default:
		doc = "{" + a + "," + m + "," + u + "}"
	}
	var want []byte
	want = vrt.PutBE32(vrt.PutField(want, vrt.TI32, 1), int(d-'0'))
	want = vrt.PutString(vrt.PutField(want, vrt.TSTRING, 2), []byte("m"))
	want = append(want, 0)
	cv := NewBinaryConv(conv.Options{})
	out, err := cv.Do(context.Background(), st, []byte(doc))
	vrt.Assert(err == nil, "C02.skipped-value.converts")
	if err != nil {
		return
	}
	vrt.Reach("converted")
	vrt.Assert(vrt.BytesEq(out, 0, len(out), want, 0, len(want)), "C02.skipped-value.rest-unchanged")
}

func init() { vrt.Register("VerifC02_ThriftBase", VerifC02_ThriftBase) }

// VerifC02_ThriftBase: EnableThriftBase with a *base.Base handed over in the context: for every free capacity
// of the caller's buffer (CAP sweeps the neighbourhood of the encoded size of the Base) the document converts
// and the Base is written once, as field 255, before the body fields.
func VerifC02_ThriftBase() {
	bs := thrift.VerifStruct("Base", thrift.Options{}, thrift.VField{ID: 1, Name: "LogID", Type: thrift.VerifBasic(thrift.STRING), Req: 0})
	st := thrift.VerifNewStruct("Req", 256)
	thrift.VerifAddField(st, thrift.VField{ID: 1, Name: "msg", Type: thrift.VerifBasic(thrift.STRING), Req: 2}, thrift.Options{})
	fb := thrift.VerifAddField(st, thrift.VField{ID: 255, Name: "Base", Type: bs, Req: 0}, thrift.Options{})
	thrift.VerifSetRequestBase(st, fb)
	thrift.VerifBuild(st)
	b := &base.Base{LogID: string([]byte{vrt.U8() & 0x7f, 'L'}), Caller: "c"}
	n := b.BLength()
	enc := make([]byte, n)
	b.FastWrite(enc)
	doc := []byte(`{"msg":"m"}`)
	if vrt.Param("EMPTY") != 0 {
		doc = []byte(`{}`)
	}
	free := n + vrt.Param("DELTA") - 3 // free capacity of the caller's buffer: n-3 .. n+5
	if free < 0 {
		free = 0
	}
	buf := make([]byte, 2, 2+free)
	buf[0], buf[1] = 0xAA, 0xBB // caller's own prefix, kept by DoInto
	ctx := context.WithValue(context.Background(), conv.CtxKeyThriftReqBase, b)
	cv := NewBinaryConv(conv.Options{EnableThriftBase: true})
	err := cv.DoInto(ctx, st, doc, &buf)
	vrt.Assert(err == nil, "C02.thriftbase.converts")
	if err != nil {
		return
	}
	vrt.Reach("converted")
	want := []byte{0xAA, 0xBB}
	want = append(vrt.PutField(want, vrt.TSTRUCT, 255), enc...)
	if vrt.Param("EMPTY") == 0 {
		want = vrt.PutString(vrt.PutField(want, vrt.TSTRING, 1), []byte("m"))
	}
	want = append(want, 0)
	vrt.Assert(vrt.BytesEq(buf, 0, len(buf), want, 0, len(want)), "C02.thriftbase.base-then-body")
}
