package annotation

import (
	"context"

	vrt "github.com/cloudwego/dynamicgo/internal/zzverif"
	"github.com/cloudwego/dynamicgo/thrift"
)

func init() { vrt.Register("VerifC17_NoBodyStruct", VerifC17_NoBodyStruct) }

type verifNBReq struct{ qa, qb, hc string }

func (r *verifNBReq) GetMethod() string { return "GET" }
func (r *verifNBReq) GetHost() string   { return "h" }
func (r *verifNBReq) GetUri() string    { return "/u" }
func (r *verifNBReq) GetHeader(k string) string {
	if k == "C" {
		return r.hc
	}
	return ""
}
func (r *verifNBReq) GetCookie(string) string { return "" }
func (r *verifNBReq) GetQuery(k string) string {
	switch k {
	case "a":
		return r.qa
	case "b":
		return r.qb
	}
	return ""
}
func (r *verifNBReq) GetParam(string) string    { return "" }
func (r *verifNBReq) GetPostForm(string) string { return "" }
func (r *verifNBReq) GetMapBody(string) string  { return "" }
func (r *verifNBReq) GetBody() []byte           { return nil }

// VerifC17_NoBodyStruct: api.no_body_struct on a field of type In{1: i32 a (api.query "a"); 2: i32 b (api.query
// "b"); 3: string c (api.header "C")}: every member is taken from its own source when that source has a value
// and is written as the zero value otherwise - independently of the other members (any subset present).
func VerifC17_NoBodyStruct() {
	in := thrift.VerifNewStruct("In", 4)
	fa := thrift.VerifAddField(in, thrift.VField{ID: 1, Name: "a", Type: thrift.VerifBasic(thrift.I32), Req: 0}, thrift.Options{})
	fb := thrift.VerifAddField(in, thrift.VField{ID: 2, Name: "b", Type: thrift.VerifBasic(thrift.I32), Req: 0}, thrift.Options{})
	fc := thrift.VerifAddField(in, thrift.VField{ID: 3, Name: "c", Type: thrift.VerifBasic(thrift.STRING), Req: 0}, thrift.Options{})
	thrift.VerifAddHTTP(in, fa, apiQuery{value: "a"})
	thrift.VerifAddHTTP(in, fb, apiQuery{value: "b"})
	thrift.VerifAddHTTP(in, fc, apiHeader{value: "C"})
	thrift.VerifBuild(in)
	outer := thrift.VerifNewStruct("Req", 2)
	fin := thrift.VerifAddField(outer, thrift.VField{ID: 1, Name: "in", Type: in, Req: 0}, thrift.Options{})
	thrift.VerifBuild(outer)

	digit := func() (string, int) {
		d := vrt.U8()
		vrt.Assume(d >= '1' && d <= '9')
		return string([]byte{d}), int(d - '0')
	}
	req := &verifNBReq{}
	av, bv := 0, 0
	var cv []byte
	if vrt.Bool() {
		req.qa, av = digit()
	}
	if vrt.Bool() {
		req.qb, bv = digit()
	}
	if vrt.Bool() {
		c := vrt.U8()
		vrt.Assume(c >= 'a' && c <= 'z')
		cv = []byte{c, 'x'}
		req.hc = string(cv)
	}
	vrt.GhostReset()
	out, err := apiNoBodyStruct{}.Request(context.Background(), req, fin)
	vrt.Assert(err == nil, "C17.no-body-struct.noerror")
	if err != nil {
		return
	}
	vrt.Reach("built")
	var want []byte
	want = vrt.PutBE32(vrt.PutField(want, vrt.TI32, 1), av)
	want = vrt.PutBE32(vrt.PutField(want, vrt.TI32, 2), bv)
	want = vrt.PutString(vrt.PutField(want, vrt.TSTRING, 3), cv)
	want = append(want, 0)
	got := []byte(out)
	vrt.Assert(vrt.BytesEq(got, 0, len(got), want, 0, len(want)), "C17.no-body-struct.members-independent")
}
