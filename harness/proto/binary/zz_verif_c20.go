package binary

import (
	"math"

	vrt "github.com/cloudwego/dynamicgo/internal/zzverif"
	"github.com/cloudwego/dynamicgo/proto"
	gpw "google.golang.org/protobuf/encoding/protowire"
)

func init() {
	vrt.Register("VerifC20_Tag", VerifC20_Tag)
	vrt.Register("VerifC20_String", VerifC20_String)
	vrt.Register("VerifC20_Desc", VerifC20_Desc)
	vrt.Register("VerifC20_DescList", VerifC20_DescList)
}

func verifSame(a, b []byte) bool {
	if len(a) != len(b) {
		return false
	}
	for i := range a {
		if a[i] != b[i] {
			return false
		}
	}
	return true
}

// VerifC20_Tag: both tag readers agree with the reference ConsumeTag on every input of N bytes.
func VerifC20_Tag() {
	in := vrt.Bytes(vrt.Param("N"))
	num, typ, n := gpw.ConsumeTag(in)
	p := &BinaryProtocol{Buf: in}
	n1, t1, l1, e1 := p.ConsumeTag()
	q := &BinaryProtocol{Buf: in}
	n2, t2, l2, e2 := q.ConsumeTagWithoutMove()
	if n >= 0 {
		vrt.Reach("ok")
		vrt.Assert(e1 == nil && int32(n1) == int32(num) && int8(t1) == int8(typ) && l1 == n && p.Read == n, "C20.tag.consume.ok")
		vrt.Assert(e2 == nil && int32(n2) == int32(num) && int8(t2) == int8(typ) && l2 == n && q.Read == 0, "C20.tag.peek.ok")
	} else {
		vrt.Reach("err")
		vrt.Assert(e1 != nil, "C20.tag.consume.err")
		vrt.Assert(e2 != nil, "C20.tag.peek.err")
	}
}

// VerifC20_String: WriteString / WriteBytes then ReadString (copy and zero-copy) / ReadBytes for
// strings of exactly L symbolic bytes (L around the 1->2 byte length-prefix boundary).
func VerifC20_String() {
	// proto3 strings are valid UTF-8: the content is ASCII, symbolic at both ends
	l := vrt.Param("L")
	s := make([]byte, l)
	for i := range s {
		s[i] = 'a'
	}
	if l > 0 {
		s[0] = vrt.U8() & 0x7f
		s[l-1] = vrt.U8() & 0x7f
	}
	p := &BinaryProtocol{Buf: make([]byte, 0, vrt.Param("CAP"))}
	vrt.Assert(p.WriteString(string(s)) == nil, "C20.string.write")
	vrt.Assert(p.WriteBytes(s) == nil, "C20.bytes.write")
	ref := gpw.AppendBytes(nil, s)
	ref = gpw.AppendBytes(ref, s)
	vrt.Assert(verifSame(p.Buf, ref), "C20.string.encoding")
	cp := vrt.Bool()
	rs, err := p.ReadString(cp)
	vrt.Assert(err == nil && len(rs) == len(s), "C20.string.read")
	if err == nil && len(rs) == len(s) {
		same := true
		for i := range s {
			if rs[i] != s[i] {
				same = false
			}
		}
		vrt.Assert(same, "C20.string.roundtrip")
	}
	rb, err := p.ReadBytes()
	vrt.Assert(err == nil && verifSame(rb, s), "C20.bytes.roundtrip")
	vrt.Assert(p.Read == len(p.Buf), "C20.string.consumed")
	vrt.Reach("done")
}

func verifKindWire(k proto.Type) gpw.Type {
	switch k {
	case proto.DOUBLE, proto.FIX64, proto.SFIX64:
		return gpw.Fixed64Type
	case proto.FLOAT, proto.FIX32, proto.SFIX32:
		return gpw.Fixed32Type
	case proto.STRING, proto.BYTE, proto.MESSAGE:
		return gpw.BytesType
	}
	return gpw.VarintType
}

// verifGoValue draws a Go value of the type the descriptor-driven writer accepts for kind k and
// returns it with its reference encoding (value only, no tag).
func verifGoValue(k proto.Type) (interface{}, []byte) {
	switch k {
	case proto.BOOL:
		v := vrt.Bool()
		return v, gpw.AppendVarint(nil, gpw.EncodeBool(v))
	case proto.ENUM:
		v := int32(vrt.U32())
		return proto.EnumNumber(v), gpw.AppendVarint(nil, uint64(int64(v)))
	case proto.INT32:
		v := int32(vrt.U32())
		return v, gpw.AppendVarint(nil, uint64(int64(v)))
	case proto.SINT32:
		v := int32(vrt.U32())
		return v, gpw.AppendVarint(nil, gpw.EncodeZigZag(int64(v)))
	case proto.UINT32:
		v := vrt.U32()
		return v, gpw.AppendVarint(nil, uint64(v))
	case proto.FIX32, proto.SFIX32:
		v := int32(vrt.U32())
		return v, gpw.AppendFixed32(nil, uint32(v))
	case proto.FLOAT:
		u := vrt.U32()
		return math.Float32frombits(u), gpw.AppendFixed32(nil, u)
	case proto.INT64:
		v := int64(vrt.U64())
		return v, gpw.AppendVarint(nil, uint64(v))
	case proto.SINT64:
		v := int64(vrt.U64())
		return v, gpw.AppendVarint(nil, gpw.EncodeZigZag(v))
	case proto.UINT64:
		v := vrt.U64()
		return v, gpw.AppendVarint(nil, v)
	case proto.FIX64, proto.SFIX64:
		v := int64(vrt.U64())
		return v, gpw.AppendFixed64(nil, uint64(v))
	case proto.DOUBLE:
		u := vrt.U64()
		return math.Float64frombits(u), gpw.AppendFixed64(nil, u)
	case proto.STRING:
		s := []byte{vrt.U8() & 0x7f, vrt.U8() & 0x7f} // valid UTF-8 (proto3 strings)
		return string(s), gpw.AppendBytes(nil, s)
	case proto.BYTE:
		s := vrt.Bytes(2)
		return s, gpw.AppendBytes(nil, s)
	}
	panic("verifGoValue: kind")
}

func verifGoEq(a, b interface{}) bool {
	switch x := a.(type) {
	case bool:
		y, ok := b.(bool)
		return ok && x == y
	case proto.EnumNumber:
		y, ok := b.(proto.EnumNumber)
		return ok && x == y
	case int32:
		y, ok := b.(int32)
		return ok && x == y
	case uint32:
		y, ok := b.(uint32)
		return ok && x == y
	case int64:
		y, ok := b.(int64)
		return ok && x == y
	case uint64:
		y, ok := b.(uint64)
		return ok && x == y
	case float32:
		y, ok := b.(float32)
		return ok && math.Float32bits(x) == math.Float32bits(y)
	case float64:
		y, ok := b.(float64)
		return ok && math.Float64bits(x) == math.Float64bits(y)
	case string:
		y, ok := b.(string)
		return ok && x == y
	case []byte:
		y, ok := b.([]byte)
		return ok && verifSame(x, y)
	}
	return false
}

// VerifC20_Desc: message{K x=FN} written through WriteAnyWithDesc from a Go value (addressed by field
// number or by field name) is byte-identical to the reference encoding and reads back equal.
func VerifC20_Desc() {
	k := proto.Type(vrt.Param("K"))
	fn := proto.FieldNumber(vrt.Param("FN"))
	byName := vrt.Param("BYNAME") != 0
	msg := proto.VerifNewMessage("M")
	proto.VerifAddField(msg, fn, "x_val", "xVal", proto.VerifBasic(k), false)
	proto.VerifBuild(msg)
	gv, enc := verifGoValue(k)
	var val interface{}
	if byName {
		val = map[string]interface{}{"x_val": gv}
	} else {
		val = map[proto.FieldNumber]interface{}{fn: gv}
	}
	p := &BinaryProtocol{Buf: make([]byte, 0, 8)}
	err := p.WriteAnyWithDesc(msg, val, false, false, true, byName)
	vrt.Assert(err == nil, "C20.desc.write.noerror")
	if err != nil {
		return
	}
	ref := gpw.AppendTag(nil, gpw.Number(fn), verifKindWire(k))
	ref = append(ref, enc...)
	vrt.Assert(verifSame(p.Buf, ref), "C20.desc.encoding")
	back, err := p.ReadAnyWithDesc(msg, false, true, true, byName)
	vrt.Assert(err == nil, "C20.desc.read.noerror")
	if err != nil {
		return
	}
	vrt.Reach("done")
	if byName {
		m, ok := back.(map[string]interface{})
		vrt.Assert(ok && len(m) == 1, "C20.desc.read.shape")
		if ok {
			vrt.Assert(verifGoEq(m["x_val"], gv), "C20.desc.roundtrip")
		}
	} else {
		m, ok := back.(map[proto.FieldNumber]interface{})
		vrt.Assert(ok && len(m) == 1, "C20.desc.read.shape")
		if ok {
			vrt.Assert(verifGoEq(m[fn], gv), "C20.desc.roundtrip")
		}
	}
}

// VerifC20_DescList: message{repeated K xs=2} with CNT elements through the descriptor-driven writer/reader.
func VerifC20_DescList() {
	k := proto.Type(vrt.Param("K"))
	cnt := vrt.Param("CNT")
	msg := proto.VerifNewMessage("M")
	proto.VerifAddField(msg, 2, "xs", "xs", proto.VerifBasic(k), true)
	proto.VerifBuild(msg)
	vals := make([]interface{}, cnt)
	var payload []byte
	var unpacked []byte
	for i := range vals {
		gv, enc := verifGoValue(k)
		vals[i] = gv
		payload = append(payload, enc...)
		unpacked = gpw.AppendTag(unpacked, 2, gpw.BytesType)
		unpacked = append(unpacked, enc...)
	}
	p := &BinaryProtocol{Buf: make([]byte, 0, 8)}
	err := p.WriteAnyWithDesc(msg, map[proto.FieldNumber]interface{}{2: vals}, false, false, true, false)
	vrt.Assert(err == nil, "C20.desclist.write.noerror")
	if err != nil {
		return
	}
	var ref []byte
	if k == proto.STRING || k == proto.BYTE {
		ref = unpacked
	} else if cnt > 0 {
		ref = gpw.AppendTag(nil, 2, gpw.BytesType)
		ref = gpw.AppendBytes(ref, payload)
	}
	vrt.Assert(verifSame(p.Buf, ref), "C20.desclist.encoding")
	back, err := p.ReadAnyWithDesc(msg, false, true, true, false)
	vrt.Assert(err == nil, "C20.desclist.read.noerror")
	if err != nil {
		return
	}
	vrt.Reach("done")
	m, ok := back.(map[proto.FieldNumber]interface{})
	vrt.Assert(ok, "C20.desclist.read.shape")
	if !ok || cnt == 0 {
		return
	}
	xs, ok := m[2].([]interface{})
	vrt.Assert(ok && len(xs) == cnt, "C20.desclist.read.count")
	if ok && len(xs) == cnt {
		for i := range xs {
			vrt.Assert(verifGoEq(xs[i], vals[i]), "C20.desclist.roundtrip")
		}
	}
}

func init() {
	vrt.Register("VerifC20_Speculative", VerifC20_Speculative)
	vrt.Register("VerifC20_NestedRead", VerifC20_NestedRead)
}

// VerifC20_Speculative: AppendSpeculativeLength / FinishSpeculativeLength around a payload of L bytes behind PRE
// bytes of earlier output, in a buffer with DELTA spare bytes of capacity: the result is PRE bytes, the varint
// of L, the payload - whether the prefix fits the reserved bytes, shifts in place or needs a new buffer.
func VerifC20_Speculative() {
	l := vrt.Param("L")
	pre := vrt.Param("PRE")
	delta := vrt.Param("DELTA")
	buf := make([]byte, pre, pre+speculativeLength+l+delta)
	for i := range buf {
		buf[i] = byte(0xA0 + i)
	}
	buf, pos := AppendSpeculativeLength(buf)
	vrt.Assert(pos == pre && len(buf) == pre+speculativeLength, "C20.speculative.append")
	payload := make([]byte, l)
	for i := range payload {
		payload[i] = byte(i*7 + 1)
	}
	if l > 0 {
		payload[0] = vrt.U8()
		payload[l-1] = vrt.U8()
	}
	buf = append(buf, payload...)
	vrt.Assert(cap(buf)-len(buf) == delta, "C20.speculative.harness-capacity")
	out := FinishSpeculativeLength(buf, pos)
	var want []byte
	for i := 0; i < pre; i++ {
		want = append(want, byte(0xA0+i))
	}
	want = gpw.AppendVarint(want, uint64(l))
	want = append(want, payload...)
	vrt.Reach("done")
	vrt.Assert(vrt.BytesEq(out, 0, len(out), want, 0, len(want)), "C20.speculative.length-prefix-and-payload")
}

// VerifC20_NestedRead: ReadBaseTypeWithDesc / ReadAnyWithDesc of message{Inner in=1; int32 t=2}, Inner{string y=1; K z=2}
// where y has YLEN bytes (the nested length prefix takes 1, 2 or 3 bytes) and z, the last field of the nested
// message, is short: every field of the nested message is returned, none leaks into the parent.
func VerifC20_NestedRead() {
	ylen := vrt.Param("YLEN")
	inner := proto.VerifNewMessage("Inner")
	proto.VerifAddField(inner, 1, "y", "y", proto.VerifBasic(proto.STRING), false)
	proto.VerifAddField(inner, 2, "z", "z", proto.VerifBasic(proto.BOOL), false)
	proto.VerifBuild(inner)
	outer := proto.VerifNewMessage("Outer")
	proto.VerifAddField(outer, 1, "in", "in", inner, false)
	proto.VerifAddField(outer, 2, "t", "t", proto.VerifBasic(proto.INT32), false)
	proto.VerifBuild(outer)
	y := make([]byte, ylen)
	for i := range y {
		y[i] = 'y'
	}
	z := vrt.Bool()
	tv := vrt.U8() & 0x7f
	var ib []byte
	ib = gpw.AppendBytes(gpw.AppendTag(ib, 1, gpw.BytesType), y)
	zb := uint64(0)
	if z {
		zb = 1
	}
	ib = gpw.AppendVarint(gpw.AppendTag(ib, 2, gpw.VarintType), zb)
	var b []byte
	b = gpw.AppendBytes(gpw.AppendTag(b, 1, gpw.BytesType), ib)
	b = gpw.AppendVarint(gpw.AppendTag(b, 2, gpw.VarintType), uint64(tv))
	p := BinaryProtocol{Buf: b}
	v, err := p.ReadAnyWithDesc(outer, false, true, true, true)
	vrt.Assert(err == nil, "C20.nested-read.noerror")
	if err != nil {
		return
	}
	vrt.Reach("read")
	m, ok := v.(map[string]interface{})
	vrt.Assert(ok && len(m) == 2, "C20.nested-read.outer-fields")
	if !ok {
		return
	}
	im, ok2 := m["in"].(map[string]interface{})
	vrt.Assert(ok2 && len(im) == 2, "C20.nested-read.inner-fields")
	if ok2 {
		zz, isB := im["z"].(bool)
		vrt.Assert(isB && zz == z, "C20.nested-read.last-inner-field")
		ys, isS := im["y"].(string)
		vrt.Assert(isS && len(ys) == ylen, "C20.nested-read.inner-string")
	}
	tt, isI := m["t"].(int32)
	vrt.Assert(isI && tt == int32(tv), "C20.nested-read.outer-field-after")
}

func init() { vrt.Register("VerifC20_MessageList", VerifC20_MessageList) }

// VerifC20_MessageList: ReadAnyWithDesc of Outer{repeated Inner items=1; int32 t=2}, Inner{string y=1; bool z=2}
// with CNT elements, with and without string copying: every element message is returned with its own fields.
func VerifC20_MessageList() {
	cnt := vrt.Param("CNT")
	cp := vrt.Param("COPY") != 0
	inner := proto.VerifNewMessage("Inner")
	proto.VerifAddField(inner, 1, "y", "y", proto.VerifBasic(proto.STRING), false)
	proto.VerifAddField(inner, 2, "z", "z", proto.VerifBasic(proto.BOOL), false)
	proto.VerifBuild(inner)
	outer := proto.VerifNewMessage("Outer")
	proto.VerifAddField(outer, 1, "items", "items", inner, true)
	proto.VerifAddField(outer, 2, "t", "t", proto.VerifBasic(proto.INT32), false)
	proto.VerifBuild(outer)
	ys := make([]byte, cnt)
	zs := make([]bool, cnt)
	var b []byte
	for i := 0; i < cnt; i++ {
		ys[i] = vrt.U8()
		vrt.Assume(ys[i] < 0x80)
		zs[i] = vrt.Bool()
		var ib []byte
		ib = gpw.AppendBytes(gpw.AppendTag(ib, 1, gpw.BytesType), []byte{ys[i], byte('0' + i)})
		zb := uint64(0)
		if zs[i] {
			zb = 1
		}
		ib = gpw.AppendVarint(gpw.AppendTag(ib, 2, gpw.VarintType), zb)
		b = gpw.AppendBytes(gpw.AppendTag(b, 1, gpw.BytesType), ib)
	}
	tv := vrt.U8() & 0x7f
	b = gpw.AppendVarint(gpw.AppendTag(b, 2, gpw.VarintType), uint64(tv))
	p := BinaryProtocol{Buf: b}
	v, err := p.ReadAnyWithDesc(outer, false, cp, true, true)
	vrt.Assert(err == nil, "C20.message-list.noerror")
	if err != nil {
		return
	}
	vrt.Reach("read")
	m, ok := v.(map[string]interface{})
	vrt.Assert(ok, "C20.message-list.shape")
	if !ok {
		return
	}
	tt, isI := m["t"].(int32)
	vrt.Assert(isI && tt == int32(tv), "C20.message-list.field-after")
	if cnt == 0 {
		return
	}
	xs, ok2 := m["items"].([]interface{})
	vrt.Assert(ok2 && len(xs) == cnt, "C20.message-list.count")
	if !ok2 || len(xs) != cnt {
		return
	}
	for i := range xs {
		im, ok3 := xs[i].(map[string]interface{})
		vrt.Assert(ok3 && len(im) == 2, "C20.message-list.element-fields")
		if !ok3 {
			continue
		}
		y, isS := im["y"].(string)
		vrt.Assert(isS && len(y) == 2 && y[0] == ys[i] && y[1] == byte('0'+i), "C20.message-list.element-string")
		z, isB := im["z"].(bool)
		vrt.Assert(isB && z == zs[i], "C20.message-list.element-bool")
	}
}

func init() { vrt.Register("VerifC20_DescMap", VerifC20_DescMap) }

// VerifC20_DescMap: M{map<KT,VT> m=3; int32 t=4} with one entry (Go's map order is not part of the claim)
// written through WriteAnyWithDesc from each Go representation the writer accepts - REP 0: map[string]interface{}
// (string keys), 1: map[interface{}]interface{} with keys of the kind's Go type (what ReadMap returns),
// 2: map[int]interface{} with casting - is byte-identical to the reference encoding and reads back equal.
// VT = MESSAGE uses Inner{int32 a=1}.
func VerifC20_DescMap() {
	kt := proto.Type(vrt.Param("KT"))
	vt := proto.Type(vrt.Param("VT"))
	rep := vrt.Param("REP")
	cast := vrt.Param("CAST") != 0
	byName := vrt.Param("BYNAME") != 0
	if (rep == 0) != (kt == proto.STRING) || (rep == 2 && !cast) {
		vrt.Reach("skip")
		return
	}
	inner := proto.VerifNewMessage("Inner")
	proto.VerifAddField(inner, 1, "a", "a", proto.VerifBasic(proto.INT32), false)
	proto.VerifBuild(inner)
	vd := proto.VerifBasic(vt)
	if vt == proto.MESSAGE {
		vd = inner
	}
	msg := proto.VerifNewMessage("M")
	proto.VerifAddMap(msg, 3, "m", "m", proto.VerifBasic(kt), vd)
	proto.VerifAddField(msg, 4, "t", "t", proto.VerifBasic(proto.INT32), false)
	proto.VerifBuild(msg)

	// key
	var kGo interface{}
	var kEnc []byte
	var kInt int
	if rep == 2 {
		small := int8(vrt.U8())
		if kt == proto.UINT32 || kt == proto.UINT64 || kt == proto.FIX32 || kt == proto.FIX64 {
			vrt.Assume(small >= 0)
		}
		kInt = int(small)
		switch kt {
		case proto.SINT32, proto.SINT64:
			kEnc = gpw.AppendVarint(nil, gpw.EncodeZigZag(int64(small)))
		case proto.FIX32, proto.SFIX32:
			kEnc = gpw.AppendFixed32(nil, uint32(int32(small)))
		case proto.FIX64, proto.SFIX64:
			kEnc = gpw.AppendFixed64(nil, uint64(int64(small)))
		default:
			kEnc = gpw.AppendVarint(nil, uint64(int64(small)))
		}
	} else {
		kGo, kEnc = verifGoValue(kt)
	}
	// value
	var vGo interface{}
	var vEnc []byte
	var av int32
	if vt == proto.MESSAGE {
		av = int32(vrt.U8())
		if byName {
			vGo = map[string]interface{}{"a": av}
		} else {
			vGo = map[proto.FieldNumber]interface{}{1: av}
		}
		vEnc = gpw.AppendBytes(nil, gpw.AppendVarint(gpw.AppendTag(nil, 1, gpw.VarintType), uint64(av)))
	} else {
		vGo, vEnc = verifGoValue(vt)
	}
	var mv interface{}
	switch rep {
	case 0:
		mv = map[string]interface{}{kGo.(string): vGo}
	case 1:
		mv = map[interface{}]interface{}{kGo: vGo}
	default:
		mv = map[int]interface{}{kInt: vGo}
	}
	tv := int32(vrt.U8())
	var val interface{}
	if byName {
		val = map[string]interface{}{"m": mv, "t": tv}
	} else {
		val = map[proto.FieldNumber]interface{}{3: mv, 4: tv}
	}
	var e []byte
	e = append(gpw.AppendTag(e, 1, verifKindWire(kt)), kEnc...)
	e = append(gpw.AppendTag(e, 2, verifKindWire(vt)), vEnc...)
	ref1 := gpw.AppendBytes(gpw.AppendTag(nil, 3, gpw.BytesType), e)
	ref2 := gpw.AppendVarint(gpw.AppendTag(nil, 4, gpw.VarintType), uint64(tv))

	p := &BinaryProtocol{Buf: make([]byte, 0, 8)}
	err := p.WriteAnyWithDesc(msg, val, false, cast, true, byName)
	vrt.Assert(err == nil, "C20.descmap.write.noerror")
	if err != nil {
		return
	}
	vrt.Reach("written")
	// the two fields may be written in either order (Go map iteration)
	ab := append(append([]byte{}, ref1...), ref2...)
	ba := append(append([]byte{}, ref2...), ref1...)
	vrt.Dump("C20.descmap got", p.Buf)
	vrt.Dump("C20.descmap ref", ab)
	vrt.Assert(verifSame(p.Buf, ab) || verifSame(p.Buf, ba), "C20.descmap.encoding")
	r := BinaryProtocol{Buf: ab}
	back, err := r.ReadAnyWithDesc(msg, false, true, true, byName)
	vrt.Assert(err == nil, "C20.descmap.read.noerror")
	if err != nil {
		return
	}
	var bm interface{}
	if byName {
		m, ok := back.(map[string]interface{})
		vrt.Assert(ok && len(m) == 2, "C20.descmap.read.shape")
		if !ok {
			return
		}
		bm = m["m"]
		t2, isI := m["t"].(int32)
		vrt.Assert(isI && t2 == tv, "C20.descmap.read.sibling")
	} else {
		m, ok := back.(map[proto.FieldNumber]interface{})
		vrt.Assert(ok && len(m) == 2, "C20.descmap.read.shape")
		if !ok {
			return
		}
		bm = m[3]
		t2, isI := m[4].(int32)
		vrt.Assert(isI && t2 == tv, "C20.descmap.read.sibling")
	}
	mm, ok := bm.(map[interface{}]interface{})
	vrt.Assert(ok && len(mm) == 1, "C20.descmap.read.map-shape")
	if !ok {
		return
	}
	for k, v := range mm {
		if rep != 2 {
			vrt.Assert(verifGoEq(k, kGo), "C20.descmap.read.key")
		}
		if vt == proto.MESSAGE {
			if byName {
				im, isM := v.(map[string]interface{})
				a2, isI := im["a"].(int32)
				vrt.Assert(isM && isI && a2 == av, "C20.descmap.read.message-value")
			} else {
				im, isM := v.(map[proto.FieldNumber]interface{})
				a2, isI := im[1].(int32)
				vrt.Assert(isM && isI && a2 == av, "C20.descmap.read.message-value")
			}
		} else {
			vrt.Assert(verifGoEq(v, vGo), "C20.descmap.read.value")
		}
	}
}
