package sym

import (
	"fmt"
	"go/types"

	"golang.org/x/tools/go/ssa"
)

// Value is a runtime value of the interpreter. Integers, floats (as IEEE bits)
// and bools are *T; everything else is one of the types below.
type Value interface{}

// Ptr is a pointer: object id (0 = nil) and byte offset.
type Ptr struct {
	Obj int
	Off *T // 64-bit
}

// PInt is an integer (uintptr) that carries pointer provenance: address(Obj)+Off.
type PInt struct {
	Obj int
	Off *T
}

type Str struct {
	P   Ptr
	Len *T
}

type Slice struct {
	P        Ptr
	Len, Cap *T
}

// Iface is an interface value; Dyn == nil is the nil interface.
type Iface struct {
	Dyn types.Type
	V   Value
}

type Struct []Value
type Array []Value
type Tuple []Value

// Func is a function value. Fn==nil && Name=="" is the nil func.
type Func struct {
	Fn   *ssa.Function
	Bind []Value
	Bi   *ssa.Builtin
}

// MapRef refers to a map object (0 = nil map).
type MapRef struct{ Obj int }

// Poison marks a value that came from something the engine does not model.
type Poison struct{ Why string }

// TypeTag is the value of a reflect-free "type word" (used for type switches on rt types).
type TypeTag struct{ T types.Type }

// Cplx is a complex number (only constants are supported).
type Cplx struct{ Re, Im *T }

// iterState is the value produced by Range.
type iterState struct {
	isMap bool
	keys  []mapEntry
	str   Str
	pos   *int
}

// ---- type layout ----

type leafKind uint8

const (
	kInt leafKind = iota // includes floats (bits)
	kBool
	kPtr
	kFunc
	kMap
	kIface
	kChan
)

type leaf struct {
	off  int64
	size int64 // bytes
	kind leafKind
}

type layoutInfo struct {
	size   int64
	leaves []leaf
}

func (e *Engine) sizeof(t types.Type) int64 {
	return e.sizes.Sizeof(t)
}

func isNamedRT(t types.Type, name string) bool {
	if n, ok := t.(*types.Named); ok {
		return n.Obj().Name() == name
	}
	return false
}

func under(t types.Type) types.Type {
	return t.Underlying()
}

func intWidth(t types.Type) (w uint8, signed bool, ok bool) {
	b, isb := under(t).(*types.Basic)
	if !isb {
		return 0, false, false
	}
	switch b.Kind() {
	case types.Int8:
		return 8, true, true
	case types.Int16:
		return 16, true, true
	case types.Int32:
		return 32, true, true
	case types.Int64, types.Int, types.UntypedInt, types.UntypedRune:
		return 64, true, true
	case types.Uint8:
		return 8, false, true
	case types.Uint16:
		return 16, false, true
	case types.Uint32:
		return 32, false, true
	case types.Uint64, types.Uint, types.Uintptr:
		return 64, false, true
	}
	return 0, false, false
}

func floatWidth(t types.Type) (uint8, bool) {
	b, isb := under(t).(*types.Basic)
	if !isb {
		return 0, false
	}
	switch b.Kind() {
	case types.Float32:
		return 32, true
	case types.Float64, types.UntypedFloat:
		return 64, true
	}
	return 0, false
}

func isBool(t types.Type) bool {
	b, ok := under(t).(*types.Basic)
	return ok && b.Info()&types.IsBoolean != 0
}

func isString(t types.Type) bool {
	b, ok := under(t).(*types.Basic)
	return ok && b.Info()&types.IsString != 0
}

func isUnsafePtr(t types.Type) bool {
	b, ok := under(t).(*types.Basic)
	return ok && b.Kind() == types.UnsafePointer
}

func isPointerLike(t types.Type) bool {
	switch under(t).(type) {
	case *types.Pointer:
		return true
	}
	return isUnsafePtr(t)
}

// zero returns the zero Value of type t.
func (e *Engine) zero(t types.Type) Value {
	c := e.ctx
	switch u := under(t).(type) {
	case *types.Basic:
		switch {
		case u.Info()&types.IsBoolean != 0:
			return c.False
		case u.Info()&types.IsString != 0:
			return Str{Ptr{0, c.Const(0, 64)}, c.Const(0, 64)}
		case u.Kind() == types.UnsafePointer:
			return Ptr{0, c.Const(0, 64)}
		case u.Kind() == types.UntypedNil:
			return Ptr{0, c.Const(0, 64)}
		case u.Info()&types.IsComplex != 0:
			return Cplx{c.Const(0, 64), c.Const(0, 64)}
		}
		if w, _, ok := intWidth(t); ok {
			return c.Const(0, w)
		}
		if w, ok := floatWidth(t); ok {
			return c.Const(0, w)
		}
	case *types.Pointer:
		return Ptr{0, c.Const(0, 64)}
	case *types.Slice:
		return Slice{Ptr{0, c.Const(0, 64)}, c.Const(0, 64), c.Const(0, 64)}
	case *types.Interface:
		return Iface{}
	case *types.Signature:
		return Func{}
	case *types.Map:
		return MapRef{}
	case *types.Chan:
		return Poison{"chan"}
	case *types.Struct:
		s := make(Struct, u.NumFields())
		for i := range s {
			s[i] = e.zero(u.Field(i).Type())
		}
		return s
	case *types.Array:
		a := make(Array, u.Len())
		if u.Len() > 0 {
			z := e.zero(u.Elem())
			for i := range a {
				a[i] = z
			}
		}
		return a
	case *types.Tuple:
		tu := make(Tuple, u.Len())
		for i := range tu {
			tu[i] = e.zero(u.At(i).Type())
		}
		return tu
	}
	panic(fmt.Sprintf("zero: unsupported type %v", t))
}

func (e *Engine) nilPtr() Ptr { return Ptr{0, e.ctx.Const(0, 64)} }

func (e *Engine) k64(v int64) *T { return e.ctx.Const(uint64(v), 64) }
