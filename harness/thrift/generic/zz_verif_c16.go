package generic

import (
	vrt "github.com/cloudwego/dynamicgo/internal/zzverif"
	"github.com/cloudwego/dynamicgo/meta"
	"github.com/cloudwego/dynamicgo/thrift"
)

func init() {
	vrt.Register("VerifC16_Cut", VerifC16_Cut)
}

// VerifC16_Cut: cutting into target{1: i32 a; ID2: i32 b} with symbolic requiredness, presence and options.
func VerifC16_Cut() {
	id2 := vrt.Param("ID2")
	ids := [2]int{1, id2}
	var req [2]int
	var present [2]bool
	popts := thrift.Options{SetOptionalBitmap: vrt.Bool()}
	var fs, sfs []thrift.VField
	names := [2]string{"a", "b"}
	for i := 0; i < 2; i++ {
		req[i] = vrt.Conc(int(vrt.U8() % 3))
		fs = append(fs, thrift.VField{ID: thrift.FieldID(ids[i]), Name: names[i], Type: thrift.VerifBasic(thrift.I32), Req: req[i]})
		sfs = append(sfs, thrift.VField{ID: thrift.FieldID(ids[i]), Name: names[i], Type: thrift.VerifBasic(thrift.I32), Req: 2})
	}
	dst := thrift.VerifStruct("R", popts, fs...)
	src := thrift.VerifStruct("R", thrift.Options{}, sfs...)
	opts := &Options{DisallowUnknow: vrt.Bool(), NotCheckRequireNess: vrt.Bool(), WriteDefault: vrt.Bool()}
	var in, proj []byte
	for i := 0; i < 2; i++ {
		present[i] = vrt.Bool()
		if present[i] {
			v := int(int32(vrt.U32()))
			in = vrt.PutBE32(vrt.PutField(in, vrt.TI32, ids[i]), v)
			proj = vrt.PutBE32(vrt.PutField(proj, vrt.TI32, ids[i]), v)
		}
	}
	unknown := vrt.Bool()
	if unknown {
		in = append(vrt.PutField(in, vrt.TBYTE, 9), 1)
	}
	in = append(in, 0)
	out, err := NewValue(src, in).MarshalTo(dst, opts)
	if unknown && opts.DisallowUnknow {
		vrt.Reach("unknown-disallowed")
		e, ok := err.(meta.Error)
		vrt.Assert(err != nil && ok && e.Code.Behavior() == meta.ErrUnknownField, "C16.cut.unknown.disallowed.error")
		return
	}
	missReq := false
	optionalAbsent := false
	for i := 0; i < 2; i++ {
		if present[i] {
			continue
		}
		switch req[i] {
		case 1:
			if !opts.NotCheckRequireNess {
				missReq = true
			}
		case 2:
			optionalAbsent = true
		}
	}
	if missReq {
		vrt.Reach("required-missing")
		e, ok := err.(meta.Error)
		vrt.Assert(err != nil && ok && e.Code.Behavior() == meta.ErrMissRequiredField, "C16.cut.required-missing.error")
		return
	}
	vrt.Reach("cut")
	vrt.Assert(err == nil, "C16.cut.noerror")
	if err != nil {
		return
	}
	kids, ok := vrt.TChildren(out, vrt.TSTRUCT, 3)
	vrt.Assert(ok, "C16.cut.wellformed")
	if !ok {
		return
	}
	// present fields are never altered or dropped, in source order
	k := 0
	for i := 0; i < 2; i++ {
		if present[i] {
			vrt.Assert(k < len(kids) && kids[k].ID == ids[i] && vrt.BytesEq(out, kids[k].Start, kids[k].End, in, 3+k*7, 7+k*7), "C16.cut.present-field-unaltered")
			k++
		}
	}
	// default-requiredness fields absent from the value are zero-filled exactly under WriteDefault
	for i := 0; i < 2; i++ {
		if present[i] || req[i] != 0 {
			continue
		}
		found := false
		for j := k; j < len(kids); j++ {
			if kids[j].ID == ids[i] {
				found = true
				vrt.Assert(kids[j].Typ == vrt.TI32 && vrt.BE32(out, kids[j].Start) == 0, "C16.cut.zero-fill.value")
			}
		}
		vrt.Assert(found == (opts.WriteDefault && !opts.NotCheckRequireNess), "C16.cut.default-field.zero-filled-iff-writedefault")
	}
	if !optionalAbsent {
		// nothing else may appear
		n := k
		for i := 0; i < 2; i++ {
			if !present[i] && req[i] == 0 && opts.WriteDefault && !opts.NotCheckRequireNess {
				n++
			}
			if !present[i] && req[i] == 1 && opts.WriteDefault && opts.NotCheckRequireNess {
				_ = n
			}
		}
		vrt.Assert(len(kids) == n, "C16.cut.no-extra-fields")
	}
	_ = proj
}
