package vrt

// Independent reference reader for the Protobuf wire format, written from the encoding
// specification (not from dynamicgo's or protobuf-go's code).  Executed symbolically next to
// the code under test; payload lengths are concretised.

const (
	PVarintT  = 0
	PFixed64T = 1
	PBytesT   = 2
	PFixed32T = 5
)

// PVarint decodes a base-128 varint at b[off:]; n is its size or -1 (truncated / longer than
// 10 bytes / overflowing 64 bits).  Non-minimal encodings are accepted, as every decoder does.
func PVarint(b []byte, off int) (v uint64, n int) {
	for i := 0; i < 10; i++ {
		if off+i >= len(b) {
			return 0, -1
		}
		c := b[off+i]
		if i == 9 && c > 1 {
			return 0, -1
		}
		v |= uint64(c&0x7f) << (7 * uint(i))
		if c < 0x80 {
			return v, i + 1
		}
	}
	return 0, -1
}

// PField is one field record of a message: b[TagStart:ValStart] is the tag, b[ValStart:End] the
// value (for length-delimited fields b[PayStart:End] is the payload), Val the varint / fixed value.
type PField struct {
	Num      int
	Wire     int
	TagStart int
	ValStart int
	PayStart int
	End      int
	Val      uint64
}

// PFields splits b, which must be exactly one message body, into its field records.
func PFields(b []byte) (out []PField, ok bool) {
	off := 0
	for off < len(b) {
		tag, n := PVarint(b, off)
		if n < 0 || tag>>3 == 0 || tag>>3 > 536870911 {
			return nil, false
		}
		f := PField{Num: int(tag >> 3), Wire: int(tag & 7), TagStart: off, ValStart: off + n}
		off += n
		switch f.Wire {
		case PVarintT:
			v, m := PVarint(b, off)
			if m < 0 {
				return nil, false
			}
			f.Val, f.PayStart, f.End = v, off, off+m
		case PFixed64T:
			if off+8 > len(b) {
				return nil, false
			}
			for i := 7; i >= 0; i-- {
				f.Val = f.Val<<8 | uint64(b[off+i])
			}
			f.PayStart, f.End = off, off+8
		case PFixed32T:
			if off+4 > len(b) {
				return nil, false
			}
			for i := 3; i >= 0; i-- {
				f.Val = f.Val<<8 | uint64(b[off+i])
			}
			f.PayStart, f.End = off, off+4
		case PBytesT:
			l, m := PVarint(b, off)
			if m < 0 || l > uint64(len(b)-off-m) {
				return nil, false
			}
			ll := Conc(int(l))
			f.Val, f.PayStart, f.End = l, off+m, off+m+ll
		default:
			return nil, false
		}
		off = f.End
		out = append(out, f)
	}
	return out, true
}

// PSchema tells which length-delimited field numbers hold messages (incl. map entries): those
// are compared structurally, everything else by value.  Packed[num] marks packed repeated
// varint fields, whose payload is compared as a sequence of varint values.
type PSchema struct {
	Sub    map[int]*PSchema
	Packed map[int]bool
}

// PEq: a and b are well-formed message bodies denoting the same message: for every field number
// the same sequence of values in the same relative order (the relative order of fields with
// different numbers carries no meaning in Protobuf).
func PEq(a, b []byte, s *PSchema, depth int) bool {
	if depth < 0 {
		return false
	}
	fa, ok1 := PFields(a)
	fb, ok2 := PFields(b)
	if !ok1 || !ok2 || len(fa) != len(fb) {
		return false
	}
	for i := range fa {
		// occurrence index of fa[i] among the records with its number
		k := 0
		for j := 0; j < i; j++ {
			if fa[j].Num == fa[i].Num {
				k++
			}
		}
		m := -1
		for j := range fb {
			if fb[j].Num == fa[i].Num {
				if k == 0 {
					m = j
					break
				}
				k--
			}
		}
		if m < 0 || fb[m].Wire != fa[i].Wire {
			return false
		}
		if fa[i].Wire != PBytesT {
			if fa[i].Val != fb[m].Val {
				return false
			}
			continue
		}
		pa := a[fa[i].PayStart:fa[i].End]
		pb := b[fb[m].PayStart:fb[m].End]
		var sub *PSchema
		if s != nil {
			sub = s.Sub[fa[i].Num]
		}
		switch {
		case sub != nil:
			if !PEq(pa, pb, sub, depth-1) {
				return false
			}
		case s != nil && s.Packed[fa[i].Num]:
			if !pVarintsEq(pa, pb) {
				return false
			}
		default:
			if !BytesEq(pa, 0, len(pa), pb, 0, len(pb)) {
				return false
			}
		}
	}
	return true
}

func pVarintsEq(a, b []byte) bool {
	i, j := 0, 0
	for i < len(a) && j < len(b) {
		va, n := PVarint(a, i)
		vb, m := PVarint(b, j)
		if n < 0 || m < 0 || va != vb {
			return false
		}
		i += n
		j += m
	}
	return i == len(a) && j == len(b)
}
