package j2t

import (
	"context"

	"github.com/cloudwego/dynamicgo/conv"
	vrt "github.com/cloudwego/dynamicgo/internal/zzverif"
	"github.com/cloudwego/dynamicgo/thrift"
	"github.com/cloudwego/dynamicgo/thrift/annotation"
)

func init() {
	vrt.Register("VerifC17_Request", VerifC17_Request)
}

// verifReq is a RequestGetter whose sources are populated independently: the key "k" in query,
// path parameters, headers, cookies, post form and body map; header "X-N"; raw body; uri.
type verifReq struct {
	query, param, header, cookie, form, mapbody string
	xn                                         string
	big                                        string
	body                                       []byte
}

func (r *verifReq) GetMethod() string { return "POST" }
func (r *verifReq) GetHost() string   { return "h" }
func (r *verifReq) GetUri() string    { return "/u?k=1" }
func (r *verifReq) GetHeader(k string) string {
	switch k {
	case "k":
		return r.header
	case "X-N":
		return r.xn
	}
	return ""
}
func (r *verifReq) GetCookie(k string) string {
	if k == "k" {
		return r.cookie
	}
	return ""
}
func (r *verifReq) GetQuery(k string) string {
	if k == "k" {
		return r.query
	}
	if k == "b" {
		return r.big
	}
	return ""
}
func (r *verifReq) GetParam(k string) string {
	if k == "k" {
		return r.param
	}
	return ""
}
func (r *verifReq) GetPostForm(k string) string {
	if k == "k" {
		return r.form
	}
	return ""
}
func (r *verifReq) GetMapBody(k string) string {
	if k == "k" {
		return r.mapbody
	}
	return ""
}
func (r *verifReq) GetBody() []byte { return r.body }

// verifCtx carries the request the way context.WithValue(ctx, conv.CtxKeyHTTPRequest, req) does
// (context.WithValue itself inspects the key through reflection, which the engine does not model).
type verifCtx struct {
	context.Context
	req interface{}
}

func (c verifCtx) Value(k interface{}) interface{} {
	if k == conv.CtxKeyHTTPRequest {
		return c.req
	}
	return nil
}

// annotation lists of the field under test (kinds: 1 query, 2 path, 3 header, 4 cookie, 5 body, 7 raw_body, 8 form, 9 raw_uri)
var verifC17Lists = [][]int{
	{1}, {2}, {3}, {4}, {5}, {8}, {9},
	{1, 3}, {3, 1}, {2, 1, 3}, {4, 8}, {5, 4}, {8, 2}, {1, 9}, {3, 5, 1},
	{7}, {1, 7}, {7, 1},
}

// VerifC17_Request: struct{1: string q (api.<L...> = "k", requiredness R); 2: i32 n (api.header = "X-N");
// 3: string plain}.  Which sources carry a value, the body (BODY 0 empty, 1 JSON object with optional
// members "q" and "plain") and the option bits are symbolic.  The field must take the value of the first
// listed source that has one; otherwise the fallback / write options decide.
func VerifC17_Request() {
	list := verifC17Lists[vrt.Param("AL")]
	r := vrt.Param("R") // 0 default, 1 required, 2 optional
	bodyKind := vrt.Param("BODY")
	st := thrift.VerifNewStruct("Req", 4)
	fq := thrift.VerifAddField(st, thrift.VField{ID: 1, Name: "q", Type: thrift.VerifBasic(thrift.STRING), Req: r}, thrift.Options{})
	fn := thrift.VerifAddField(st, thrift.VField{ID: 2, Name: "n", Type: thrift.VerifBasic(thrift.I32), Req: 2}, thrift.Options{})
	thrift.VerifAddField(st, thrift.VField{ID: 3, Name: "plain", Type: thrift.VerifBasic(thrift.STRING), Req: 2}, thrift.Options{})
	fbig := thrift.VerifAddField(st, thrift.VField{ID: 4, Name: "big", Type: thrift.VerifBasic(thrift.I64), Req: 2}, thrift.Options{})
	var hms []thrift.HttpMapping
	for _, k := range list {
		hms = append(hms, annotation.VerifHTTP(k, "k"))
	}
	thrift.VerifAddHTTP(st, fq, hms...)
	thrift.VerifAddHTTP(st, fn, annotation.VerifHTTP(3, "X-N"))
	thrift.VerifAddHTTP(st, fbig, annotation.VerifHTTP(1, "b"))
	thrift.VerifBuild(st)

	opts := conv.Options{
		EnableHttpMapping:     true,
		ReadHttpValueFallback: vrt.Bool() && bodyKind == 1,
		WriteRequireField:     vrt.Bool(),
		WriteDefaultField:     vrt.Bool(),
		WriteOptionalField:    vrt.Bool(),
	}
	// each source has its own value: a source letter and one symbolic character
	sym := vrt.U8()
	vrt.Assume(sym >= 'a' && sym <= 'z')
	// presence is symbolic for the listed sources; every other source is populated (a decoy that must not be used)
	listed := map[int]bool{}
	for _, k := range list {
		listed[k] = true
	}
	mk := func(kind int, tag byte) string {
		if !listed[kind] || vrt.Bool() {
			return string([]byte{tag, sym})
		}
		return ""
	}
	req := &verifReq{query: mk(1, 'Q'), param: mk(2, 'P'), header: mk(3, 'H'), cookie: mk(4, 'C'), form: mk(8, 'F'), mapbody: mk(5, 'B')}
	nd := vrt.U8()
	vrt.Assume(nd >= '1' && nd <= '9')
	hasN := vrt.Bool()
	if hasN {
		req.xn = string([]byte{nd})
	}
	// an i64 field from the query: boundary values of the 32- and 64-bit ranges (BIG picks one, 0 = absent)
	// 7: a decimal with a leading zero (123, not octal); 8, 9: not decimal numbers, must be rejected
	bigTexts := []string{"", "2147483648", "-2147483649", "9223372036854775807", "-9223372036854775808", "4294967296", "7", "0123", "0x10", "1_0"}
	bigVals := []int64{0, 2147483648, -2147483649, 9223372036854775807, -9223372036854775808, 4294967296, 7, 123, 0, 0}
	big := vrt.Param("BIG")
	req.big = bigTexts[big]
	var body []byte
	bodyQ, bodyPlain := false, false
	if bodyKind == 1 {
		bodyQ, bodyPlain = vrt.Bool(), vrt.Bool()
		body = append(body, '{')
		if bodyQ {
			body = append(body, `"q":"jq"`...)
		}
		if bodyPlain {
			if bodyQ {
				body = append(body, ',')
			}
			body = append(body, `"plain":"pp"`...)
		}
		body = append(body, '}')
	}
	req.body = body

	// ---- decision table ----
	val, found := "", false
	for _, k := range list {
		v := ""
		switch k {
		case 1:
			v = req.query
		case 2:
			v = req.param
		case 3:
			v = req.header
		case 4:
			v = req.cookie
		case 5:
			v = req.mapbody
		case 8:
			v = req.form
		case 9:
			v = req.GetUri()
		case 7:
			// the raw body is always "there", possibly empty: it ends the search
			val, found = string(body), true
		}
		if found {
			break
		}
		if v != "" {
			val, found = v, true
			break
		}
	}
	writeAllowed := (r == 1 && opts.WriteRequireField) || (r == 0 && opts.WriteDefaultField) || (r == 2 && opts.WriteOptionalField)
	wantErr := false
	hasQ := false
	qv := ""
	switch {
	case found && val != "":
		hasQ, qv = true, val
	case !found && opts.ReadHttpValueFallback && bodyQ:
		hasQ, qv = true, "jq"
	case r == 1 && !opts.WriteRequireField:
		wantErr = true
	case writeAllowed:
		hasQ, qv = true, ""
	}
	var want []byte
	if hasQ {
		want = vrt.PutString(vrt.PutField(want, vrt.TSTRING, 1), []byte(qv))
	}
	if hasN {
		want = vrt.PutBE32(vrt.PutField(want, vrt.TI32, 2), int(nd-'0'))
	} else if opts.WriteOptionalField {
		want = vrt.PutBE32(vrt.PutField(want, vrt.TI32, 2), 0)
	}
	// the un-annotated optional field comes from the body or not at all (no optional bitmap in this schema; C16 covers that)
	if bodyPlain {
		want = vrt.PutString(vrt.PutField(want, vrt.TSTRING, 3), []byte("pp"))
	}
	if big > 0 {
		want = vrt.PutBE64(vrt.PutField(want, vrt.TI64, 4), bigVals[big])
	} else if opts.WriteOptionalField {
		want = vrt.PutBE64(vrt.PutField(want, vrt.TI64, 4), 0)
	}
	want = append(want, 0)

	cv := NewBinaryConv(opts)
	ctx := verifCtx{Context: context.Background(), req: req}
	out, err := cv.Do(ctx, st, body)
	if big >= 8 {
		vrt.Reach("converted")
		vrt.Assert(err != nil, "C17.request.non-decimal-integer.error")
		return
	}
	if wantErr {
		vrt.Reach("error")
		vrt.Assert(err != nil, "C17.request.missing-required.error")
		return
	}
	vrt.Assert(err == nil, "C17.request.converts")
	if err != nil {
		return
	}
	vrt.Reach("converted")
	vrt.Dump("C17.request want", want)
	vrt.Dump("C17.request got ", out)
	vrt.Assert(vrt.TWellFormed(out, vrt.TSTRUCT, 3), "C17.request.well-formed")
	vrt.Assert(vrt.TDeepEq(want, out, vrt.TSTRUCT, 3), "C17.request.field-from-first-source")
}

func init() { vrt.Register("VerifC17_RequestContainer", VerifC17_RequestContainer) }

// VerifC17_RequestContainer: Req{1: list<i32> ids (api.query "k"); 2: string msg; 3: map<string,i32> m (api.header
// "k")}: container-typed annotated fields receive JSON text from their HTTP source, with or without leading
// blanks (LEAD: 0 none, 1 space, 2 newline + tab); the field holds the denoted container.
func VerifC17_RequestContainer() {
	lead := []string{"", " ", "\n\t"}[vrt.Param("LEAD")]
	st := thrift.VerifNewStruct("Req", 4)
	fids := thrift.VerifAddField(st, thrift.VField{ID: 1, Name: "ids", Type: thrift.VerifList(thrift.VerifBasic(thrift.I32)), Req: 0}, thrift.Options{})
	thrift.VerifAddField(st, thrift.VField{ID: 2, Name: "msg", Type: thrift.VerifBasic(thrift.STRING), Req: 2}, thrift.Options{})
	fm := thrift.VerifAddField(st, thrift.VField{ID: 3, Name: "m", Type: thrift.VerifMap(thrift.VerifBasic(thrift.STRING), thrift.VerifBasic(thrift.I32)), Req: 0}, thrift.Options{})
	thrift.VerifAddHTTP(st, fids, annotation.VerifHTTP(1, "k"))
	thrift.VerifAddHTTP(st, fm, annotation.VerifHTTP(3, "k"))
	thrift.VerifBuild(st)
	d1, d2, d3 := vrt.U8(), vrt.U8(), vrt.U8()
	vrt.Assume(d1 >= '0' && d1 <= '9' && d2 >= '0' && d2 <= '9' && d3 >= '0' && d3 <= '9')
	req := &verifReq{
		query:  lead + "[" + string([]byte{d1}) + "," + string([]byte{d2}) + "]",
		header: lead + `{"a":` + string([]byte{d3}) + "}",
	}
	ctx := verifCtx{Context: context.Background(), req: req}
	cv := NewBinaryConv(conv.Options{EnableHttpMapping: true})
	out, err := cv.Do(ctx, st, []byte(`{"msg":"m"}`))
	vrt.Assert(err == nil, "C17.request.container.converts")
	if err != nil {
		return
	}
	vrt.Reach("converted")
	kids, ok := vrt.TChildren(out, vrt.TSTRUCT, 3)
	vrt.Assert(ok && len(kids) == 3, "C17.request.container.well-formed")
	if !ok {
		return
	}
	wl := vrt.PutBE32(vrt.PutBE32(vrt.PutListHdr(nil, vrt.TI32, 2), int(d1-'0')), int(d2-'0'))
	wm := vrt.PutBE32(vrt.PutString(vrt.PutMapHdr(nil, vrt.TSTRING, vrt.TI32, 1), []byte("a")), int(d3-'0'))
	ws := vrt.PutString(nil, []byte("m"))
	for _, k := range kids {
		switch k.ID {
		case 1:
			vrt.Assert(k.Typ == vrt.TLIST && vrt.BytesEq(out, k.Start, k.End, wl, 0, len(wl)), "C17.request.container.list-from-query")
		case 2:
			vrt.Assert(k.Typ == vrt.TSTRING && vrt.BytesEq(out, k.Start, k.End, ws, 0, len(ws)), "C17.request.container.body-field")
		case 3:
			vrt.Assert(k.Typ == vrt.TMAP && vrt.BytesEq(out, k.Start, k.End, wm, 0, len(wm)), "C17.request.container.map-from-header")
		default:
			vrt.Assert(false, "C17.request.container.unexpected-field")
		}
	}
}
