package j2p

import (
	"errors"
	"encoding/json"
	"math"
	"strconv"

	"github.com/bytedance/sonic/ast"
	"github.com/cloudwego/dynamicgo/conv"
	vrt "github.com/cloudwego/dynamicgo/internal/zzverif"
	"github.com/cloudwego/dynamicgo/proto"
	"github.com/cloudwego/dynamicgo/proto/binary"
	gpw "google.golang.org/protobuf/encoding/protowire"
)

func init() {
	vrt.Register("VerifC09_Scalar", VerifC09_Scalar)
	vrt.Register("VerifC09_Shapes", VerifC09_Shapes)
	vrt.Register("VerifC09_Mismatch", VerifC09_Mismatch)
}

// ---- JSON document model and the parser's visitor contract ----
//
// sonic's parser (assembly / JIT on amd64) is replaced by its documented contract: ast.Preorder
// reports the document to the Visitor in document order - OnObjectBegin, then OnObjectKey + the
// member value for every member, OnObjectEnd; OnArrayBegin, the elements, OnArrayEnd; integers
// that fit int64 as OnInt64, other numbers as OnFloat64; a Begin callback answering VisitOPSkip
// makes the parser skip the container and report its End.

const (
	jNull = iota
	jBool
	jInt
	jFloat
	jStr
	jArr
	jObj
	jFail // the parser stops here with a syntax error (no callback)
)

type jv struct {
	kind  int
	b     bool
	i     int64
	f     float64
	s     string
	num   string // the number's text, as the parser hands it on
	keys  []string
	elems []*jv
}

func jI(v int64) *jv     { return &jv{kind: jInt, i: v} }
func jF(v float64) *jv   { return &jv{kind: jFloat, f: v} }
func jS(v string) *jv    { return &jv{kind: jStr, s: v} }
func jB(v bool) *jv      { return &jv{kind: jBool, b: v} }
func jA(e ...*jv) *jv    { return &jv{kind: jArr, elems: e} }
func jO() *jv            { return &jv{kind: jObj} }
func (o *jv) add(k string, v *jv) *jv {
	o.keys = append(o.keys, k)
	o.elems = append(o.elems, v)
	return o
}

func verifVisit(v *visitorUserNode, n *jv) error {
	switch n.kind {
	case jFail:
		return errVerifSyntax
	case jNull:
		return v.OnNull()
	case jBool:
		return v.OnBool(n.b)
	case jInt:
		return v.OnInt64(n.i, json.Number(n.num))
	case jFloat:
		return v.OnFloat64(n.f, json.Number(n.num))
	case jStr:
		return v.OnString(n.s)
	case jArr:
		if err := v.OnArrayBegin(16); err != nil {
			if err == ast.VisitOPSkip {
				if verifHasFail(n) {
					return errVerifSyntax // the parser's skip still scans the text
				}
				return v.OnArrayEnd()
			}
			return err
		}
		for _, e := range n.elems {
			if err := verifVisit(v, e); err != nil {
				return err
			}
		}
		return v.OnArrayEnd()
	default:
		if err := v.OnObjectBegin(16); err != nil {
			if err == ast.VisitOPSkip {
				if verifHasFail(n) {
					return errVerifSyntax
				}
				return v.OnObjectEnd()
			}
			return err
		}
		for i, e := range n.elems {
			if err := v.OnObjectKey(n.keys[i]); err != nil {
				return err
			}
			if err := verifVisit(v, e); err != nil {
				return err
			}
		}
		return v.OnObjectEnd()
	}
}

func verifHasFail(n *jv) bool {
	if n.kind == jFail {
		return true
	}
	for _, e := range n.elems {
		if verifHasFail(e) {
			return true
		}
	}
	return false
}

var errVerifSyntax = errors.New("verif: syntax error reported by the parser")

// verifConvert is BinaryConv.unmarshal with the parser replaced by verifVisit.
func verifConvert(desc *proto.TypeDescriptor, doc *jv, opts conv.Options) ([]byte, error) {
	vu := newVisitorUserNodeBuffer()
	vu.opts = &opts
	vu.p = binary.NewBinaryProtocolBuffer()
	vu.stk[vu.sp].state = visitorUserNodeState{msgDesc: desc.Message(), fieldDesc: nil, lenPos: -1}
	vu.stk[vu.sp].typ = objStkType
	err := verifVisit(vu, doc)
	var out []byte
	if err == nil {
		out, err = vu.result()
	}
	freeVisitorUserNodePool(vu)
	return out, err
}

// ---- schema ----

func verifC09In() *proto.TypeDescriptor {
	m := proto.VerifNewMessage("In")
	proto.VerifAddField(m, 1, "x", "x", proto.VerifBasic(proto.SINT64), false)
	proto.VerifAddField(m, 2, "y_str", "yStr", proto.VerifBasic(proto.STRING), false)
	return proto.VerifBuild(m)
}

func verifC09M(k proto.Type) *proto.TypeDescriptor {
	in := verifC09In()
	m := proto.VerifNewMessage("M")
	proto.VerifAddField(m, 1, "a", "a", proto.VerifBasic(proto.INT32), false)
	proto.VerifAddField(m, 2, "s_name", "sName", proto.VerifBasic(proto.STRING), false)
	proto.VerifAddField(m, 3, "in", "in", in, false)
	proto.VerifAddField(m, 4, "rp", "rp", proto.VerifBasic(proto.INT32), true)
	proto.VerifAddField(m, 5, "rs", "rs", proto.VerifBasic(proto.STRING), true)
	proto.VerifAddMap(m, 6, "ms", "ms", proto.VerifBasic(proto.STRING), proto.VerifBasic(proto.INT32))
	proto.VerifAddMap(m, 7, "mi", "mi", proto.VerifBasic(proto.INT32), proto.VerifBasic(proto.STRING))
	proto.VerifAddField(m, 8, "lm", "lm", in, true)
	proto.VerifAddMap(m, 9, "mm", "mm", proto.VerifBasic(proto.STRING), in)
	proto.VerifAddField(m, 10, "x_val", "xVal", proto.VerifBasic(k), false)
	proto.VerifAddField(m, 11, "b", "b", proto.VerifBasic(proto.BOOL), false)
	return proto.VerifBuild(m)
}

var verifC09Schema = &vrt.PSchema{
	Sub: map[int]*vrt.PSchema{
		3: {}, 6: {}, 7: {}, 8: {},
		9: {Sub: map[int]*vrt.PSchema{2: {}}},
	},
	Packed: map[int]bool{4: true},
}

func verifWire(k proto.Type) gpw.Type {
	switch k {
	case proto.DOUBLE, proto.FIX64, proto.SFIX64:
		return gpw.Fixed64Type
	case proto.FLOAT, proto.FIX32, proto.SFIX32:
		return gpw.Fixed32Type
	case proto.STRING, proto.BYTE, proto.MESSAGE:
		return gpw.BytesType
	}
	return gpw.VarintType
}

// alt is an equivalent encoding of the same message (an empty packed record decodes to no elements).
func verifC09Check(out []byte, want []byte, label string, alt ...[]byte) {
	vrt.Dump(label+" want", want)
	vrt.Dump(label+" got ", out)
	_, ok := vrt.PFields(out)
	vrt.Assert(ok, label+".well-formed")
	if ok {
		eq := vrt.PEq(want, out, verifC09Schema, 4)
		for _, a := range alt {
			if !eq {
				eq = vrt.PEq(a, out, verifC09Schema, 4)
			}
		}
		vrt.Assert(eq, label+".equals-denoted-message")
	}
}

// VerifC09_Scalar: {"a": A, <x by JSON name or field name>: V} for every scalar kind K and every in-range V.
func VerifC09_Scalar() {
	k := proto.Type(vrt.Param("K"))
	desc := verifC09M(k)
	opts := conv.Options{DisallowUnknownField: vrt.Bool()}
	doc := jO()
	var want []byte
	if vrt.Bool() {
		a := int32(vrt.U32())
		doc.add("a", jI(int64(a)))
		want = gpw.AppendVarint(gpw.AppendTag(want, 1, gpw.VarintType), uint64(int64(a)))
	}
	key := "xVal"
	if vrt.Bool() {
		key = "x_val"
	}
	want = gpw.AppendTag(want, 10, verifWire(k))
	switch k {
	case proto.BOOL:
		b := vrt.Bool()
		doc.add(key, jB(b))
		if b {
			want = gpw.AppendVarint(want, 1)
		} else {
			want = gpw.AppendVarint(want, 0)
		}
	case proto.STRING:
		s := []byte{vrt.U8() & 0x7f, vrt.U8() & 0x7f}
		doc.add(key, jS(string(s)))
		want = gpw.AppendBytes(want, s)
	case proto.BYTE:
		bs := vrt.Bytes(2)
		doc.add(key, jS(vrt.B64Text(bs)))
		want = gpw.AppendBytes(want, bs)
	case proto.DOUBLE, proto.FLOAT:
		if vrt.Param("INTLIT") == 0 {
			goto realLiteral
		}
		{
			// an integer literal for a floating-point field reaches the visitor as OnInt64
			tab := []int64{0, 1, -1, 16777216, 16777217, -16777217, 1<<40 + 1, 1700000000123, -(1 << 53), 1<<53 - 1}
			v := tab[vrt.Conc(int(vrt.U8())%len(tab))]
			doc.add(key, jI(v))
			if k == proto.DOUBLE {
				want = gpw.AppendFixed64(want, math.Float64bits(float64(v)))
			} else {
				want = gpw.AppendFixed32(want, math.Float32bits(float32(v)))
			}
		}
		goto tail
	}
realLiteral:
	switch k {
	case proto.DOUBLE:
		bits := vrt.U64()
		vrt.Assume(bits>>52&0x7ff != 0x7ff) // JSON numbers are finite
		doc.add(key, jF(math.Float64frombits(bits)))
		want = gpw.AppendFixed64(want, bits)
	case proto.FLOAT:
		// the float64 -> float32 narrowing of a symbolic value is beyond the solvers (2 min per query):
		// a table of float32 values, each handed over as the float64 the parser would report
		tab := []uint32{0, 0x80000000, 0x3fc00000, 0xbfc00000, 0x00000001, 0x80000001, 0x007fffff, 0x00800000, 0x7f7fffff, 0xff7fffff, 0x3f800001, 0x4b800000, 0x33800000}
		bits := tab[vrt.Conc(int(vrt.U8())%len(tab))]
		doc.add(key, jF(float64(math.Float32frombits(bits))))
		want = gpw.AppendFixed32(want, bits)
	case proto.INT32, proto.SINT32, proto.SFIX32, proto.ENUM:
		v := int64(int32(vrt.U32()))
		doc.add(key, jI(v))
		switch k {
		case proto.SINT32:
			want = gpw.AppendVarint(want, gpw.EncodeZigZag(v))
		case proto.SFIX32:
			want = gpw.AppendFixed32(want, uint32(v))
		default:
			want = gpw.AppendVarint(want, uint64(v))
		}
	case proto.UINT32, proto.FIX32:
		v := int64(vrt.U32())
		doc.add(key, jI(v))
		if k == proto.FIX32 {
			want = gpw.AppendFixed32(want, uint32(v))
		} else {
			want = gpw.AppendVarint(want, uint64(v))
		}
	case proto.INT64, proto.SINT64, proto.SFIX64:
		v := int64(vrt.U64())
		doc.add(key, jI(v))
		switch k {
		case proto.SINT64:
			want = gpw.AppendVarint(want, gpw.EncodeZigZag(v))
		case proto.SFIX64:
			want = gpw.AppendFixed64(want, uint64(v))
		default:
			want = gpw.AppendVarint(want, uint64(v))
		}
	case proto.UINT64, proto.FIX64:
		// values below 2^63 arrive as integers (larger ones are reported by the parser as floats: outside this harness)
		v := int64(vrt.U64())
		vrt.Assume(v >= 0)
		if big := vrt.Param("BIG"); big != 0 {
			// integers beyond int64 reach the visitor as floats together with their text
			u := []uint64{0, 1 << 63, 1<<63 + 1, math.MaxUint64 - 1, math.MaxUint64}[big]
			doc.add(key, &jv{kind: jFloat, f: float64(u), num: strconv.FormatUint(u, 10)})
			v = int64(u)
		} else {
			doc.add(key, jI(v))
		}
		if k == proto.FIX64 {
			want = gpw.AppendFixed64(want, uint64(v))
		} else {
			want = gpw.AppendVarint(want, uint64(v))
		}
	}
tail:
	if vrt.Bool() {
		doc.add("b", jB(true))
		want = gpw.AppendVarint(gpw.AppendTag(want, 11, gpw.VarintType), 1)
	}
	out, err := verifConvert(desc, doc, opts)
	vrt.Assert(err == nil, "C09.scalar.converts")
	if err != nil {
		return
	}
	vrt.Reach("converted")
	verifC09Check(out, want, "C09.scalar")
}

func verifC09InDoc(ylen int, narrow bool) (*jv, []byte) {
	d := jO()
	var w []byte
	if vrt.Bool() {
		x := int64(vrt.U64())
		if narrow {
			vrt.Assume(x >= -64 && x < 64)
		}
		d.add("x", jI(x))
		w = gpw.AppendVarint(gpw.AppendTag(w, 1, gpw.VarintType), gpw.EncodeZigZag(x))
	}
	if vrt.Bool() {
		y := make([]byte, ylen)
		for i := range y {
			y[i] = 'y'
		}
		if ylen > 0 {
			y[0] = vrt.U8() & 0x7f
		}
		d.add("yStr", jS(string(y)))
		w = gpw.AppendBytes(gpw.AppendTag(w, 2, gpw.BytesType), y)
	}
	return d, w
}

// VerifC09_Shapes: one container member of shape SHAPE with CNT elements between two scalar members.
func VerifC09_Shapes() {
	shape := vrt.Param("SHAPE")
	cnt := vrt.Param("CNT")
	ylen := vrt.Param("YLEN")
	desc := verifC09M(proto.INT32)
	opts := conv.Options{DisallowUnknownField: vrt.Bool()}
	doc := jO()
	var want []byte
	if vrt.Bool() {
		doc.add("sName", jS("p"))
		want = gpw.AppendBytes(gpw.AppendTag(want, 2, gpw.BytesType), []byte("p"))
	}
	switch shape {
	case 0: // nested message
		d, w := verifC09InDoc(ylen, false)
		doc.add("in", d)
		want = gpw.AppendBytes(gpw.AppendTag(want, 3, gpw.BytesType), w)
	case 1: // packed repeated int32
		arr := jA()
		var p []byte
		for i := 0; i < cnt; i++ {
			v := int64(int32(vrt.U32()))
			arr.elems = append(arr.elems, jI(v))
			p = gpw.AppendVarint(p, uint64(v))
		}
		doc.add("rp", arr)
		if cnt > 0 {
			want = gpw.AppendBytes(gpw.AppendTag(want, 4, gpw.BytesType), p)
		}
	case 2: // repeated string
		arr := jA()
		for i := 0; i < cnt; i++ {
			s := []byte{vrt.U8() & 0x7f}
			arr.elems = append(arr.elems, jS(string(s)))
			want = gpw.AppendBytes(gpw.AppendTag(want, 5, gpw.BytesType), s)
		}
		doc.add("rs", arr)
	case 3: // map<string,int32>
		o := jO()
		for i := 0; i < cnt; i++ {
			k := []byte{'k', byte('0' + i)}
			v := int64(int32(vrt.U32()))
			o.add(string(k), jI(v))
			var e []byte
			e = gpw.AppendBytes(gpw.AppendTag(e, 1, gpw.BytesType), k)
			e = gpw.AppendVarint(gpw.AppendTag(e, 2, gpw.VarintType), uint64(v))
			want = gpw.AppendBytes(gpw.AppendTag(want, 6, gpw.BytesType), e)
		}
		doc.add("ms", o)
	case 4: // map<int32,string>
		o := jO()
		for i := 0; i < cnt; i++ {
			s := []byte{vrt.U8() & 0x7f}
			o.add(string([]byte{'1', byte('0' + i)}), jS(string(s)))
			var e []byte
			e = gpw.AppendVarint(gpw.AppendTag(e, 1, gpw.VarintType), uint64(10+i))
			e = gpw.AppendBytes(gpw.AppendTag(e, 2, gpw.BytesType), s)
			want = gpw.AppendBytes(gpw.AppendTag(want, 7, gpw.BytesType), e)
		}
		doc.add("mi", o)
	case 5: // repeated message
		arr := jA()
		for i := 0; i < cnt; i++ {
			d, w := verifC09InDoc(ylen, i > 0)
			arr.elems = append(arr.elems, d)
			want = gpw.AppendBytes(gpw.AppendTag(want, 8, gpw.BytesType), w)
		}
		doc.add("lm", arr)
	case 6: // map<string,message>
		o := jO()
		for i := 0; i < cnt; i++ {
			k := []byte{'k', byte('0' + i)}
			d, w := verifC09InDoc(ylen, true)
			o.add(string(k), d)
			var e []byte
			e = gpw.AppendBytes(gpw.AppendTag(e, 1, gpw.BytesType), k)
			e = gpw.AppendBytes(gpw.AppendTag(e, 2, gpw.BytesType), w)
			want = gpw.AppendBytes(gpw.AppendTag(want, 9, gpw.BytesType), e)
		}
		doc.add("mm", o)
	case 11: // null as a map value, followed by a further entry and further members
		o := jO()
		o.add("k0", &jv{kind: jNull})
		v := int64(int32(vrt.U32()))
		o.add("k1", jI(v))
		doc.add("ms", o)
		var e1 []byte
		e1 = gpw.AppendBytes(gpw.AppendTag(e1, 1, gpw.BytesType), []byte("k1"))
		e1 = gpw.AppendVarint(gpw.AppendTag(e1, 2, gpw.VarintType), uint64(v))
		// the null-valued entry: key only, or key with the zero value, or no entry at all
		k0 := gpw.AppendBytes(gpw.AppendTag(nil, 1, gpw.BytesType), []byte("k0"))
		k0z := gpw.AppendVarint(gpw.AppendTag(append([]byte{}, k0...), 2, gpw.VarintType), 0)
		tail := []byte{}
		a := int32(vrt.U8() & 0x7f)
		doc.add("a", jI(int64(a)))
		tail = gpw.AppendVarint(gpw.AppendTag(tail, 1, gpw.VarintType), uint64(int64(a)))
		rest := append(gpw.AppendBytes(gpw.AppendTag(nil, 6, gpw.BytesType), e1), tail...)
		w1 := append(append(append([]byte{}, want...), gpw.AppendBytes(gpw.AppendTag(nil, 6, gpw.BytesType), k0)...), rest...)
		w2 := append(append(append([]byte{}, want...), gpw.AppendBytes(gpw.AppendTag(nil, 6, gpw.BytesType), k0z)...), rest...)
		w3 := append(append([]byte{}, want...), rest...)
		out, err := verifConvert(desc, doc, opts)
		vrt.Assert(err == nil, "C09.shapes.null-map-value.converts")
		if err != nil {
			return
		}
		vrt.Reach("converted")
		verifC09Check(out, w1, "C09.shapes.null-map-value", w2, w3)
		return
	case 7: // null member: denotes the absent field
		doc.add("a", &jv{kind: jNull})
	case 8, 9, 10: // unknown member: scalar / object / array
		var u *jv
		switch shape {
		case 8:
			u = jI(7)
		case 9:
			u = jO().add("a", jI(1)).add("zz", jO().add("q", jA(jI(1))))
		default:
			u = jA(jI(1), jO().add("a", jI(2)), jA())
		}
		doc.add("zz", u)
		if opts.DisallowUnknownField {
			_, err := verifConvert(desc, doc, opts)
			vrt.Assert(err != nil, "C09.unknown.disallowed.error")
			vrt.Reach("converted")
			return
		}
	}
	if vrt.Bool() {
		// every value of a scalar member is the subject of VerifC09_Scalar
		a := int32(vrt.U8() & 0x7f)
		doc.add("a", jI(int64(a)))
		want = gpw.AppendVarint(gpw.AppendTag(want, 1, gpw.VarintType), uint64(int64(a)))
	}
	out, err := verifConvert(desc, doc, opts)
	vrt.Assert(err == nil, "C09.shapes.converts")
	if err != nil {
		return
	}
	vrt.Reach("converted")
	if shape == 1 && cnt == 0 {
		verifC09Check(out, want, "C09.shapes", gpw.AppendBytes(gpw.AppendTag(append([]byte{}, want...), 4, gpw.BytesType), nil))
		return
	}
	verifC09Check(out, want, "C09.shapes")
}

// VerifC09_Mismatch: a member whose JSON value kind contradicts the field must make the conversion fail.
func VerifC09_Mismatch() {
	sc := vrt.Param("SC")
	desc := verifC09M(proto.INT32)
	opts := conv.Options{}
	doc := jO()
	if vrt.Bool() {
		doc.add("sName", jS("p"))
	}
	switch sc {
	case 0:
		doc.add("a", jS("x")) // string for int32
	case 1:
		doc.add("sName", jB(true)) // bool for string
	case 2:
		doc.add("sName", jI(5)) // number for string
	case 3:
		doc.add("b", jI(1)) // number for bool
	case 4:
		doc.add("a", jB(true)) // bool for int32
	case 5:
		doc.add("a", jA(jI(1), jI(2))) // array for scalar
	case 6:
		doc.add("in", jI(5)) // scalar for message
	case 7:
		doc.add("rp", jI(5)) // scalar for repeated
	case 8:
		doc.add("rs", jS("x")) // scalar for repeated string
	case 9:
		doc.add("ms", jI(5)) // scalar for map
	case 10:
		doc.add("in", jA(jI(1))) // array for message
	case 11:
		doc.add("rp", jA(jS("x"))) // string element in int list
	case 12:
		doc.add("a", jO().add("q", jI(1))) // object for scalar
	case 13:
		doc.add("rp", jO().add("q", jI(1))) // object for repeated
	case 14:
		doc.add("ms", jA(jI(1))) // array for map
	case 15:
		doc.add("rp", jA(jB(true), jB(false))) // bool elements in int list
	case 16:
		doc.add("rs", jA(jS("x"), jB(true))) // bool element in string list
	case 17:
		doc.add("rp", jA(jI(1), jB(false))) // bool element after a number
	case 18:
		doc.add("rs", jA(jI(1))) // number element in string list
	case 19:
		doc.add("lm", jA(jB(true))) // bool element in message list
	case 20:
		doc.add("ms", jO().add("k", jB(true))) // bool for an int32 map value
	case 21:
		doc.add("mi", jO().add("1", jI(5))) // number for a string map value
	}
	if vrt.Bool() {
		doc.add("b", jB(true))
	}
	_, err := verifConvert(desc, doc, opts)
	vrt.Reach("done")
	vrt.Assert(err != nil, "C09.mismatch.error")
}

func init() { vrt.Register("VerifC09_MapKey", VerifC09_MapKey) }

// VerifC09_MapKey: {"mk": {"<key text>": V}} for a map<KT,int32> of every key kind; KV picks the
// key from a table of boundary values of the kind (keys are text, so they are concrete).
func VerifC09_MapKey() {
	kt := proto.Type(vrt.Param("KT"))
	kv := vrt.Param("KV")
	m := proto.VerifNewMessage("MK")
	proto.VerifAddMap(m, 1, "mk", "mk", proto.VerifBasic(kt), proto.VerifBasic(proto.INT32))
	proto.VerifAddField(m, 2, "a", "a", proto.VerifBasic(proto.INT32), false)
	proto.VerifBuild(m)
	var keyText string
	var keyBits uint64
	switch kt {
	case proto.BOOL:
		keyText = []string{"false", "true", "true", "false", "true"}[kv]
		if keyText == "true" {
			keyBits = 1
		}
	case proto.STRING:
		keyText = []string{"", "k", "kk", "0", "a b"}[kv]
	case proto.INT32, proto.SINT32, proto.SFIX32:
		v := []int64{0, 1, -1, math.MaxInt32, math.MinInt32}[kv]
		keyText, keyBits = strconv.FormatInt(v, 10), uint64(v)
	case proto.INT64, proto.SINT64, proto.SFIX64:
		v := []int64{0, 1, -1, math.MaxInt64, math.MinInt64}[kv]
		keyText, keyBits = strconv.FormatInt(v, 10), uint64(v)
	case proto.UINT32, proto.FIX32:
		v := []uint64{0, 1, 1 << 31, math.MaxUint32, 1<<31 - 1}[kv]
		keyText, keyBits = strconv.FormatUint(v, 10), v
	case proto.UINT64, proto.FIX64:
		v := []uint64{0, 1, 1 << 63, math.MaxUint64, 1<<63 - 1}[kv]
		keyText, keyBits = strconv.FormatUint(v, 10), v
	}
	val := int64(int32(vrt.U32()))
	doc := jO().add("mk", jO().add(keyText, jI(val)))
	var e []byte
	e = gpw.AppendTag(e, 1, verifWire(kt))
	switch kt {
	case proto.STRING:
		e = gpw.AppendBytes(e, []byte(keyText))
	case proto.SINT32, proto.SINT64:
		e = gpw.AppendVarint(e, gpw.EncodeZigZag(int64(keyBits)))
	case proto.FIX32, proto.SFIX32:
		e = gpw.AppendFixed32(e, uint32(keyBits))
	case proto.FIX64, proto.SFIX64:
		e = gpw.AppendFixed64(e, keyBits)
	default:
		e = gpw.AppendVarint(e, keyBits)
	}
	e = gpw.AppendVarint(gpw.AppendTag(e, 2, gpw.VarintType), uint64(val))
	want := gpw.AppendBytes(gpw.AppendTag(nil, 1, gpw.BytesType), e)
	if vrt.Bool() {
		doc.add("a", jI(3))
		want = gpw.AppendVarint(gpw.AppendTag(want, 2, gpw.VarintType), 3)
	}
	out, err := verifConvert(m, doc, conv.Options{})
	vrt.Assert(err == nil, "C09.mapkey.converts")
	if err != nil {
		return
	}
	vrt.Reach("converted")
	vrt.Dump("C09.mapkey want", want)
	vrt.Dump("C09.mapkey got ", out)
	_, ok := vrt.PFields(out)
	vrt.Assert(ok, "C09.mapkey.well-formed")
	if ok {
		vrt.Assert(vrt.PEq(want, out, &vrt.PSchema{Sub: map[int]*vrt.PSchema{1: {}}}, 3), "C09.mapkey.equals-denoted-message")
	}
}

func init() { vrt.Register("VerifC09_Depth", VerifC09_Depth) }

// VerifC09_Depth: a document nested DEPTH levels against the recursive message R{R r=1; int32 v=2}: the
// converter either converts it (output well-formed, DEPTH length prefixes) or reports its depth limit as an
// error - it never panics (the engine's panic monitor is the obligation here).
func VerifC09_Depth() {
	depth := vrt.Param("DEPTH")
	r := proto.VerifNewMessage("R")
	proto.VerifAddField(r, 1, "r", "r", r, false)
	proto.VerifAddField(r, 2, "v", "v", proto.VerifBasic(proto.INT32), false)
	proto.VerifBuild(r)
	leaf := int64(vrt.U8() & 0x7f)
	doc := jO().add("v", jI(leaf))
	for i := 0; i < depth; i++ {
		doc = jO().add("r", doc)
	}
	out, err := verifConvert(r, doc, conv.Options{})
	vrt.Reach("done")
	if err != nil {
		vrt.Reach("depth-error")
		return
	}
	vrt.Reach("converted")
	// walk the nesting with the independent reader
	b := out
	for i := 0; i < depth; i++ {
		fs, ok := vrt.PFields(b)
		vrt.Assert(ok && len(fs) == 1 && fs[0].Num == 1 && fs[0].Wire == vrt.PBytesT, "C09.depth.nesting")
		if !ok || len(fs) != 1 {
			return
		}
		b = b[fs[0].PayStart:fs[0].End]
	}
	fs, ok := vrt.PFields(b)
	vrt.Assert(ok && len(fs) == 1 && fs[0].Num == 2 && fs[0].Val == uint64(leaf), "C09.depth.leaf")
}

func init() { vrt.Register("VerifC09_Reuse", VerifC09_Reuse) }

// VerifC09_Reuse: a conversion that fails at FAILAT (the parser reports a syntax error while a known member,
// an unknown member, a nested object or an array is pending) is followed by the conversion of a valid
// document with the pooled visitor it left behind: the second result is the denoted message.
func VerifC09_Reuse() {
	desc := verifC09M(proto.INT32)
	opts := conv.Options{DisallowUnknownField: false}
	bad := jO().add("a", jI(1))
	switch vrt.Param("FAILAT") {
	case 0:
		bad.add("extra", &jv{kind: jFail}) // value of an unknown member
	case 1:
		bad.add("sName", &jv{kind: jFail}) // value of a known member
	case 2:
		bad.add("in", jO().add("x", &jv{kind: jFail})) // inside a nested message
	case 3:
		bad.add("rp", jA(jI(1), &jv{kind: jFail})) // inside a packed list
	case 4:
		bad.add("extra", jO().add("q", &jv{kind: jFail})) // inside an unknown (skipped) object
	case 5:
		bad.add("ms", jO().add("k", &jv{kind: jFail})) // inside a map
	}
	_, err := verifConvert(desc, bad, opts)
	vrt.Assert(err != nil, "C09.reuse.first-fails")
	a := int32(vrt.U32())
	good := jO().add("a", jI(int64(a))).add("sName", jS("p"))
	want := gpw.AppendVarint(gpw.AppendTag(nil, 1, gpw.VarintType), uint64(int64(a)))
	want = gpw.AppendBytes(gpw.AppendTag(want, 2, gpw.BytesType), []byte("p"))
	out, err := verifConvert(desc, good, opts)
	vrt.Assert(err == nil, "C09.reuse.second-converts")
	if err != nil {
		return
	}
	vrt.Reach("converted")
	verifC09Check(out, want, "C09.reuse.second")
}
