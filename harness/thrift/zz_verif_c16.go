package thrift

import (
	"math"

	vrt "github.com/cloudwego/dynamicgo/internal/zzverif"
	"github.com/cloudwego/thriftgo/parser"
)

func init() { vrt.Register("VerifC16_DefaultValue", VerifC16_DefaultValue) }

// VerifC16_DefaultValue: the record makeDefaultValue builds for an IDL default (integer of every width,
// double, string, bool) holds exactly the declared value in its three forms: Go value, JSON text and Thrift
// binary - these are what the converters write for an absent field under the write options.
func VerifC16_DefaultValue() {
	kind := vrt.Param("KIND") // 0 byte, 1 i16, 2 i32, 3 i64, 4 double, 5 string, 6 bool, 7 identifier (SRC)
	vrt.GhostReset()
	switch kind {
	case 0, 1, 2, 3:
		t := []Type{BYTE, I16, I32, I64}[kind]
		v := int64(vrt.U64())
		switch kind {
		case 0:
			vrt.Assume(v >= math.MinInt8 && v <= math.MaxInt8)
		case 1:
			vrt.Assume(v >= math.MinInt16 && v <= math.MaxInt16)
		case 2:
			vrt.Assume(v >= math.MinInt32 && v <= math.MaxInt32)
		}
		dv, err := makeDefaultValue(VerifBasic(t), &parser.ConstValue{Type: parser.ConstType_ConstInt, TypedValue: &parser.ConstTypedValue{Int: &v}}, nil)
		vrt.Assert(err == nil && dv != nil, "C16.default.int.noerror")
		if err != nil || dv == nil {
			return
		}
		vrt.Reach("made")
		g, ok := dv.GoValue().(int64)
		vrt.Assert(ok && g == v, "C16.default.int.go-value")
		j, okj := vrt.JNumInt([]byte(dv.JSONValue()))
		vrt.Assert(okj && j == v, "C16.default.int.json-value")
		var want []byte
		switch kind {
		case 0:
			want = []byte{byte(v)}
		case 1:
			want = vrt.PutBE16(nil, int(v))
		case 2:
			want = vrt.PutBE32(nil, int(v))
		default:
			want = vrt.PutBE64(nil, v)
		}
		got := []byte(dv.ThriftBinary())
		vrt.Assert(vrt.BytesEq(got, 0, len(got), want, 0, len(want)), "C16.default.int.thrift-binary")
	case 4:
		bits := vrt.U64()
		vrt.Assume(bits>>52&0x7ff != 0x7ff)
		f := math.Float64frombits(bits)
		dv, err := makeDefaultValue(VerifBasic(DOUBLE), &parser.ConstValue{Type: parser.ConstType_ConstDouble, TypedValue: &parser.ConstTypedValue{Double: &f}}, nil)
		vrt.Assert(err == nil && dv != nil, "C16.default.double.noerror")
		if err != nil || dv == nil {
			return
		}
		vrt.Reach("made")
		got := []byte(dv.ThriftBinary())
		want := vrt.PutBE64(nil, int64(bits))
		vrt.Assert(vrt.BytesEq(got, 0, len(got), want, 0, len(want)), "C16.default.double.thrift-binary")
		jb, okj := vrt.JNumFloatBits([]byte(dv.JSONValue()))
		vrt.Assert(okj && jb == bits, "C16.default.double.json-value")
	case 5:
		s := string([]byte{vrt.U8() & 0x7f, 'z'})
		dv, err := makeDefaultValue(VerifBasic(STRING), &parser.ConstValue{Type: parser.ConstType_ConstLiteral, TypedValue: &parser.ConstTypedValue{Literal: &s}}, nil)
		vrt.Assert(err == nil && dv != nil, "C16.default.string.noerror")
		if err != nil || dv == nil {
			return
		}
		vrt.Reach("made")
		got := []byte(dv.ThriftBinary())
		want := vrt.PutString(nil, []byte(s))
		vrt.Assert(vrt.BytesEq(got, 0, len(got), want, 0, len(want)), "C16.default.string.thrift-binary")
	case 6:
		id := "false"
		b := vrt.Bool()
		if b {
			id = "true"
		}
		dv, err := makeDefaultValue(VerifBasic(BOOL), &parser.ConstValue{Type: parser.ConstType_ConstIdentifier, TypedValue: &parser.ConstTypedValue{Identifier: &id}}, nil)
		vrt.Assert(err == nil && dv != nil, "C16.default.bool.noerror")
		if err != nil || dv == nil {
			return
		}
		vrt.Reach("made")
		got := []byte(dv.ThriftBinary())
		vrt.Assert(len(got) == 1 && (got[0] == 1) == b && dv.JSONValue() == id, "C16.default.bool.forms")
	case 7:
		// identifier defaults: constants and enum values of the file itself and of an included file; both
		// files declare an enum Color and a constant K with different (symbolic) values
		src := vrt.Param("SRC") // 0 K, 1 shared.K, 2 Color.GREEN, 3 shared.Color.GREEN, 4 Color.RED (first value)
		lv, sv := int64(int32(vrt.U32())), int64(int32(vrt.U32()))
		lc, sc := int64(int32(vrt.U32())), int64(int32(vrt.U32()))
		mkTree := func(file string, ev, cv int64) *parser.Thrift {
			c := cv
			return &parser.Thrift{
				Filename:  file,
				Enums:     []*parser.Enum{{Name: "Other", Values: []*parser.EnumValue{{Name: "GREEN", Value: 77}}}, {Name: "Color", Values: []*parser.EnumValue{{Name: "RED", Value: ev + 1}, {Name: "GREEN", Value: ev}}}},
				Constants: []*parser.Constant{{Name: "J", Value: &parser.ConstValue{Type: parser.ConstType_ConstInt, TypedValue: &parser.ConstTypedValue{Int: new(int64)}}}, {Name: "K", Value: &parser.ConstValue{Type: parser.ConstType_ConstInt, TypedValue: &parser.ConstTypedValue{Int: &c}}}},
			}
		}
		shared := mkTree("shared.thrift", sv, sc)
		main := mkTree("main.thrift", lv, lc)
		main.Includes = []*parser.Include{{Path: "shared.thrift", Reference: shared}}
		id := []string{"K", "shared.K", "Color.GREEN", "shared.Color.GREEN", "Color.RED"}[src]
		want := []int64{lc, sc, lv, sv, lv + 1}[src]
		dv, err := makeDefaultValue(VerifBasic(I64), &parser.ConstValue{Type: parser.ConstType_ConstIdentifier, TypedValue: &parser.ConstTypedValue{Identifier: &id}}, main)
		vrt.Assert(err == nil && dv != nil, "C16.default.identifier.noerror")
		if err != nil || dv == nil {
			return
		}
		vrt.Reach("made")
		g, ok := dv.GoValue().(int64)
		vrt.Assert(ok && g == want, "C16.default.identifier.go-value")
		j, okj := vrt.JNumInt([]byte(dv.JSONValue()))
		vrt.Assert(okj && j == want, "C16.default.identifier.json-value")
		got := []byte(dv.ThriftBinary())
		wb := vrt.PutBE64(nil, want)
		vrt.Assert(vrt.BytesEq(got, 0, len(got), wb, 0, len(wb)), "C16.default.identifier.thrift-binary")
	}
}
