package generic

import (
	vrt "github.com/cloudwego/dynamicgo/internal/zzverif"
	"github.com/cloudwego/dynamicgo/proto"
	gpw "google.golang.org/protobuf/encoding/protowire"
)

func init() {
	vrt.Register("VerifC11_Proto", VerifC11_Proto)
}

// verifPRename: the target descriptors name their fields differently from the source (the names of two
// numbers are exchanged): projection goes by field number, names play no part.
var verifPRename bool

func verifPName(plain, renamed string) string {
	if verifPRename {
		return renamed
	}
	return plain
}

func verifPInner(mask int) *proto.TypeDescriptor {
	m := proto.VerifNewMessage("Inner")
	if mask&1 != 0 {
		n := verifPName("x", "y")
		proto.VerifAddField(m, 1, n, n, proto.VerifBasic(proto.INT32), false)
	}
	if mask&2 != 0 {
		n := verifPName("y", "x")
		proto.VerifAddField(m, 2, n, n, proto.VerifBasic(proto.STRING), false)
	}
	return proto.VerifBuild(m)
}

func verifPOuter(mask int, inner *proto.TypeDescriptor) *proto.TypeDescriptor {
	m := proto.VerifNewMessage("M")
	if mask&1 != 0 {
		n := verifPName("a", "b")
		proto.VerifAddField(m, 1, n, n, proto.VerifBasic(proto.SINT64), false)
	}
	if mask&2 != 0 {
		n := verifPName("b", "a")
		proto.VerifAddField(m, 2, n, n, proto.VerifBasic(proto.STRING), false)
	}
	if mask&4 != 0 {
		n := verifPName("c", "l")
		proto.VerifAddField(m, 3, n, n, inner, false)
	}
	if mask&8 != 0 {
		n := verifPName("l", "c")
		proto.VerifAddField(m, 4, n, n, inner, true)
	}
	return proto.VerifBuild(m)
}

// verifPInnerValue draws an Inner message; returns its full encoding and its projection onto mask.
func verifPInnerValue(mask int, ylen int, narrow bool) ([]byte, []byte) {
	var full, proj []byte
	if vrt.Bool() {
		x := uint64(int64(int32(vrt.U32())))
		if narrow {
			vrt.Assume(x < 128)
		}
		full = gpw.AppendVarint(gpw.AppendTag(full, 1, gpw.VarintType), x)
		if mask&1 != 0 {
			proj = gpw.AppendVarint(gpw.AppendTag(proj, 1, gpw.VarintType), x)
		}
	}
	if vrt.Bool() {
		y := make([]byte, ylen)
		for i := range y {
			y[i] = 'y'
		}
		if ylen > 0 {
			y[0] = vrt.U8() & 0x7f
		}
		full = gpw.AppendBytes(gpw.AppendTag(full, 2, gpw.BytesType), y)
		if mask&2 != 0 {
			proj = gpw.AppendBytes(gpw.AppendTag(proj, 2, gpw.BytesType), y)
		}
	}
	return full, proj
}

// VerifC11_Proto: cutting a message of M into every subset target (TMASK top level, IMASK nested); the
// nested string has YLEN bytes so that dropping it moves the enclosing length prefix across the 1/2-byte boundary.
func VerifC11_Proto() {
	tmask := vrt.Param("TMASK")
	imask := vrt.Param("IMASK")
	ylen := vrt.Param("YLEN")
	cnt := vrt.Param("CNT")
	verifPRename = false
	src := verifPOuter(15, verifPInner(3))
	verifPRename = vrt.Param("RENAME") != 0
	dst := verifPOuter(tmask, verifPInner(imask))
	verifPRename = false
	opts := &Options{DisallowUnknown: vrt.Bool()}
	var full, proj []byte
	if vrt.Bool() {
		a := gpw.EncodeZigZag(int64(vrt.U64()))
		if vrt.Param("WIDE") == 0 {
			vrt.Assume(a < 128)
		}
		full = gpw.AppendVarint(gpw.AppendTag(full, 1, gpw.VarintType), a)
		if tmask&1 != 0 {
			proj = gpw.AppendVarint(gpw.AppendTag(proj, 1, gpw.VarintType), a)
		}
	}
	if vrt.Bool() {
		s := []byte{vrt.U8() & 0x7f}
		full = gpw.AppendBytes(gpw.AppendTag(full, 2, gpw.BytesType), s)
		if tmask&2 != 0 {
			proj = gpw.AppendBytes(gpw.AppendTag(proj, 2, gpw.BytesType), s)
		}
	}
	if vrt.Bool() {
		f, p := verifPInnerValue(imask, ylen, false)
		full = gpw.AppendBytes(gpw.AppendTag(full, 3, gpw.BytesType), f)
		if tmask&4 != 0 {
			proj = gpw.AppendBytes(gpw.AppendTag(proj, 3, gpw.BytesType), p)
		}
	}
	for i := 0; i < cnt; i++ {
		f, p := verifPInnerValue(imask, 1, true)
		full = gpw.AppendBytes(gpw.AppendTag(full, 4, gpw.BytesType), f)
		if tmask&8 != 0 {
			proj = gpw.AppendBytes(gpw.AppendTag(proj, 4, gpw.BytesType), p)
		}
	}
	unknown := vrt.Bool()
	if unknown {
		full = gpw.AppendVarint(gpw.AppendTag(full, 9, gpw.VarintType), uint64(vrt.U8()))
	}
	out, err := NewRootValue(src, full).MarshalTo(dst, opts)
	if unknown && opts.DisallowUnknown {
		vrt.Reach("unknown-disallowed")
		vrt.Assert(err != nil, "C11.proto.unknown.disallowed.error")
		return
	}
	vrt.Reach("projected")
	vrt.Assert(err == nil, "C11.proto.noerror")
	if err != nil {
		return
	}
	same := len(out) == len(proj)
	if same {
		for i := range proj {
			if out[i] != proj[i] {
				same = false
			}
		}
	}
	vrt.Assert(same, "C11.proto.projection")
}
