package generic

import (
	vrt "github.com/cloudwego/dynamicgo/internal/zzverif"
	"github.com/cloudwego/dynamicgo/proto"
)

func init() {
	vrt.Register("VerifC06_ProtoGeneric", VerifC06_ProtoGeneric)
}

func verifC06Schema() *proto.TypeDescriptor {
	msg := proto.VerifNewMessage("M")
	proto.VerifAddField(msg, 1, "a", "a", proto.VerifBasic(proto.INT32), false)
	proto.VerifAddField(msg, 2, "s", "s", proto.VerifBasic(proto.STRING), false)
	proto.VerifAddField(msg, 3, "xs", "xs", proto.VerifBasic(proto.INT32), true)
	proto.VerifAddMap(msg, 4, "m", "m", proto.VerifBasic(proto.INT32), proto.VerifBasic(proto.STRING))
	proto.VerifAddField(msg, 5, "sub", "sub", msg, false)
	proto.VerifAddField(msg, 6, "ss", "ss", proto.VerifBasic(proto.STRING), true)
	return proto.VerifBuild(msg)
}

// VerifC06_ProtoGeneric: generic reads, DOM loading and Go-value conversion on N arbitrary bytes.
func VerifC06_ProtoGeneric() {
	b := vrt.Bytes(vrt.Param("N"))
	root := NewRootValue(verifC06Schema(), b)
	switch vrt.Param("OP") {
	case 0:
		fn := proto.FieldNumber(vrt.Param("FN"))
		g := root.GetByPath(NewPathFieldId(fn))
		if !g.IsError() {
			vrt.Assert(vrt.InBuf(g.Raw(), b), "C06.proto.getbypath.in-buffer")
		}
		g2 := root.Field(fn)
		if !g2.IsError() {
			vrt.Assert(vrt.InBuf(g2.Raw(), b), "C06.proto.field.in-buffer")
		}
	case 1:
		g := root.GetByPath(NewPathFieldId(3), NewPathIndex(vrt.Int()))
		if !g.IsError() {
			vrt.Assert(vrt.InBuf(g.Raw(), b), "C06.proto.getbypath.index.in-buffer")
		}
		g = root.GetByPath(NewPathFieldId(6), NewPathIndex(vrt.Int()))
		if !g.IsError() {
			vrt.Assert(vrt.InBuf(g.Raw(), b), "C06.proto.getbypath.index-unpacked.in-buffer")
		}
	case 2:
		g := root.GetByPath(NewPathFieldId(4), NewPathIntKey(vrt.Int()))
		if !g.IsError() {
			vrt.Assert(vrt.InBuf(g.Raw(), b), "C06.proto.getbypath.intkey.in-buffer")
		}
	case 5, 6:
		// multi-step paths into the nested message, addressed by field id (5) or by field name (6)
		f := func(id proto.FieldNumber, name string) Path {
			if vrt.Param("OP") == 6 {
				return NewPathFieldName(name)
			}
			return NewPathFieldId(id)
		}
		g := root.GetByPath(f(5, "sub"), f(2, "s"))
		if !g.IsError() {
			vrt.Assert(vrt.InBuf(g.Raw(), b), "C06.proto.getbypath.nested.in-buffer")
		}
		g = root.GetByPath(f(5, "sub"), f(5, "sub"), f(1, "a"))
		if !g.IsError() {
			vrt.Assert(vrt.InBuf(g.Raw(), b), "C06.proto.getbypath.nested2.in-buffer")
		}
		g = root.GetByPath(f(5, "sub"), f(6, "ss"), NewPathIndex(vrt.Int()))
		if !g.IsError() {
			vrt.Assert(vrt.InBuf(g.Raw(), b), "C06.proto.getbypath.nested-list.in-buffer")
		}
	case 3:
		_, _ = root.Interface(&Options{})
	case 4:
		tree := PathNode{Node: root.Node}
		_ = tree.Load(vrt.Bool(), &Options{}, verifC06Schema())
	}
	vrt.Reach("done")
}
