#!/bin/bash
# usage: tools/confirm_seed.sh <seed_dir> <name>  — confirms a seeded change in a scratch worktree:
# patch applies, builds, the repository's own tests still pass, the demonstration fails with the
# patch and passes without it.  On success the seed is stored under /verif/seeded/<name>/.
export GOFLAGS=-mod=mod GOPROXY=off GOSUMDB=off GOTOOLCHAIN=local
src=$1; name=$2
wt=/tmp/wt_confirm_$$
git -C /repo worktree add -q --detach $wt HEAD || exit 2
trap "git -C /repo worktree remove --force $wt >/dev/null 2>&1" EXIT
place=$(grep -m1 -o "place in: *[A-Za-z0-9_/.-]*" $src/demo_test.go | sed 's/place in: *//')
[ -z "$place" ] && { echo "$name: no 'place in:' comment"; exit 2; }
cp $src/demo_test.go $wt/$place/zz_seed_demo_test.go
cd $wt
clean=$(go test -vet=off -count=1 -run 'Seed|Demo' ./$place/ 2>&1 | tail -3)
echo "$clean" | grep -q "^ok" || { echo "$name: demo does not pass on clean tree: $clean"; exit 1; }
git apply $src/patch.diff || { echo "$name: patch does not apply"; exit 1; }
go build ./... || { echo "$name: does not build"; exit 1; }
rm $wt/$place/zz_seed_demo_test.go
suite=$(go test -vet=off -count=1 ./... 2>&1 | grep -v "^ok\|no test files" | head -5)
[ -n "$suite" ] && { echo "$name: existing tests fail with the patch: $suite"; exit 1; }
cp $src/demo_test.go $wt/$place/zz_seed_demo_test.go
mut=$(go test -vet=off -count=1 -run 'Seed|Demo' ./$place/ 2>&1 | tail -3)
echo "$mut" | grep -q "^ok" && { echo "$name: demo passes with the patch (not a mutation)"; exit 1; }
mkdir -p /verif/seeded/$name
cp $src/patch.diff $src/demo_test.go /verif/seeded/$name/
[ -f $src/notes.md ] && cp $src/notes.md /verif/seeded/$name/
echo "$name: confirmed (clean: pass, patched: suite passes, demo fails)"
