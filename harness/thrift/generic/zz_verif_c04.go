package generic

import (
	vrt "github.com/cloudwego/dynamicgo/internal/zzverif"
	"github.com/cloudwego/dynamicgo/thrift"
)

func init() {
	vrt.Register("VerifC04_Struct", VerifC04_Struct)
	vrt.Register("VerifC04_List", VerifC04_List)
	vrt.Register("VerifC04_Map", VerifC04_Map)
	vrt.Register("VerifC04_Fork", VerifC04_Fork)
	vrt.Register("VerifC04_SetMany", VerifC04_SetMany)
}

// verifNewValue makes the replacement value of thrift type vt with symbolic content.
func verifNewValue(vt byte) (Node, []byte) {
	switch vt {
	case vrt.TBOOL:
		n := NewNodeBool(vrt.Bool())
		return n, n.Raw()
	case vrt.TI32:
		n := NewNodeInt32(int32(vrt.U32()))
		return n, n.Raw()
	case vrt.TSTRING:
		n := NewNodeString(string(vrt.Bytes(2)))
		return n, n.Raw()
	case vrt.TSTRUCT:
		// struct{1: byte x}
		b := []byte{vrt.TBYTE, 0, 1, vrt.U8(), 0}
		return NewNode(thrift.STRUCT, b), b
	}
	panic("verifNewValue: unsupported type")
}

// verifSameChild: child a of buffer x equals child b of buffer y (type, id/key bytes, value bytes).
func verifSameChild(x []byte, a vrt.TElem, y []byte, b vrt.TElem) bool {
	if a.Typ != b.Typ || a.ID != b.ID {
		return false
	}
	if !vrt.BytesEq(x, a.KStart, a.KEnd, y, b.KStart, b.KEnd) {
		return false
	}
	return vrt.BytesEq(x, a.Start, a.End, y, b.Start, b.End)
}

// verifExceptOne asserts that after[] with element skipAfter removed equals before[] with element
// skipBefore removed, element by element in order (-1 = remove nothing).
func verifExceptOne(b []byte, before []vrt.TElem, skipBefore int, r []byte, after []vrt.TElem, skipAfter int, label string) {
	nb, na := len(before), len(after)
	if skipBefore >= 0 {
		nb--
	}
	if skipAfter >= 0 {
		na--
	}
	vrt.Assert(nb == na, label+".count")
	if nb != na {
		return
	}
	i, j := 0, 0
	for k := 0; k < nb; k++ {
		if i == skipBefore {
			i++
		}
		if j == skipAfter {
			j++
		}
		vrt.Assert(verifSameChild(b, before[i], r, after[j]), label+".others-unchanged")
		i++
		j++
	}
}

// verifInsertedSomewhere: after == before with one element whose value bytes are val inserted at some position.
func verifInsertedSomewhere(b []byte, before []vrt.TElem, r []byte, after []vrt.TElem, val []byte) bool {
	if len(after) != len(before)+1 {
		return false
	}
	for pos := range after {
		if !vrt.BytesEq(r, after[pos].Start, after[pos].End, val, 0, len(val)) {
			continue
		}
		ok := true
		for k := range before {
			j := k
			if k >= pos {
				j = k + 1
			}
			if !verifSameChild(b, before[k], r, after[j]) {
				ok = false
			}
		}
		if ok {
			return true
		}
	}
	return false
}

func verifSnapshot(b []byte) []byte { return append([]byte(nil), b...) }

// VerifC04_Struct: SetByPath / UnsetByPath of a field on every well-formed struct of N bytes.
func VerifC04_Struct() {
	n := vrt.Param("N")
	b := vrt.Bytes(n)
	kids, ok := vrt.TChildren(b, vrt.TSTRUCT, verifDepth)
	vrt.Assume(ok)
	verifDistinctIDs(kids)
	orig := verifSnapshot(b)
	want := int16(vrt.U16())
	idx := -1
	for i := range kids {
		if int16(kids[i].ID) == want {
			idx = i
		}
	}
	node := NewNode(thrift.STRUCT, b)
	path := NewPathFieldId(thrift.FieldID(want))
	if vrt.Param("OP") == 0 {
		vt := byte(vrt.Param("VT"))
		if idx >= 0 {
			vrt.Assume(kids[idx].Typ == vt)
		}
		sub, subRaw := verifNewValue(vt)
		exist, err := node.SetByPath(sub, path)
		vrt.Assert(err == nil, "C04.struct.set.noerror")
		if err != nil {
			return
		}
		r := node.Raw()
		after, ok2 := vrt.TChildren(r, vrt.TSTRUCT, verifDepth)
		vrt.Assert(ok2, "C04.struct.set.wellformed")
		if !ok2 {
			return
		}
		pos := -1
		for i := range after {
			if int16(after[i].ID) == want {
				pos = i
			}
		}
		vrt.Assert(pos >= 0, "C04.struct.set.present-after")
		if pos < 0 {
			return
		}
		vrt.Assert(after[pos].Typ == vt && vrt.BytesEq(r, after[pos].Start, after[pos].End, subRaw, 0, len(subRaw)), "C04.struct.set.value")
		if idx >= 0 {
			vrt.Reach("set.existing")
			vrt.Assert(exist, "C04.struct.set.exist-flag.true")
			verifExceptOne(orig, kids, idx, r, after, pos, "C04.struct.set.existing")
		} else {
			vrt.Reach("set.absent")
			vrt.Assert(!exist, "C04.struct.set.exist-flag.false")
			verifExceptOne(orig, kids, -1, r, after, pos, "C04.struct.set.absent")
		}
		return
	}
	err := node.UnsetByPath(path)
	r := node.Raw()
	if idx >= 0 {
		vrt.Reach("unset.present")
		vrt.Assert(err == nil, "C04.struct.unset.noerror")
		after, ok2 := vrt.TChildren(r, vrt.TSTRUCT, verifDepth)
		vrt.Assert(ok2, "C04.struct.unset.wellformed")
		if ok2 {
			verifExceptOne(orig, kids, idx, r, after, -1, "C04.struct.unset.present")
		}
	} else {
		vrt.Reach("unset.absent")
		vrt.Assert(vrt.BytesEq(r, 0, len(r), orig, 0, len(orig)), "C04.struct.unset.absent.unchanged")
	}
}

// VerifC04_List: SetByPath / UnsetByPath by index on every well-formed list/set of N bytes.
func VerifC04_List() {
	n := vrt.Param("N")
	b := vrt.Bytes(n)
	tt := byte(vrt.TLIST)
	if vrt.Param("SET") != 0 {
		tt = vrt.TSET
	}
	kids, ok := vrt.TChildren(b, tt, verifDepth)
	vrt.Assume(ok)
	orig := verifSnapshot(b)
	want := vrt.Int()
	vrt.Assume(want >= 0 && want <= len(kids))
	want = vrt.Conc(want)
	node := NewNode(thrift.Type(tt), b)
	path := NewPathIndex(want)
	if vrt.Param("OP") == 0 {
		vt := byte(vrt.Param("VT"))
		vrt.Assume(b[0] == vt)
		sub, subRaw := verifNewValue(vt)
		exist, err := node.SetByPath(sub, path)
		vrt.Assert(err == nil, "C04.list.set.noerror")
		if err != nil {
			return
		}
		r := node.Raw()
		after, ok2 := vrt.TChildren(r, tt, verifDepth)
		vrt.Assert(ok2, "C04.list.set.wellformed")
		if !ok2 {
			return
		}
		if want < len(kids) {
			vrt.Reach("set.existing")
			vrt.Assert(exist, "C04.list.set.exist-flag.true")
			vrt.Assert(len(after) == len(kids), "C04.list.set.existing.count")
			if len(after) == len(kids) {
				vrt.Assert(vrt.BytesEq(r, after[want].Start, after[want].End, subRaw, 0, len(subRaw)), "C04.list.set.existing.value")
				verifExceptOne(orig, kids, want, r, after, want, "C04.list.set.existing")
			}
		} else {
			vrt.Reach("set.append")
			vrt.Assert(!exist, "C04.list.set.exist-flag.false")
			vrt.Assert(len(after) == len(kids)+1, "C04.list.set.append.count")
			if len(after) == len(kids)+1 {
				// the statement does not fix the position of the inserted element: it may be anywhere,
				// provided the previous elements keep their values and relative order
				vrt.Assert(verifInsertedSomewhere(orig, kids, r, after, subRaw), "C04.list.set.append.model")
			}
		}
		return
	}
	err := node.UnsetByPath(path)
	r := node.Raw()
	if want < len(kids) {
		vrt.Reach("unset.present")
		vrt.Assert(err == nil, "C04.list.unset.noerror")
		after, ok2 := vrt.TChildren(r, tt, verifDepth)
		vrt.Assert(ok2, "C04.list.unset.wellformed")
		if ok2 {
			verifExceptOne(orig, kids, want, r, after, -1, "C04.list.unset.present")
		}
	} else {
		vrt.Reach("unset.absent")
		vrt.Assert(vrt.BytesEq(r, 0, len(r), orig, 0, len(orig)), "C04.list.unset.absent.unchanged")
	}
}

// VerifC04_Map: SetByPath / UnsetByPath by integer or string key on every well-formed map of N bytes.
func VerifC04_Map() {
	n := vrt.Param("N")
	b := vrt.Bytes(n)
	kids, ok := vrt.TChildren(b, vrt.TMAP, verifDepth)
	vrt.Assume(ok)
	for i := range kids {
		for j := 0; j < i; j++ {
			vrt.Assume(!vrt.BytesEq(b, kids[i].KStart, kids[i].KEnd, b, kids[j].KStart, kids[j].KEnd))
		}
	}
	orig := verifSnapshot(b)
	kt := b[0]
	var path Path
	var keyRaw []byte
	if vrt.Param("STR") != 0 {
		vrt.Assume(kt == vrt.TSTRING)
		k := vrt.Bytes(1)
		path = NewPathStrKey(string(k))
		keyRaw = vrt.PutString(nil, k)
	} else {
		ktp := byte(vrt.Param("KT"))
		vrt.Assume(kt == ktp)
		switch ktp {
		case vrt.TBYTE:
			k := vrt.U8()
			path = NewPathIntKey(int(k))
			keyRaw = []byte{k}
		case vrt.TI16:
			k := int16(vrt.U16())
			path = NewPathIntKey(int(k))
			keyRaw = vrt.PutBE16(nil, int(k))
		case vrt.TI64:
			k := int64(vrt.U64())
			path = NewPathIntKey(int(k))
			keyRaw = vrt.PutBE64(nil, k)
		default:
			k := int32(vrt.U32())
			path = NewPathIntKey(int(k))
			keyRaw = vrt.PutBE32(nil, int(k))
		}
	}
	idx := -1
	for i := range kids {
		if vrt.BytesEq(b, kids[i].KStart, kids[i].KEnd, keyRaw, 0, len(keyRaw)) {
			idx = i
		}
	}
	node := NewNode(thrift.MAP, b)
	if vrt.Param("OP") == 0 {
		vt := byte(vrt.Param("VT"))
		vrt.Assume(b[1] == vt)
		// scenario label: existing/absent x key kind (x whether key and value types differ, for absent int keys)
		scen := "C04.map.set.existing"
		if idx < 0 {
			scen = "C04.map.set.absent"
		}
		if vrt.Param("STR") != 0 {
			scen += ".strkey"
		} else if idx < 0 && kt != vt {
			scen += ".intkey.valuetype-differs"
		} else {
			scen += ".intkey"
		}
		sub, subRaw := verifNewValue(vt)
		exist, err := node.SetByPath(sub, path)
		vrt.Assert(err == nil, scen+".noerror")
		if err != nil {
			return
		}
		r := node.Raw()
		after, ok2 := vrt.TChildren(r, vrt.TMAP, verifDepth)
		vrt.Assert(ok2, scen+".wellformed")
		if !ok2 {
			return
		}
		pos := -1
		for i := range after {
			if vrt.BytesEq(r, after[i].KStart, after[i].KEnd, keyRaw, 0, len(keyRaw)) {
				pos = i
			}
		}
		vrt.Assert(pos >= 0, scen+".present-after")
		if pos < 0 {
			return
		}
		vrt.Assert(vrt.BytesEq(r, after[pos].Start, after[pos].End, subRaw, 0, len(subRaw)), scen+".value")
		if idx >= 0 {
			vrt.Reach("set.existing")
			vrt.Assert(exist, scen+".exist-flag")
			verifExceptOne(orig, kids, idx, r, after, pos, scen)
		} else {
			vrt.Reach("set.absent")
			vrt.Assert(!exist, scen+".exist-flag")
			verifExceptOne(orig, kids, -1, r, after, pos, scen)
		}
		return
	}
	err := node.UnsetByPath(path)
	r := node.Raw()
	if idx >= 0 {
		vrt.Reach("unset.present")
		vrt.Assert(err == nil, "C04.map.unset.noerror")
		after, ok2 := vrt.TChildren(r, vrt.TMAP, verifDepth)
		vrt.Assert(ok2, "C04.map.unset.wellformed")
		if ok2 {
			verifExceptOne(orig, kids, idx, r, after, -1, "C04.map.unset.present")
		}
	} else {
		vrt.Reach("unset.absent")
		vrt.Assert(vrt.BytesEq(r, 0, len(r), orig, 0, len(orig)), "C04.map.unset.absent.unchanged")
		_, ok2 := vrt.TChildren(r, vrt.TMAP, verifDepth)
		vrt.Assert(ok2, "C04.map.unset.absent.wellformed")
	}
}

// VerifC04_Fork: a forked value is independent of its origin.
func VerifC04_Fork() {
	n := vrt.Param("N")
	b := vrt.Bytes(n)
	kids, ok := vrt.TChildren(b, vrt.TSTRUCT, verifDepth)
	vrt.Assume(ok && len(kids) > 0)
	verifDistinctIDs(kids)
	orig := verifSnapshot(b)
	node := NewNode(thrift.STRUCT, b)
	fork := node.Fork()
	id := thrift.FieldID(kids[0].ID)
	if vrt.Bool() {
		vrt.Reach("edit-fork")
		err := fork.UnsetByPath(NewPathFieldId(id))
		vrt.Assert(err == nil, "C04.fork.unset.noerror")
		r := node.Raw()
		vrt.Assert(vrt.BytesEq(r, 0, len(r), orig, 0, len(orig)), "C04.fork.origin-unchanged")
	} else {
		vrt.Reach("edit-origin")
		err := node.UnsetByPath(NewPathFieldId(id))
		vrt.Assert(err == nil, "C04.fork.unset.noerror")
		r := fork.Raw()
		vrt.Assert(vrt.BytesEq(r, 0, len(r), orig, 0, len(orig)), "C04.fork.fork-unchanged")
	}
}

// VerifC04_SetMany: SetMany with two addresses (each existing or absent) on every well-formed
// struct / list / set of N bytes.
func VerifC04_SetMany() {
	n := vrt.Param("N")
	t := byte(vrt.Param("T"))
	vt := byte(vrt.Param("VT"))
	b := vrt.Bytes(n)
	kids, ok := vrt.TChildren(b, t, verifDepth)
	vrt.Assume(ok)
	orig := verifSnapshot(b)
	node := NewNode(thrift.Type(t), b)
	var p1, p2 Path
	i1, i2 := -1, -1 // positions of the addressed elements in the original (-1 = absent)
	var id1, id2 int
	switch t {
	case vrt.TSTRUCT:
		verifDistinctIDs(kids)
		w1, w2 := int16(vrt.U16()), int16(vrt.U16())
		vrt.Assume(w1 != w2)
		id1, id2 = int(w1), int(w2)
		p1, p2 = NewPathFieldId(thrift.FieldID(w1)), NewPathFieldId(thrift.FieldID(w2))
		for i := range kids {
			if int16(kids[i].ID) == w1 {
				i1 = i
				vrt.Assume(kids[i].Typ == vt)
			}
			if int16(kids[i].ID) == w2 {
				i2 = i
				vrt.Assume(kids[i].Typ == vt)
			}
		}
	default:
		vrt.Assume(b[0] == vt)
		w1 := vrt.Int()
		vrt.Assume(w1 >= 0 && w1 <= len(kids))
		w1 = vrt.Conc(w1)
		// second address: one past the end (an insertion), unless the first one already is
		w2 := len(kids)
		if w1 == w2 {
			vrt.Assume(len(kids) > 0)
			w2 = 0
		}
		p1, p2 = NewPathIndex(w1), NewPathIndex(w2)
		if w1 < len(kids) {
			i1 = w1
		}
		if w2 < len(kids) {
			i2 = w2
		}
	}
	s1, r1 := verifNewValue(vt)
	s2, r2 := verifNewValue(vt)
	err := node.SetMany([]PathNode{{Path: p1, Node: s1}, {Path: p2, Node: s2}}, &Options{})
	vrt.Assert(err == nil, "C04.setmany.noerror")
	if err != nil {
		return
	}
	r := node.Raw()
	after, ok2 := vrt.TChildren(r, t, verifDepth)
	vrt.Assert(ok2, "C04.setmany.wellformed")
	if !ok2 {
		return
	}
	want := len(kids)
	if i1 < 0 {
		want++
	}
	if i2 < 0 {
		want++
	}
	vrt.Assert(len(after) == want, "C04.setmany.count")
	if len(after) != want {
		return
	}
	if i1 >= 0 && i2 >= 0 {
		vrt.Reach("both-existing")
	} else if i1 < 0 && i2 < 0 {
		vrt.Reach("both-absent")
	} else {
		vrt.Reach("mixed")
	}
	// every original element other than the addressed ones is still there, in the same relative order
	j := 0
	for i := range kids {
		if i == i1 || i == i2 {
			continue
		}
		found := false
		for j < len(after) && !found {
			if verifSameChild(orig, kids[i], r, after[j]) {
				found = true
			}
			j++
		}
		vrt.Assert(found, "C04.setmany.others-unchanged-in-order")
	}
	// the new values are present
	has1, has2 := false, false
	for k := range after {
		if t == vrt.TSTRUCT {
			if after[k].ID == id1&0xffff && vrt.BytesEq(r, after[k].Start, after[k].End, r1, 0, len(r1)) {
				has1 = true
			}
			if after[k].ID == id2&0xffff && vrt.BytesEq(r, after[k].Start, after[k].End, r2, 0, len(r2)) {
				has2 = true
			}
		} else {
			if vrt.BytesEq(r, after[k].Start, after[k].End, r1, 0, len(r1)) {
				has1 = true
			}
			if vrt.BytesEq(r, after[k].Start, after[k].End, r2, 0, len(r2)) {
				has2 = true
			}
		}
	}
	vrt.Assert(has1 && has2, "C04.setmany.new-values-present")
	if t != vrt.TSTRUCT && i1 >= 0 {
		vrt.Assert(vrt.BytesEq(r, after[i1].Start, after[i1].End, r1, 0, len(r1)) || i2 < 0, "C04.setmany.replaced-in-place")
	}
}
