package t2j

import (
	"context"
	"errors"

	"github.com/cloudwego/dynamicgo/conv"
	vrt "github.com/cloudwego/dynamicgo/internal/zzverif"
	"github.com/cloudwego/dynamicgo/thrift"
	"github.com/cloudwego/dynamicgo/thrift/annotation"
)

func init() {
	vrt.Register("VerifC17_Response", VerifC17_Response)
}

// verifResp records what the converter delivers to the HTTP response.
type verifResp struct {
	status    int
	statusSet int
	hk, hv    []string
	ck, cv    []string
	body      []byte
	bodySet   int
	failHdr   bool
}

func (r *verifResp) SetStatusCode(c int) error {
	r.status, r.statusSet = c, r.statusSet+1
	return nil
}
func (r *verifResp) SetHeader(k, v string) error {
	if r.failHdr {
		return errors.New("header rejected")
	}
	r.hk, r.hv = append(r.hk, k), append(r.hv, string(append([]byte(nil), v...)))
	return nil
}
func (r *verifResp) SetCookie(k, v string) error {
	r.ck, r.cv = append(r.ck, k), append(r.cv, string(append([]byte(nil), v...)))
	return nil
}
func (r *verifResp) SetRawBody(b []byte) error {
	r.body, r.bodySet = append([]byte(nil), b...), r.bodySet+1
	return nil
}

type verifCtx struct {
	context.Context
	resp interface{}
}

func (c verifCtx) Value(k interface{}) interface{} {
	if k == conv.CtxKeyHTTPResponse {
		return c.resp
	}
	return nil
}

// annotation lists of field 6 "mixed" (1 query, 3 header, 4 cookie, 7 raw_body, 9 raw_uri)
var verifC17RespLists = [][]int{{1}, {3}, {1, 3}, {3, 4}, {1, 4, 3}, {9}, {8, 7}}

// VerifC17_Response: struct{1: i32 code (api.http_code); 2: string h (api.header "X-H"); 3: string c (api.cookie
// "ck"); 4: string rb (api.raw_body); 5: i32 plain; 6: string mixed (api.<ML...> = "m")}: which fields are
// present (PRES bit mask), their values, EnableHttpMapping, WriteHttpValueFallback, OmitHttpMappingErrors and a
// response that rejects headers are symbolic.  Each annotated field is delivered to the first listed target
// that accepts it and left out of the JSON body; a field no target accepts goes to the body under
// WriteHttpValueFallback and is dropped otherwise; un-annotated fields stay in the body.
func VerifC17_Response() {
	pres := vrt.Param("PRES")
	list := verifC17RespLists[vrt.Param("ML")]
	st := thrift.VerifNewStruct("Resp", 7)
	fcode := thrift.VerifAddField(st, thrift.VField{ID: 1, Name: "code", Type: thrift.VerifBasic(thrift.I32), Req: 2}, thrift.Options{})
	fh := thrift.VerifAddField(st, thrift.VField{ID: 2, Name: "h", Type: thrift.VerifBasic(thrift.STRING), Req: 2}, thrift.Options{})
	fc := thrift.VerifAddField(st, thrift.VField{ID: 3, Name: "c", Type: thrift.VerifBasic(thrift.STRING), Req: 2}, thrift.Options{})
	frb := thrift.VerifAddField(st, thrift.VField{ID: 4, Name: "rb", Type: thrift.VerifBasic(thrift.STRING), Req: 2}, thrift.Options{})
	thrift.VerifAddField(st, thrift.VField{ID: 5, Name: "plain", Type: thrift.VerifBasic(thrift.I32), Req: 2}, thrift.Options{})
	fm := thrift.VerifAddField(st, thrift.VField{ID: 6, Name: "mixed", Type: thrift.VerifBasic(thrift.STRING), Req: 2}, thrift.Options{})
	thrift.VerifAddHTTP(st, fcode, annotation.VerifHTTP(6, ""))
	thrift.VerifAddHTTP(st, fh, annotation.VerifHTTP(3, "X-H"))
	thrift.VerifAddHTTP(st, fc, annotation.VerifHTTP(4, "ck"))
	thrift.VerifAddHTTP(st, frb, annotation.VerifHTTP(7, ""))
	var hms []thrift.HttpMapping
	for _, k := range list {
		hms = append(hms, annotation.VerifHTTP(k, "m"))
	}
	thrift.VerifAddHTTP(st, fm, hms...)
	thrift.VerifBuild(st)

	opts := conv.Options{EnableHttpMapping: vrt.Bool(), WriteHttpValueFallback: vrt.Bool(), OmitHttpMappingErrors: vrt.Bool()}
	rec := &verifResp{failHdr: vrt.Bool()}
	code := int32(vrt.U32())
	plain := int32(vrt.U32())
	sv := func(tag byte) []byte {
		c := vrt.U8()
		vrt.Assume(c >= 0x20 && c < 0x7f)
		return []byte{tag, c}
	}
	hv, cv, rbv, mv := sv('h'), sv('c'), sv('r'), sv('m')
	if vrt.Bool() {
		mv = mv[:0] // an empty value still travels through the whole target list
	}
	var in []byte
	if pres&1 != 0 {
		in = vrt.PutBE32(vrt.PutField(in, vrt.TI32, 1), int(code))
	}
	if pres&2 != 0 {
		in = vrt.PutString(vrt.PutField(in, vrt.TSTRING, 2), hv)
	}
	if pres&4 != 0 {
		in = vrt.PutString(vrt.PutField(in, vrt.TSTRING, 3), cv)
	}
	if pres&8 != 0 {
		in = vrt.PutString(vrt.PutField(in, vrt.TSTRING, 4), rbv)
	}
	if pres&16 != 0 {
		in = vrt.PutBE32(vrt.PutField(in, vrt.TI32, 5), int(plain))
	}
	if pres&32 != 0 {
		in = vrt.PutString(vrt.PutField(in, vrt.TSTRING, 6), mv)
	}
	in = append(in, 0)

	// ---- decision table ----
	type member struct {
		key  string
		isS  bool
		s    []byte
		i    int64
	}
	var body []member
	wantErr := false
	wantStatus, wantStatusSet := 0, 0
	var whk, wck []string
	var whv, wcv [][]byte
	var wbody []byte
	wbodySet := 0
	// deliver runs the target list of one field; it reports whether some target took the value
	deliver := func(kinds []int, key string, text []byte, num int64, isNum bool) bool {
		for _, k := range kinds {
			ok := false
			switch k {
			case 3:
				if !rec.failHdr {
					whk, whv, ok = append(whk, key), append(whv, text), true
				}
			case 4:
				wck, wcv, ok = append(wck, key), append(wcv, text), true
			case 6:
				wantStatus, wantStatusSet, ok = int(num), wantStatusSet+1, true
			case 7:
				wbody, wbodySet, ok = text, wbodySet+1, true
			case 9:
				ok = true // raw_uri has no response side: accepted, nothing delivered
			}
			if ok {
				return true
			}
			if !opts.OmitHttpMappingErrors {
				wantErr = true
				return false
			}
		}
		return false
	}
	field := func(bit int, kinds []int, hkey string, name string, text []byte, num int64, isNum bool) {
		if pres&bit == 0 || wantErr {
			return
		}
		if opts.EnableHttpMapping && len(kinds) > 0 {
			if deliver(kinds, hkey, text, num, isNum) || wantErr {
				return
			}
			if !opts.WriteHttpValueFallback {
				return
			}
		}
		body = append(body, member{key: name, isS: !isNum, s: text, i: num})
	}
	field(1, []int{6}, "", "code", nil, int64(code), true)
	field(2, []int{3}, "X-H", "h", hv, 0, false)
	field(4, []int{4}, "ck", "c", cv, 0, false)
	field(8, []int{7}, "", "rb", rbv, 0, false)
	field(16, nil, "", "plain", nil, int64(plain), true)
	field(32, list, "m", "mixed", mv, 0, false)

	vrt.GhostReset()
	cv2 := NewBinaryConv(opts)
	out, err := cv2.Do(verifCtx{Context: context.Background(), resp: rec}, st, in)
	if wantErr {
		vrt.Reach("error")
		vrt.Assert(err != nil, "C17.response.mapping-error.reported")
		return
	}
	vrt.Assert(err == nil, "C17.response.converts")
	if err != nil {
		return
	}
	vrt.Reach("converted")
	root, ok := vrt.JParse(out)
	vrt.Assert(ok && root.Kind == vrt.JObject, "C17.response.body.valid-json")
	if !ok || root.Kind != vrt.JObject {
		return
	}
	vrt.Assert(len(root.Keys) == len(body), "C17.response.body.members")
	if len(root.Keys) == len(body) {
		for i, m := range body {
			vrt.Assert(verifStrIs(out, root.Keys[i], []byte(m.key)), "C17.response.body.key")
			if m.isS {
				vrt.Assert(verifStrIs(out, root.Elems[i], m.s), "C17.response.body.string-value")
			} else {
				vrt.Assert(verifIntIs(out, root.Elems[i], m.i), "C17.response.body.int-value")
			}
		}
	}
	vrt.Assert(rec.statusSet == wantStatusSet && (wantStatusSet == 0 || rec.status == wantStatus), "C17.response.status")
	vrt.Assert(len(rec.hk) == len(whk), "C17.response.headers.count")
	if len(rec.hk) == len(whk) {
		for i := range whk {
			vrt.Assert(rec.hk[i] == whk[i] && vrt.BytesEq([]byte(rec.hv[i]), 0, len(rec.hv[i]), whv[i], 0, len(whv[i])), "C17.response.header")
		}
	}
	vrt.Assert(len(rec.ck) == len(wck), "C17.response.cookies.count")
	if len(rec.ck) == len(wck) {
		for i := range wck {
			vrt.Assert(rec.ck[i] == wck[i] && vrt.BytesEq([]byte(rec.cv[i]), 0, len(rec.cv[i]), wcv[i], 0, len(wcv[i])), "C17.response.cookie")
		}
	}
	vrt.Assert(rec.bodySet == wbodySet && (wbodySet == 0 || vrt.BytesEq(rec.body, 0, len(rec.body), wbody, 0, len(wbody))), "C17.response.raw-body")
}

func init() { vrt.Register("VerifC17_ResponseNested", VerifC17_ResponseNested) }

// VerifC17_ResponseNested: struct Outer{1: Sub sub; 2: string tail}, Sub{1: string h (api.header "X-I");
// 2: string m (api.<ML...> = "m"); 3: i32 p}: the mapping of fields one level below the root.
func VerifC17_ResponseNested() {
	list := verifC17RespLists[vrt.Param("ML")]
	pres := vrt.Param("PRES") // bit 0 h, 1 m, 2 p (inside sub), bit 3 tail
	// HREQ: requiredness of the header-mapped nested field (1 required: only with the field present - a present
	// field that was delivered to the header is not "missing")
	hreq := vrt.Param("HREQ")
	if hreq == 1 && pres&1 == 0 {
		vrt.Reach("converted")
		vrt.Reach("error")
		return
	}
	sub := thrift.VerifNewStruct("Sub", 4)
	fh := thrift.VerifAddField(sub, thrift.VField{ID: 1, Name: "h", Type: thrift.VerifBasic(thrift.STRING), Req: hreq}, thrift.Options{})
	fm := thrift.VerifAddField(sub, thrift.VField{ID: 2, Name: "m", Type: thrift.VerifBasic(thrift.STRING), Req: 2}, thrift.Options{})
	thrift.VerifAddField(sub, thrift.VField{ID: 3, Name: "p", Type: thrift.VerifBasic(thrift.I32), Req: 2}, thrift.Options{})
	thrift.VerifAddHTTP(sub, fh, annotation.VerifHTTP(3, "X-I"))
	var hms []thrift.HttpMapping
	for _, k := range list {
		hms = append(hms, annotation.VerifHTTP(k, "m"))
	}
	thrift.VerifAddHTTP(sub, fm, hms...)
	thrift.VerifBuild(sub)
	st := thrift.VerifStruct("Outer", thrift.Options{},
		thrift.VField{ID: 1, Name: "sub", Type: sub, Req: 2},
		thrift.VField{ID: 2, Name: "tail", Type: thrift.VerifBasic(thrift.STRING), Req: 2})

	opts := conv.Options{EnableHttpMapping: vrt.Bool(), WriteHttpValueFallback: vrt.Bool(), OmitHttpMappingErrors: vrt.Bool()}
	rec := &verifResp{failHdr: vrt.Bool()}
	pv := int32(vrt.U32())
	sv := func(tag byte) []byte {
		c := vrt.U8()
		vrt.Assume(c >= 0x20 && c < 0x7f)
		return []byte{tag, c}
	}
	hv, mv, tv := sv('h'), sv('m'), sv('t')
	var in []byte
	in = vrt.PutField(in, vrt.TSTRUCT, 1)
	if pres&1 != 0 {
		in = vrt.PutString(vrt.PutField(in, vrt.TSTRING, 1), hv)
	}
	if pres&2 != 0 {
		in = vrt.PutString(vrt.PutField(in, vrt.TSTRING, 2), mv)
	}
	if pres&4 != 0 {
		in = vrt.PutBE32(vrt.PutField(in, vrt.TI32, 3), int(pv))
	}
	in = append(in, 0)
	if pres&8 != 0 {
		in = vrt.PutString(vrt.PutField(in, vrt.TSTRING, 2), tv)
	}
	in = append(in, 0)

	type member struct {
		key string
		isS bool
		s   []byte
		i   int64
	}
	var body []member
	wantErr := false
	var whk []string
	var whv [][]byte
	var wck []string
	var wcv [][]byte
	var wbody []byte
	wbodySet := 0
	deliver := func(kinds []int, key string, text []byte) bool {
		for _, k := range kinds {
			ok := false
			switch k {
			case 3:
				if !rec.failHdr {
					whk, whv, ok = append(whk, key), append(whv, text), true
				}
			case 4:
				wck, wcv, ok = append(wck, key), append(wcv, text), true
			case 7:
				wbody, wbodySet, ok = text, wbodySet+1, true
			case 9:
				ok = true
			}
			if ok {
				return true
			}
			if !opts.OmitHttpMappingErrors {
				wantErr = true
				return false
			}
		}
		return false
	}
	field := func(bit int, kinds []int, hkey string, name string, text []byte, num int64, isNum bool) {
		if pres&bit == 0 || wantErr {
			return
		}
		if opts.EnableHttpMapping && len(kinds) > 0 {
			if deliver(kinds, hkey, text) || wantErr {
				return
			}
			if !opts.WriteHttpValueFallback {
				return
			}
		}
		body = append(body, member{key: name, isS: !isNum, s: text, i: num})
	}
	field(1, []int{3}, "X-I", "h", hv, 0, false)
	field(2, list, "m", "m", mv, 0, false)
	field(4, nil, "", "p", nil, int64(pv), true)

	vrt.GhostReset()
	cv2 := NewBinaryConv(opts)
	out, err := cv2.Do(verifCtx{Context: context.Background(), resp: rec}, st, in)
	if wantErr {
		vrt.Reach("error")
		vrt.Assert(err != nil, "C17.response.nested.mapping-error.reported")
		return
	}
	vrt.Assert(err == nil, "C17.response.nested.converts")
	if err != nil {
		return
	}
	vrt.Reach("converted")
	root, ok := vrt.JParse(out)
	vrt.Assert(ok && root.Kind == vrt.JObject, "C17.response.nested.body.valid-json")
	if !ok || root.Kind != vrt.JObject {
		return
	}
	wantTop := 1
	if pres&8 != 0 {
		wantTop = 2
	}
	vrt.Assert(len(root.Keys) == wantTop && root.Elems[0].Kind == vrt.JObject, "C17.response.nested.body.shape")
	if len(root.Keys) != wantTop || root.Elems[0].Kind != vrt.JObject {
		return
	}
	if pres&8 != 0 {
		vrt.Assert(verifStrIs(out, root.Elems[1], tv), "C17.response.nested.body.tail")
	}
	subn := root.Elems[0]
	vrt.Assert(len(subn.Keys) == len(body), "C17.response.nested.body.members")
	if len(subn.Keys) == len(body) {
		for i, m := range body {
			vrt.Assert(verifStrIs(out, subn.Keys[i], []byte(m.key)), "C17.response.nested.body.key")
			if m.isS {
				vrt.Assert(verifStrIs(out, subn.Elems[i], m.s), "C17.response.nested.body.string-value")
			} else {
				vrt.Assert(verifIntIs(out, subn.Elems[i], m.i), "C17.response.nested.body.int-value")
			}
		}
	}
	vrt.Assert(len(rec.hk) == len(whk), "C17.response.nested.headers.count")
	if len(rec.hk) == len(whk) {
		for i := range whk {
			vrt.Assert(rec.hk[i] == whk[i] && vrt.BytesEq([]byte(rec.hv[i]), 0, len(rec.hv[i]), whv[i], 0, len(whv[i])), "C17.response.nested.header")
		}
	}
	vrt.Assert(len(rec.ck) == len(wck), "C17.response.nested.cookies.count")
	if len(rec.ck) == len(wck) {
		for i := range wck {
			vrt.Assert(rec.ck[i] == wck[i] && vrt.BytesEq([]byte(rec.cv[i]), 0, len(rec.cv[i]), wcv[i], 0, len(wcv[i])), "C17.response.nested.cookie")
		}
	}
	vrt.Assert(rec.bodySet == wbodySet && (wbodySet == 0 || vrt.BytesEq(rec.body, 0, len(rec.body), wbody, 0, len(wbody))), "C17.response.nested.raw-body")
}
