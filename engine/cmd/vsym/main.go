package main

import (
	"encoding/json"
	"flag"
	"fmt"
	"os"
	"strings"
	"time"

	"verif/engine/sym"
)

func main() {
	if len(os.Args) < 2 {
		fmt.Fprintln(os.Stderr, "usage: vsym run|check|replay ...")
		os.Exit(2)
	}
	switch os.Args[1] {
	case "run":
		runCmd(os.Args[2:])
	case "check":
		os.Exit(checkCmd(os.Args[2:]))
	case "replay":
		os.Exit(replayCmd(os.Args[2:]))
	case "native":
		os.Exit(nativeCmd(os.Args[2:]))
	default:
		fmt.Fprintln(os.Stderr, "unknown command", os.Args[1])
		os.Exit(2)
	}
}

func runCmd(args []string) {
	fs := flag.NewFlagSet("run", flag.ExitOnError)
	repo := fs.String("repo", "/repo", "repository")
	harness := fs.String("harness", "/verif/harness", "harness overlay dir")
	pkg := fs.String("pkg", "", "package pattern (relative to repo)")
	entry := fs.String("entry", "", "entry function")
	params := fs.String("params", "", "k=v,k=v")
	verbose := fs.Int("v", 0, "verbosity")
	solver := fs.String("solver", "z3-new", "z3-new | z3 | cvc5")
	goarch := fs.String("goarch", "", "GOARCH for loading (arm64 = portable configuration)")
	nostubs := fs.String("nostubs", "", "comma-separated intrinsic name substrings to disable")
	fs.Parse(args)
	t0 := time.Now()
	ov, err := sym.BuildOverlay(*harness, *repo)
	if err != nil {
		fatal(err)
	}
	p, err := sym.Load(*repo, ov, *goarch, *pkg)
	if err != nil {
		fatal(err)
	}
	fmt.Printf("loaded in %v: %d packages\n", time.Since(t0), len(p.Prog.AllPackages()))
	e, err := sym.NewEngine(p.Prog, *solver, 10000)
	if err != nil {
		fatal(err)
	}
	defer e.Close()
	e.Verbose = *verbose
	e.InitAllow = sym.DefaultInitAllow
	for _, kv := range strings.Split(*params, ",") {
		if kv == "" {
			continue
		}
		var k string
		var v int64
		parts := strings.SplitN(kv, "=", 2)
		k = parts[0]
		fmt.Sscan(parts[1], &v)
		e.Params[k] = v
	}
	for _, ns := range strings.Split(*nostubs, ",") {
		if ns != "" {
			e.Unregister(ns)
		}
	}
	t1 := time.Now()
	if err := e.Prepare(p.Pkgs); err != nil {
		fatal(err)
	}
	fmt.Printf("init in %v\n", time.Since(t1))
	var fn = p.Pkgs[0].Func(*entry)
	if fn == nil {
		fatal(fmt.Errorf("no function %s", *entry))
	}
	t2 := time.Now()
	counts := map[string]int{}
	e.Run(fn, func(r sym.PathResult) {
		counts[r.Out.Kind.String()]++
		if r.Out.Kind != sym.OutReturn && r.Out.Kind != sym.OutInfeasible {
			fmt.Printf("PATH %s: %s @ %s\n", r.Out.Kind, r.Out.Label, r.Out.Site)
			if *verbose > 0 {
				for _, s := range r.Out.Stack {
					fmt.Println("    ", s)
				}
				fmt.Println("   inputs:", r.State.InputVector(r.Out.Model))
			}
		}
	})
	for _, l := range e.ProfileTop(15) {
		fmt.Println(l)
	}
	s := e.Solver()
	fmt.Printf("paths=%d steps=%d outcomes=%v reached=%v queries=%d (sat %d unsat %d unk %d) solver=%v wall=%v stop=%q\n",
		e.Paths, e.Steps, counts, e.Reached, s.Queries, s.NSat, s.NUnsat, s.NUnk, s.Time, time.Since(t2), e.StopReason())
}

func fatal(err error) {
	fmt.Fprintln(os.Stderr, "vsym:", err)
	os.Exit(2)
}

// replayCmd re-runs a recorded counterexample natively against /repo.
func replayCmd(args []string) int {
	fs := flag.NewFlagSet("replay", flag.ExitOnError)
	repo := fs.String("repo", "/repo", "repository")
	root := fs.String("root", "/verif", "verif root")
	fs.Parse(args)
	if fs.NArg() != 1 {
		fmt.Fprintln(os.Stderr, "usage: vsym replay <file>")
		return 2
	}
	b, err := os.ReadFile(fs.Arg(0))
	if err != nil {
		fatal(err)
	}
	var doc struct {
		Property string     `json:"property"`
		Config   string     `json:"config"`
		Case     ReplayCase `json:"case"`
		Label    string     `json:"label"`
		Kind     string     `json:"kind"`
	}
	if err := json.Unmarshal(b, &doc); err != nil {
		fatal(err)
	}
	rp := &Replayer{Repo: *repo, HarnessDir: *root + "/harness", Portable: doc.Config == "portable", Pkgs: []string{doc.Case.Pkg}}
	defer rp.Cleanup()
	res, err := rp.Run([]ReplayCase{doc.Case})
	if err != nil {
		fatal(err)
	}
	r := res[0]
	fmt.Printf("replay property=%s harness=%s kind=%s label=%s -> native outcome=%s failures=%v reached=%v panic=%q\n", doc.Property, doc.Case.Harness, doc.Kind, doc.Label, r.Outcome, r.Failures, r.Reached, firstLine(r.Panic))
	if r.Outcome == "OK" {
		return 0
	}
	return 1
}

// nativeCmd runs one harness natively on a given input vector and shows what it printed
// (vrt.Dump output): a debugging aid for triaging counterexamples.
func nativeCmd(args []string) int {
	fs := flag.NewFlagSet("native", flag.ExitOnError)
	repo := fs.String("repo", "/repo", "repository")
	root := fs.String("root", "/verif", "verif root")
	pkg := fs.String("pkg", "", "harness package (./proto/generic)")
	entry := fs.String("entry", "", "harness function")
	params := fs.String("params", "", "K=V,...")
	vec := fs.String("vec", "", "input vector: v,v,... (missing values are 0)")
	portable := fs.Bool("portable", false, "portable (non-amd64) configuration")
	fs.Parse(args)
	c := ReplayCase{Harness: *entry, Pkg: *pkg, Params: map[string]int64{}, TimeoutMs: 60000}
	for _, kv := range strings.Split(*params, ",") {
		if kv == "" {
			continue
		}
		var k string
		var v int64
		if i := strings.IndexByte(kv, '='); i > 0 {
			k = kv[:i]
			fmt.Sscan(kv[i+1:], &v)
			c.Params[k] = v
		}
	}
	for _, f := range strings.FieldsFunc(*vec, func(r rune) bool { return r == ',' || r == ' ' || r == '[' || r == ']' }) {
		var v uint64
		fmt.Sscan(f, &v)
		c.Vec = append(c.Vec, v)
	}
	rp := &Replayer{Repo: *repo, HarnessDir: *root + "/harness", Portable: *portable, Pkgs: []string{*pkg}, Echo: true}
	defer rp.Cleanup()
	res, err := rp.Run([]ReplayCase{c})
	if err != nil {
		fatal(err)
	}
	r := res[0]
	fmt.Printf("native outcome=%s failures=%v reached=%v panic=%q\n", r.Outcome, r.Failures, r.Reached, firstLine(r.Panic))
	return 0
}
