package sym

import (
	"fmt"
	"go/types"
	"os"
	"sort"
	"strings"
	"time"

	"golang.org/x/tools/go/ssa"
)

type fnInfo struct {
	idx map[ssa.Value]int
	n   int
}

// Engine executes one harness at a time over a shared, read-only ssa.Program.
type Engine struct {
	ctx       *Ctx
	prog      *ssa.Program
	sizes     types.Sizes
	offCache  map[*types.Struct][]int64
	fnInfos   map[*ssa.Function]*fnInfo
	solver    *Solver
	globals   map[*ssa.Global]int
	nextState int

	ConcCap     int
	IteLoadMax  int64
	StepBudget  int
	PathTimeout time.Duration
	MaxPaths    int
	AllocMax    func(n int64) int64
	Params      map[string]int64
	Verbose     int
	Deadline    time.Time

	intr      map[string]Intrinsic
	intrCache map[*ssa.Function]Intrinsic
	worklist  []*State
	base      *State // post-init snapshot
	baseObjs  []*Object
	prof      map[*ssa.Function]int

	// per-run results
	Paths      int
	Steps      int64
	Outcomes   []Outcome
	Reached    map[string]int
	FuncsHit   map[*ssa.Function]int
	AssertsOK  int
	ObligTotal int
	initDone   map[*ssa.Package]bool
	InitAllow  func(pkgPath string) int // 0 = skip+poison globals, 1 = run init, 2 = skip, globals stay zero
	Samples    []PathSample
	stopReason string
	abort      string
	aborted    string
	replayVec  []uint64 // concrete-mode nondet vector (nil = symbolic)
	replayPos  int
	Concrete   bool
	TraceLog   []string
}

// PathSample is a witness for one completed path (evidence).
type PathSample struct {
	Outcome string            `json:"outcome"`
	Reached []string          `json:"reached"`
	Inputs  map[string]string `json:"inputs"`
}

func NewEngine(prog *ssa.Program, solverKind string, timeoutMs int) (*Engine, error) {
	e := &Engine{
		ctx:        NewCtx(),
		prog:       prog,
		sizes:      types.SizesFor("gc", "amd64"),
		offCache:   map[*types.Struct][]int64{},
		fnInfos:    map[*ssa.Function]*fnInfo{},
		globals:    map[*ssa.Global]int{},
		ConcCap:    300,
		IteLoadMax: 4096,
		StepBudget: 400000,
		MaxPaths:   2000000,
		Params:     map[string]int64{},
		Reached:    map[string]int{},
		FuncsHit:   map[*ssa.Function]int{},
		initDone:   map[*ssa.Package]bool{},
	}
	s, err := NewSolver(e.ctx, solverKind, timeoutMs)
	if err != nil {
		return nil, err
	}
	e.solver = s
	e.intr = map[string]Intrinsic{}
	registerIntrinsics(e)
	return e, nil
}

func (e *Engine) Close()          { e.solver.Close() }
func (e *Engine) Solver() *Solver { return e.solver }
func (e *Engine) Ctx() *Ctx       { return e.ctx }

func (e *Engine) info(fn *ssa.Function) *fnInfo {
	if fi, ok := e.fnInfos[fn]; ok {
		return fi
	}
	fi := &fnInfo{idx: map[ssa.Value]int{}}
	for _, p := range fn.Params {
		fi.idx[p] = fi.n
		fi.n++
	}
	for _, p := range fn.FreeVars {
		fi.idx[p] = fi.n
		fi.n++
	}
	for _, b := range fn.Blocks {
		for _, in := range b.Instrs {
			if v, ok := in.(ssa.Value); ok {
				fi.idx[v] = fi.n
				fi.n++
			}
		}
	}
	e.fnInfos[fn] = fi
	return fi
}

// newBaseState allocates globals.
func (e *Engine) newBaseState() *State {
	e.nextState++
	st := &State{e: e, id: e.nextState, subst: map[*T]*T{}, memo: map[*T]*T{}, model: NewModel(), reached: map[string]bool{}}
	st.objs = append(st.objs, nil) // id 0 = nil
	return st
}

func (e *Engine) globalObj(st *State, g *ssa.Global) int {
	if id, ok := e.globals[g]; ok {
		return id
	}
	// lazily allocated in the base state only (before any fork) or during a run
	// for globals first touched later; ids are stable because base allocation
	// happens during Prepare.
	et := g.Type().(*types.Pointer).Elem()
	id := st.allocN(e.sizeof(et), et, "global "+g.String())
	e.globals[g] = id
	return id
}

// Prepare allocates all globals of the given packages (and their deps) and runs
// the allow-listed package initialisers concretely.
func (e *Engine) Prepare(pkgs []*ssa.Package) error {
	st := e.newBaseState()
	all := e.prog.AllPackages()
	sort.Slice(all, func(i, j int) bool { return all[i].Pkg.Path() < all[j].Pkg.Path() })
	for _, p := range all {
		allowed := e.InitAllow == nil || e.InitAllow(p.Pkg.Path()) != 0
		names := make([]string, 0, len(p.Members))
		for n := range p.Members {
			names = append(names, n)
		}
		sort.Strings(names)
		for _, n := range names {
			if g, ok := p.Members[n].(*ssa.Global); ok {
				id := e.globalObj(st, g)
				if !allowed && n != "init$guard" {
					st.newObj(id).Poison = "package " + p.Pkg.Path() + " not initialised by vsym"
				}
			}
		}
	}
	// run init of requested packages (dependencies are reached through init calls)
	for _, p := range pkgs {
		initFn := p.Func("init")
		if initFn == nil {
			continue
		}
		out := e.runConcrete(st, initFn, nil)
		if out.Kind != OutReturn {
			return fmt.Errorf("init of %s: %s %s at %s\n%s", p.Pkg.Path(), out.Kind, out.Label, out.Site, strings.Join(out.Stack, "\n"))
		}
	}
	// globals of packages whose init is not run but whose value the code under test needs
	if ap := e.prog.ImportedPackage("github.com/bytedance/sonic/ast"); ap != nil {
		if g, ok := ap.Members["VisitOPSkip"].(*ssa.Global); ok {
			// var VisitOPSkip = errors.New("")
			if ep := e.prog.ImportedPackage("errors"); ep != nil {
				var got Value
				st.frames = nil
				st.pushFrameClosure(Func{Fn: ep.Func("New")}, []Value{st.strConst("")}, func(s *State, v Value) { got = v })
				saved := e.StepBudget
				e.StepBudget = 1 << 40
				out := e.runPath(st, true)
				e.StepBudget = saved
				if got == nil {
					return fmt.Errorf("initialising ast.VisitOPSkip: %s %s", out.Kind, out.Label)
				}
				id := e.globalObj(st, g)
				st.wobj(id).Poison = ""
				st.store(Ptr{id, e.k64(0)}, g.Type().(*types.Pointer).Elem(), got)
			}
		}
	}
	// freeze: everything allocated so far becomes the shared base
	e.baseObjs = st.objs
	for _, o := range e.baseObjs {
		if o != nil {
			o.owner = -1
		}
	}
	st.nbase = len(st.objs)
	st.objs = nil
	e.base = st
	return nil
}

// runConcrete runs fn on st to completion; any fork is an error.
func (e *Engine) runConcrete(st *State, fn *ssa.Function, args []Value) Outcome {
	st.frames = nil
	st.pushFrame(fn, args, nil)
	saved := e.StepBudget
	e.StepBudget = 1 << 40
	defer func() { e.StepBudget = saved }()
	out := e.runPath(st, true)
	return out
}

// PathResult is delivered to the harness driver for each finished path.
type PathResult struct {
	Out   Outcome
	State *State
}

// Run explores all paths of entry fn from a clone of the base state.
func (e *Engine) Run(fn *ssa.Function, onPath func(PathResult)) {
	st := e.base.clone()
	st.frames = nil
	st.steps = 0
	st.pushFrame(fn, nil, nil)
	e.worklist = []*State{st}
	for len(e.worklist) > 0 {
		if e.Paths >= e.MaxPaths {
			e.stopReason = "max paths"
			break
		}
		if e.abort != "" {
			e.aborted = e.abort
			break
		}
		if !e.Deadline.IsZero() && time.Now().After(e.Deadline) {
			e.stopReason = "deadline"
			break
		}
		s := e.worklist[len(e.worklist)-1]
		e.worklist = e.worklist[:len(e.worklist)-1]
		out := e.runPath(s, false)
		e.Paths++
		e.Steps += int64(s.steps)
		for l := range s.reached {
			e.Reached[l]++
		}
		if out.Model == nil {
			out.Model = s.model
		}
		onPath(PathResult{out, s})
	}
}

func (e *Engine) StopReason() string { return e.stopReason }
func (e *Engine) Pending() int       { return len(e.worklist) }

// runPath executes st until its path ends; forks are pushed on the worklist.
func (e *Engine) runPath(st *State, concrete bool) (out Outcome) {
	for {
		done, o := e.runSteps(st, concrete)
		if done {
			return o
		}
	}
}

// runSteps executes instructions until the path ends (done=true) or a fork was handled.
func (e *Engine) runSteps(st *State, concrete bool) (done bool, out Outcome) {
	defer func() {
		if r := recover(); r != nil {
			switch x := r.(type) {
			case endPath:
				done, out = true, x.out
			case unwindSignal:
				// a Go panic was raised outside exec (e.g. while starting a deferred call)
			case forkReq:
				if concrete {
					done, out = true, Outcome{Kind: OutUnsupported, Label: "symbolic branch in concrete run: " + x.cond.String(), Site: st.site(), Stack: st.stack()}
					return
				}
				if o := e.handleFork(st, x.cond); o != nil {
					done, out = true, *o
				}
			case concReq:
				if concrete {
					done, out = true, Outcome{Kind: OutUnsupported, Label: "concretisation in concrete run", Site: st.site(), Stack: st.stack()}
					return
				}
				if o := e.handleConc(st, x); o != nil {
					done, out = true, *o
				}
			default:
				if e.Verbose > 0 {
					fmt.Fprintf(os.Stderr, "engine panic at %s: %v\n", st.site(), r)
				}
				done, out = true, Outcome{Kind: OutUnsupported, Label: fmt.Sprintf("engine panic: %v", r), Site: st.site(), Stack: st.stack()}
				if os.Getenv("VSYM_PANIC") != "" {
					panic(r)
				}
			}
		}
	}()
	if st.done != nil {
		return true, *st.done
	}
	for {
		if len(st.frames) == 0 {
			return true, Outcome{Kind: OutReturn}
		}
		f := st.top()
		if f.unwinding {
			if o := st.unwindStep(f); o != nil {
				return true, *o
			}
			continue
		}
		if st.steps >= e.StepBudget {
			if traceRing != nil {
				fmt.Println("TRACE (last instructions before the step budget ran out):")
				for i := 0; i < len(traceRing); i++ {
					if l := traceRing[(traceIdx+i)%len(traceRing)]; l != "" {
						fmt.Println("   ", l)
					}
				}
			}
			return true, Outcome{Kind: OutUnwind, Label: fmt.Sprintf("step budget %d exhausted", e.StepBudget), Site: st.site(), Stack: st.stack()}
		}
		if e.PathTimeout > 0 && st.steps&15 == 0 {
			if st.started.IsZero() {
				st.started = time.Now()
			} else if time.Since(st.started) > e.PathTimeout {
				return true, Outcome{Kind: OutUnwind, Label: fmt.Sprintf("path wall-clock budget %v exhausted after %d steps", e.PathTimeout, st.steps), Site: st.site(), Stack: st.stack()}
			}
		}
		st.steps++
		if e.Verbose > 1 {
			if e.prof == nil {
				e.prof = map[*ssa.Function]int{}
			}
			e.prof[f.fn]++
		}
		in := f.block.Instrs[f.pc]
		if traceRing != nil {
			traceRing[traceIdx%len(traceRing)] = fmt.Sprintf("%s b%d.%d %v", f.fn.Name(), f.block.Index, f.pc, in)
			traceIdx++
		}
		st.exec(f, in)
	}
}

// handleFork splits st on cond. st keeps the side its model satisfies.
func (e *Engine) handleFork(st *State, cond *T) *Outcome {
	c := e.ctx
	side := c.Eval(cond, st.model) != 0
	var mine, other *T
	if side {
		mine, other = cond, c.BNot(cond)
	} else {
		mine, other = c.BNot(cond), cond
	}
	res, m := e.query(st, other)
	switch res {
	case Sat:
		n := st.clone()
		n.model = m
		n.addPC(other)
		n.subst[cond] = c.Bool(!side)
		e.worklist = append(e.worklist, n)
		st.addPC(mine)
		st.subst[cond] = c.Bool(side)
		st.memo = map[*T]*T{}
	case Unsat:
		// implied: remember without growing the PC.  The decision is recorded for the condition itself as
		// well: the negation may have been canonicalised into another comparison (not(a<b) -> b<=a), in which
		// case learning it alone does not settle cond and the instruction would be re-executed forever
		st.learn(mine, c.True)
		st.subst[cond] = c.Bool(side)
		st.memo = map[*T]*T{}
	default:
		o := Outcome{Kind: OutUnsupported, Label: "solver unknown on branch", Site: st.site(), Stack: st.stack()}
		return &o
	}
	return nil
}

// handleConc enumerates the feasible values of r.t.
// findSmallURem returns a sub-term of t of the form x %u N (N constant, <= 1024) through which t is
// determined, or nil.
func findSmallURem(t *T, depth int) *T {
	if t == nil || depth > 8 {
		return nil
	}
	if t.Op == OURem && t.B.IsConst() && t.B.K > 0 && t.B.K <= 1024 && !t.A.IsConst() {
		return t
	}
	switch t.Op {
	case OZExt, OSExt, OExtract, ONot, ONeg:
		return findSmallURem(t.A, depth+1)
	case OMul, OAdd, OSub, OShl, OLShr, OXor, OConcat, OAnd:
		if t.B != nil && t.B.IsConst() {
			return findSmallURem(t.A, depth+1)
		}
		if t.A.IsConst() {
			return findSmallURem(t.B, depth+1)
		}
	}
	return nil
}

func (e *Engine) handleConc(st *State, r concReq) *Outcome {
	c := e.ctx
	t := r.t
	if u := findSmallURem(t, 0); u != nil {
		// enumerate the residue with point queries (cheap) instead of a growing exclusion query
		cur := c.Eval(u, st.model)
		for i := uint64(0); i < u.B.K; i++ {
			if i == cur {
				continue
			}
			eq := c.Eq(u, c.Const(i, u.W))
			res, m := e.query(st, eq)
			if res == Unknown {
				o := Outcome{Kind: OutUnsupported, Label: "solver unknown on residue enumeration", Site: st.site(), Stack: st.stack()}
				return &o
			}
			if res == Sat {
				n := st.clone()
				n.model = m
				n.addPC(eq)
				n.subst[u] = c.Const(i, u.W)
				e.worklist = append(e.worklist, n)
			}
		}
		st.addPC(c.Eq(u, c.Const(cur, u.W)))
		st.subst[u] = c.Const(cur, u.W)
		st.memo = map[*T]*T{}
		return nil
	}
	v0 := c.Eval(t, st.model)
	seen := []uint64{v0}
	excl := c.Ne(t, c.Const(v0, t.W))
	card := cardBound(t, 0)
	for {
		if uint64(len(seen)) >= card {
			break // every value the term can structurally take has been enumerated
		}
		res, m := e.query(st, excl)
		if res == Unsat {
			break
		}
		if res != Sat {
			o := Outcome{Kind: OutUnsupported, Label: "solver unknown on concretisation", Site: st.site(), Stack: st.stack()}
			return &o
		}
		v := c.Eval(t, m)
		if len(seen) >= r.cap {
			// too many values: continue only with the ones found and flag the rest
			n := st.clone()
			n.model = m
			n.addPC(excl)
			if e.Verbose > 0 {
				fmt.Fprintf(os.Stderr, "conc cap exceeded for term %s\n", trunc(t.String(), 600))
			}
			n.done = &Outcome{Kind: OutUnsupported, Label: fmt.Sprintf("concretisation cap %d exceeded (%s)", r.cap, r.why), Site: st.site(), Stack: st.stack(), Model: m}
			e.worklist = append(e.worklist, n)
			break
		}
		seen = append(seen, v)
		n := st.clone()
		n.model = m
		n.addPC(c.Eq(t, c.Const(v, t.W)))
		n.subst[t] = c.Const(v, t.W) // the PC implies it even when the equality was decomposed
		e.worklist = append(e.worklist, n)
		excl = c.BAnd(excl, c.Ne(t, c.Const(v, t.W)))
	}
	st.addPC(c.Eq(t, c.Const(v0, t.W)))
	st.subst[t] = c.Const(v0, t.W)
	st.memo = map[*T]*T{}
	return nil
}

// query checks sat(PC ∧ extra) using constraint independence slicing.
func (e *Engine) query(st *State, extra *T) (Result, *Model) {
	c := e.ctx
	extra = st.simp(extra)
	if extra.IsFalse() {
		return Unsat, nil
	}
	// independence: keep only PC conjuncts transitively sharing variables with extra
	need := map[*T]bool{}
	for _, v := range c.Vars(extra) {
		need[v] = true
	}
	used := make([]bool, len(st.pc))
	conj := []*T{extra}
	for changed := true; changed; {
		changed = false
		for i, p := range st.pc {
			if used[i] {
				continue
			}
			vs := c.Vars(p)
			hit := false
			for _, v := range vs {
				if need[v] {
					hit = true
					break
				}
			}
			if hit {
				used[i] = true
				conj = append(conj, p)
				for _, v := range vs {
					if !need[v] {
						need[v] = true
						changed = true
					}
				}
			}
		}
	}
	want := make([]*T, 0, len(need))
	for v := range need {
		if strings.HasPrefix(v.Name, "uf$") {
			continue
		}
		want = append(want, v)
	}
	sort.Slice(want, func(i, j int) bool { return want[i].ID < want[j].ID })
	res, m := e.solver.Check(conj, want)
	if res == Sat {
		// merge with the existing model for variables outside the slice
		full := st.model.Clone()
		for k, v := range m.V {
			full.V[k] = v
		}
		for k, v := range m.UF {
			full.UF[k] = v
		}
		return Sat, full
	}
	return res, nil
}

// feasible asks whether PC ∧ cond is satisfiable without forking.
func (st *State) feasible(cond *T) (bool, *Model) {
	cond = st.simp(cond)
	if cond.IsConst() {
		if cond.IsTrue() {
			return true, st.model
		}
		return false, nil
	}
	if st.e.ctx.Eval(cond, st.model) != 0 {
		return true, st.model
	}
	res, m := st.e.query(st, cond)
	if res == Unknown {
		st.unsupported("solver unknown")
	}
	return res == Sat, m
}

// assume restricts the path to cond; ends it if infeasible.
func (st *State) assume(cond *T) {
	cond = st.simp(cond)
	if cond.IsTrue() {
		return
	}
	if cond.IsFalse() {
		st.end(OutInfeasible, "assume(false)")
	}
	if st.e.ctx.Eval(cond, st.model) != 0 {
		st.addPC(cond)
		return
	}
	res, m := st.e.query(st, cond)
	switch res {
	case Sat:
		st.model = m
		st.addPC(cond)
	case Unsat:
		st.end(OutInfeasible, "assumption infeasible")
	default:
		st.unsupported("solver unknown on assume")
	}
}

// DefaultInitAllow decides which package initialisers the engine executes.
func DefaultInitAllow(path string) int {
	if strings.HasPrefix(path, "github.com/cloudwego/dynamicgo") {
		switch {
		case strings.HasSuffix(path, "/internal/native/types"):
			return 1
		case strings.Contains(path, "/internal/native"):
			return 0
		case strings.HasSuffix(path, "/internal/warning"):
			return 2 // prints a notice to stderr at start-up
		}
		return 1
	}
	switch path {
	case "errors", "context", "sync", "sync/atomic", "google.golang.org/protobuf/internal/errors", "google.golang.org/protobuf/internal/detrand", "internal/cpu", "internal/goarch", "internal/goos", "internal/godebug", "runtime/internal/sys", "internal/race":
		return 2
	}
	switch path {
	case "strconv", "unicode/utf8", "unicode/utf16", "math", "math/bits", "encoding/binary", "bytes", "strings", "sort",
		"encoding/base64", "io", "unsafe", "internal/bytealg", "internal/itoa", "unicode",
		"google.golang.org/protobuf/encoding/protowire", "internal/byteorder":
		return 1
	}
	return 0
}

// InputVector evaluates the recorded nondeterministic inputs under m.
func (st *State) InputVector(m *Model) []uint64 {
	if m == nil {
		m = st.model
	}
	var out []uint64
	for _, r := range st.nondet {
		for _, v := range r.Vars {
			out = append(out, st.e.ctx.Eval(v, m))
		}
	}
	return out
}

// NumReached returns how many reach labels the path hit.
func (st *State) NumReached() int { return len(st.reached) }

// ReachedLabels lists the reach labels of the path, sorted.
func (st *State) ReachedLabels() []string {
	out := make([]string, 0, len(st.reached))
	for k := range st.reached {
		out = append(out, k)
	}
	sort.Strings(out)
	return out
}

// ProfileTop returns the functions with most executed instructions (Verbose > 1).
func (e *Engine) ProfileTop(n int) []string {
	type kv struct {
		f *ssa.Function
		n int
	}
	var l []kv
	for f, c := range e.prof {
		l = append(l, kv{f, c})
	}
	sort.Slice(l, func(i, j int) bool { return l[i].n > l[j].n })
	var out []string
	for i := 0; i < len(l) && i < n; i++ {
		out = append(out, fmt.Sprintf("%8d %s", l[i].n, l[i].f.String()))
	}
	return out
}

// cardBound is a structural upper bound on the number of distinct values of t.
func cardBound(t *T, depth int) uint64 {
	full := uint64(1) << 63
	if t.W < 63 {
		full = uint64(1) << t.W
	}
	if depth > 8 {
		return full
	}
	r := full
	switch t.Op {
	case OConst:
		return 1
	case OURem:
		if t.B.IsConst() && t.B.K > 0 {
			r = t.B.K
		}
	case OZExt, OSExt, ONot, ONeg:
		r = cardBound(t.A, depth+1)
	case OMul, OAdd, OSub, OXor, OShl, OLShr:
		if t.B.IsConst() {
			r = cardBound(t.A, depth+1)
		} else if t.A.IsConst() {
			r = cardBound(t.B, depth+1)
		}
	case OAnd:
		if t.B.IsConst() {
			r = uint64(1) << uint(bitsOn(t.B.K))
		}
	case OConcat:
		a, b := cardBound(t.A, depth+1), cardBound(t.B, depth+1)
		if a < 1<<20 && b < 1<<20 {
			r = a * b
		}
	case OExtract:
		r = cardBound(t.A, depth+1)
	case OIte:
		a, b := cardBound(t.B, depth+1), cardBound(t.C, depth+1)
		if a < 1<<30 && b < 1<<30 {
			r = a + b
		}
	}
	if r > full {
		r = full
	}
	return r
}

func bitsOn(v uint64) int {
	n := 0
	for ; v != 0; v &= v - 1 {
		n++
	}
	return n
}

// Abort stops the exploration after the current path (used once a non-termination finding makes
// further exploration of the same harness pointless).
func (e *Engine) Abort(why string) { e.abort = why }

// Aborted reports why the exploration was cut short by Abort ("" if it was not).
func (e *Engine) Aborted() string { return e.aborted }

// debugging aid: VSYM_TRACE=n keeps the last n executed instructions and prints them when a path runs
// out of its step budget
var traceRing []string
var traceIdx int

func init() {
	if v := os.Getenv("VSYM_TRACE"); v != "" {
		n := 60
		fmt.Sscan(v, &n)
		traceRing = make([]string, n)
	}
}
