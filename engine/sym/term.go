// Package sym is vsym: a path-forking symbolic interpreter for go/ssa that
// turns the real code of /repo into SMT-LIB2 queries.
package sym

import (
	"fmt"
	"math"
	"math/bits"
	"sort"
	"strings"
)

// Op is a term operator.
type Op uint8

const (
	OConst Op = iota // W>0: bit-vector constant K; W==0: bool constant K!=0
	OVar             // named variable (bv W, or bool if W==0)
	OAdd
	OSub
	OMul
	OUDiv
	OURem
	OSDiv
	OSRem
	OAnd
	OOr
	OXor
	OShl
	OLShr
	OAShr
	ONot
	ONeg
	OConcat  // A=hi, B=lo
	OExtract // A, K=lo, W=width
	OZExt
	OSExt
	OIte // A=cond, B, C
	OEq  // bool
	OUlt
	OUle
	OSlt
	OSle
	OBAnd
	OBOr
	OBNot
	OUF // uninterpreted function Name(Args...) -> bv W
	// floating point on IEEE bit patterns (W = 32 or 64)
	OFAdd
	OFSub
	OFMul
	OFDiv
	OFNeg
	OFLt  // bool
	OFLe  // bool
	OFEq  // bool (IEEE ==)
	OFCvt // float->float, A.W -> W
	OF2S  // float (A.W) -> signed int W (Go semantics on amd64 for in-range; RTZ)
	OF2U  // float -> unsigned int W
	OS2F  // signed int (A.W) -> float W, K = source width
	OU2F  // unsigned int -> float W
	OFIsNaN
)

var opNames = map[Op]string{OAdd: "bvadd", OSub: "bvsub", OMul: "bvmul", OUDiv: "bvudiv", OURem: "bvurem", OSDiv: "bvsdiv", OSRem: "bvsrem",
	OAnd: "bvand", OOr: "bvor", OXor: "bvxor", OShl: "bvshl", OLShr: "bvlshr", OAShr: "bvashr", ONot: "bvnot", ONeg: "bvneg", OConcat: "concat",
	OEq: "=", OUlt: "bvult", OUle: "bvule", OSlt: "bvslt", OSle: "bvsle", OBAnd: "and", OBOr: "or", OBNot: "not", OIte: "ite"}

// T is a hash-consed term.
type T struct {
	Op      Op
	W       uint8 // result width in bits; 0 = Bool
	A, B, C *T
	K       uint64
	Name    string
	Args    []*T
	ID      uint32
	vars    []*T // sorted by ID, computed lazily
	varsOK  bool
	defined bool // printed as define-fun in solver generation gen
	gen     uint32
	ufState uint8
}

type tkey struct {
	op      Op
	w       uint8
	a, b, c uint32
	k       uint64
	name    string
}

// Ctx owns the hash-cons table. Not safe for concurrent use.
type Ctx struct {
	tab      map[tkey]*T
	next     uint32
	True     *T
	False    *T
	small    [4][256]*T
	nvars    int
	AllVar   []*T
	ufPseudo map[string]*T
}

func NewCtx() *Ctx {
	c := &Ctx{tab: make(map[tkey]*T, 1<<16)}
	c.True = c.mk(tkey{op: OConst, w: 0, k: 1}, nil, nil, nil, nil)
	c.False = c.mk(tkey{op: OConst, w: 0, k: 0}, nil, nil, nil, nil)
	return c
}

func id(t *T) uint32 {
	if t == nil {
		return 0
	}
	return t.ID
}

func (c *Ctx) mk(k tkey, a, b, cc *T, args []*T) *T {
	if len(args) > 0 {
		var sb strings.Builder
		sb.WriteString(k.name)
		for _, x := range args {
			fmt.Fprintf(&sb, ",%d", x.ID)
		}
		k.name = sb.String()
	}
	if t, ok := c.tab[k]; ok {
		return t
	}
	c.next++
	t := &T{Op: k.op, W: k.w, A: a, B: b, C: cc, K: k.k, ID: c.next, Args: args}
	if len(args) > 0 {
		t.Name = k.name[:strings.IndexByte(k.name, ',')]
	} else {
		t.Name = k.name
	}
	c.tab[k] = t
	return t
}

func mask(w uint8) uint64 {
	if w >= 64 {
		return ^uint64(0)
	}
	return (uint64(1) << w) - 1
}

func sx(v uint64, w uint8) int64 {
	if w >= 64 {
		return int64(v)
	}
	s := 64 - w
	return int64(v<<s) >> s
}

// Const makes a bit-vector constant.
func (c *Ctx) Const(v uint64, w uint8) *T {
	if w == 0 {
		panic("Const width 0")
	}
	v &= mask(w)
	if v < 256 {
		var i int
		switch w {
		case 8:
			i = 0
		case 16:
			i = 1
		case 32:
			i = 2
		case 64:
			i = 3
		default:
			return c.mk(tkey{op: OConst, w: w, k: v}, nil, nil, nil, nil)
		}
		if t := c.small[i][v]; t != nil {
			return t
		}
		t := c.mk(tkey{op: OConst, w: w, k: v}, nil, nil, nil, nil)
		c.small[i][v] = t
		return t
	}
	return c.mk(tkey{op: OConst, w: w, k: v}, nil, nil, nil, nil)
}

func (c *Ctx) Bool(b bool) *T {
	if b {
		return c.True
	}
	return c.False
}

// Var makes a fresh variable with a unique name derived from name.
func (c *Ctx) Var(name string, w uint8) *T {
	c.nvars++
	n := fmt.Sprintf("%s!%d", sanitize(name), c.nvars)
	t := c.mk(tkey{op: OVar, w: w, name: n}, nil, nil, nil, nil)
	c.AllVar = append(c.AllVar, t)
	return t
}

func sanitize(s string) string {
	var sb strings.Builder
	for _, r := range s {
		if r >= 'a' && r <= 'z' || r >= 'A' && r <= 'Z' || r >= '0' && r <= '9' || r == '_' || r == '.' {
			sb.WriteRune(r)
		} else {
			sb.WriteByte('_')
		}
	}
	return sb.String()
}

func (t *T) IsConst() bool { return t.Op == OConst }
func (t *T) IsTrue() bool  { return t.Op == OConst && t.W == 0 && t.K != 0 }
func (t *T) IsFalse() bool { return t.Op == OConst && t.W == 0 && t.K == 0 }

// ---- constructors with simplification ----

func (c *Ctx) bin(op Op, a, b *T) *T {
	if a.W != b.W {
		panic(fmt.Sprintf("width mismatch %v: %d vs %d", opNames[op], a.W, b.W))
	}
	return c.mk(tkey{op: op, w: a.W, a: a.ID, b: b.ID}, a, b, nil, nil)
}

func foldBin(op Op, x, y uint64, w uint8) (uint64, bool) {
	m := mask(w)
	switch op {
	case OAdd:
		return (x + y) & m, true
	case OSub:
		return (x - y) & m, true
	case OMul:
		return (x * y) & m, true
	case OUDiv:
		if y == 0 {
			return m, true
		}
		return x / y, true
	case OURem:
		if y == 0 {
			return x, true
		}
		return x % y, true
	case OSDiv:
		sxx, sy := sx(x, w), sx(y, w)
		if sy == 0 {
			if sxx < 0 {
				return 1, true
			}
			return m, true
		}
		if sy == -1 {
			return uint64(-sxx) & m, true
		}
		return uint64(sxx/sy) & m, true
	case OSRem:
		sxx, sy := sx(x, w), sx(y, w)
		if sy == 0 {
			return x, true
		}
		if sy == -1 {
			return 0, true
		}
		return uint64(sxx%sy) & m, true
	case OAnd:
		return x & y, true
	case OOr:
		return x | y, true
	case OXor:
		return x ^ y, true
	case OShl:
		if y >= uint64(w) {
			return 0, true
		}
		return (x << y) & m, true
	case OLShr:
		if y >= uint64(w) {
			return 0, true
		}
		return x >> y, true
	case OAShr:
		if y >= uint64(w) {
			if sx(x, w) < 0 {
				return m, true
			}
			return 0, true
		}
		return uint64(sx(x, w)>>y) & m, true
	}
	return 0, false
}

func (c *Ctx) Add(a, b *T) *T {
	if a.IsConst() && !b.IsConst() {
		a, b = b, a
	}
	if b.IsConst() {
		if a.IsConst() {
			return c.Const(a.K+b.K, a.W)
		}
		if b.K == 0 {
			return a
		}
		if a.Op == OAdd && a.B.IsConst() {
			return c.Add(a.A, c.Const(a.B.K+b.K, a.W))
		}
	}
	return c.bin(OAdd, a, b)
}

func (c *Ctx) Sub(a, b *T) *T {
	if b.IsConst() {
		return c.Add(a, c.Const(-b.K, a.W))
	}
	if a == b {
		return c.Const(0, a.W)
	}
	// (x + k) - x = k ; (x+k1) - (x+k2)
	if a.Op == OAdd && a.B.IsConst() && a.A == b {
		return a.B
	}
	if a.Op == OAdd && b.Op == OAdd && a.B.IsConst() && b.B.IsConst() && a.A == b.A {
		return c.Const(a.B.K-b.B.K, a.W)
	}
	if b.Op == OAdd && b.B.IsConst() && b.A == a {
		return c.Const(-b.B.K, a.W)
	}
	return c.bin(OSub, a, b)
}

func (c *Ctx) Mul(a, b *T) *T {
	if a.IsConst() && !b.IsConst() {
		a, b = b, a
	}
	if b.IsConst() {
		if a.IsConst() {
			return c.Const(a.K*b.K, a.W)
		}
		if b.K == 0 {
			return b
		}
		if b.K == 1 {
			return a
		}
		if b.K&(b.K-1) == 0 {
			return c.Shl(a, c.Const(uint64(bits.TrailingZeros64(b.K)), a.W))
		}
	}
	return c.bin(OMul, a, b)
}

func (c *Ctx) arith(op Op, a, b *T) *T {
	if a.IsConst() && b.IsConst() {
		v, _ := foldBin(op, a.K, b.K, a.W)
		return c.Const(v, a.W)
	}
	return c.bin(op, a, b)
}

func (c *Ctx) UDiv(a, b *T) *T {
	if b.IsConst() && b.K == 1 {
		return a
	}
	if b.IsConst() && b.K != 0 && b.K&(b.K-1) == 0 {
		return c.LShr(a, c.Const(uint64(bits.TrailingZeros64(b.K)), a.W))
	}
	return c.arith(OUDiv, a, b)
}
func (c *Ctx) URem(a, b *T) *T {
	if b.IsConst() && b.K != 0 && b.K&(b.K-1) == 0 {
		return c.And(a, c.Const(b.K-1, a.W))
	}
	return c.arith(OURem, a, b)
}
func (c *Ctx) SDiv(a, b *T) *T {
	if b.IsConst() && b.K == 1 {
		return a
	}
	return c.arith(OSDiv, a, b)
}
func (c *Ctx) SRem(a, b *T) *T { return c.arith(OSRem, a, b) }

func (c *Ctx) And(a, b *T) *T {
	if a.IsConst() && !b.IsConst() {
		a, b = b, a
	}
	if b.IsConst() {
		if a.IsConst() {
			return c.Const(a.K&b.K, a.W)
		}
		if b.K == 0 {
			return b
		}
		if b.K == mask(a.W) {
			return a
		}
		// and with low mask -> zext(extract)
		if b.K&(b.K+1) == 0 {
			n := uint8(bits.Len64(b.K))
			return c.ZExt(c.Extract(a, 0, n), a.W)
		}
		if a.Op == OAnd && a.B.IsConst() {
			return c.And(a.A, c.Const(a.B.K&b.K, a.W))
		}
		// and(zext(x), k): if k covers all of x's bits it is identity
		if a.Op == OZExt && b.K&mask(a.A.W) == mask(a.A.W) {
			return a
		}
		if a.Op == OZExt {
			return c.ZExt(c.And(a.A, c.Const(b.K, a.A.W)), a.W)
		}
	}
	if a == b {
		return a
	}
	return c.bin(OAnd, a, b)
}

func (c *Ctx) Or(a, b *T) *T {
	if a.IsConst() && !b.IsConst() {
		a, b = b, a
	}
	if b.IsConst() {
		if a.IsConst() {
			return c.Const(a.K|b.K, a.W)
		}
		if b.K == 0 {
			return a
		}
		if b.K == mask(a.W) {
			return b
		}
	}
	if a == b {
		return a
	}
	// or(shl(zext(x),k), zext(y)) patterns -> concat when non-overlapping
	if r := c.orAsConcat(a, b); r != nil {
		return r
	}
	if r := c.orAsConcat(b, a); r != nil {
		return r
	}
	return c.bin(OOr, a, b)
}

// bitsKnownZeroAbove returns n such that all bits >= n of t are zero (n<=W).
func knownWidth(t *T) uint8 {
	switch t.Op {
	case OConst:
		return uint8(bits.Len64(t.K))
	case OZExt:
		return knownWidth(t.A)
	case OConcat:
		if t.A.IsConst() && t.A.K == 0 {
			return knownWidth(t.B)
		}
		if kw := knownWidth(t.A); kw < t.A.W {
			return t.B.W + kw
		}
	case OShl:
		if t.B.IsConst() {
			n := uint64(knownWidth(t.A)) + t.B.K
			if n < uint64(t.W) {
				return uint8(n)
			}
		}
	case OLShr:
		if t.B.IsConst() && t.B.K < uint64(t.W) {
			kw := knownWidth(t.A)
			if uint64(kw) > t.B.K {
				return kw - uint8(t.B.K)
			}
			return 0
		}
	case OAnd:
		a, b := knownWidth(t.A), knownWidth(t.B)
		if a < b {
			return a
		}
		return b
	case OOr, OXor:
		a, b := knownWidth(t.A), knownWidth(t.B)
		if a > b {
			return a
		}
		return b
	case OIte:
		a, b := knownWidth(t.B), knownWidth(t.C)
		if a > b {
			return a
		}
		return b
	}
	return t.W
}

// lowZeros returns n such that the low n bits of t are known zero.
func lowZeros(t *T) uint8 {
	switch t.Op {
	case OConst:
		if t.K == 0 {
			return t.W
		}
		return uint8(bits.TrailingZeros64(t.K))
	case OShl:
		if t.B.IsConst() {
			if t.B.K >= uint64(t.W) {
				return t.W
			}
			n := uint64(lowZeros(t.A)) + t.B.K
			if n > uint64(t.W) {
				n = uint64(t.W)
			}
			return uint8(n)
		}
	case OConcat:
		lz := lowZeros(t.B)
		if lz == t.B.W {
			return lz + lowZeros(t.A)
		}
		return lz
	case OZExt:
		lz := lowZeros(t.A)
		if lz == t.A.W {
			return t.W
		}
		return lz
	}
	return 0
}

func (c *Ctx) orAsConcat(hi, lo *T) *T {
	// hi has low z bits zero, lo has known width <= z: result = concat(extract(hi, z..W), extract(lo, 0..z))
	z := lowZeros(hi)
	if z == 0 || z >= hi.W {
		return nil
	}
	if knownWidth(lo) > z {
		return nil
	}
	return c.Concat(c.Extract(hi, z, hi.W-z), c.Extract(lo, 0, z))
}

func (c *Ctx) Xor(a, b *T) *T {
	if a.IsConst() && !b.IsConst() {
		a, b = b, a
	}
	if b.IsConst() {
		if a.IsConst() {
			return c.Const(a.K^b.K, a.W)
		}
		if b.K == 0 {
			return a
		}
		if b.K == mask(a.W) {
			return c.Not(a)
		}
	}
	if a == b {
		return c.Const(0, a.W)
	}
	return c.bin(OXor, a, b)
}

func (c *Ctx) Shl(a, b *T) *T {
	if b.IsConst() {
		if b.K == 0 {
			return a
		}
		if b.K >= uint64(a.W) {
			return c.Const(0, a.W)
		}
		if a.IsConst() {
			return c.Const(a.K<<b.K, a.W)
		}
		// shl by const = concat(extract(a, 0, W-k), 0_k)
		k := uint8(b.K)
		return c.Concat(c.Extract(a, 0, a.W-k), c.Const(0, k))
	}
	if a.IsConst() && a.K == 0 {
		return a
	}
	return c.bin(OShl, a, b)
}

func (c *Ctx) LShr(a, b *T) *T {
	if b.IsConst() {
		if b.K == 0 {
			return a
		}
		if b.K >= uint64(a.W) {
			return c.Const(0, a.W)
		}
		if a.IsConst() {
			return c.Const(a.K>>b.K, a.W)
		}
		k := uint8(b.K)
		return c.ZExt(c.Extract(a, k, a.W-k), a.W)
	}
	if a.IsConst() && a.K == 0 {
		return a
	}
	return c.bin(OLShr, a, b)
}

func (c *Ctx) AShr(a, b *T) *T {
	if b.IsConst() {
		if b.K == 0 {
			return a
		}
		if a.IsConst() {
			v, _ := foldBin(OAShr, a.K, b.K, a.W)
			return c.Const(v, a.W)
		}
		if b.K >= uint64(a.W) {
			return c.SExt(c.Extract(a, a.W-1, 1), a.W)
		}
		k := uint8(b.K)
		return c.SExt(c.Extract(a, k, a.W-k), a.W)
	}
	return c.bin(OAShr, a, b)
}

func (c *Ctx) Not(a *T) *T {
	if a.IsConst() {
		return c.Const(^a.K, a.W)
	}
	if a.Op == ONot {
		return a.A
	}
	return c.mk(tkey{op: ONot, w: a.W, a: a.ID}, a, nil, nil, nil)
}

func (c *Ctx) Neg(a *T) *T {
	if a.IsConst() {
		return c.Const(-a.K, a.W)
	}
	return c.mk(tkey{op: ONeg, w: a.W, a: a.ID}, a, nil, nil, nil)
}

func (c *Ctx) Concat(hi, lo *T) *T {
	w := hi.W + lo.W
	if w > 64 || w < hi.W {
		panic("concat wider than 64")
	}
	if hi.IsConst() && lo.IsConst() {
		return c.Const(hi.K<<lo.W|lo.K, w)
	}
	if hi.IsConst() && hi.K == 0 {
		return c.ZExt(lo, w)
	}
	// adjacent extracts of the same term
	if hi.Op == OExtract && lo.Op == OExtract && hi.A == lo.A && hi.K == lo.K+uint64(lo.W) {
		return c.Extract(hi.A, uint8(lo.K), w)
	}
	// concat(extract(x, k+n..), concat(extract(x,k..), rest))
	if hi.Op == OExtract && lo.Op == OConcat && lo.A.Op == OExtract && lo.A.A == hi.A && hi.K == lo.A.K+uint64(lo.A.W) {
		return c.Concat(c.Extract(hi.A, uint8(lo.A.K), hi.W+lo.A.W), lo.B)
	}
	// concat(concat(a, extract(x, k+n)), extract(x, k)) -> concat(a, extract(x,k,..))
	if hi.Op == OConcat && hi.B.Op == OExtract && lo.Op == OExtract && hi.B.A == lo.A && hi.B.K == lo.K+uint64(lo.W) {
		return c.Concat(hi.A, c.Extract(lo.A, uint8(lo.K), hi.B.W+lo.W))
	}
	// zext(x) on top of extract chain: concat(zext(a), b) with a small keeps as is
	return c.mk(tkey{op: OConcat, w: w, a: hi.ID, b: lo.ID}, hi, lo, nil, nil)
}

// Extract returns bits [lo, lo+w) of a.
func (c *Ctx) Extract(a *T, lo, w uint8) *T {
	if w == 0 || uint16(lo)+uint16(w) > uint16(a.W) {
		panic(fmt.Sprintf("bad extract lo=%d w=%d of %d", lo, w, a.W))
	}
	if lo == 0 && w == a.W {
		return a
	}
	switch a.Op {
	case OConst:
		return c.Const(a.K>>lo, w)
	case OExtract:
		return c.Extract(a.A, uint8(a.K)+lo, w)
	case OConcat:
		if lo >= a.B.W {
			return c.Extract(a.A, lo-a.B.W, w)
		}
		if lo+w <= a.B.W {
			return c.Extract(a.B, lo, w)
		}
		return c.Concat(c.Extract(a.A, 0, lo+w-a.B.W), c.Extract(a.B, lo, a.B.W-lo))
	case OZExt:
		if lo >= a.A.W {
			return c.Const(0, w)
		}
		if lo+w <= a.A.W {
			return c.Extract(a.A, lo, w)
		}
		return c.ZExt(c.Extract(a.A, lo, a.A.W-lo), w)
	case OSExt:
		if lo+w <= a.A.W {
			return c.Extract(a.A, lo, w)
		}
		if lo == 0 {
			return c.SExt(a.A, w)
		}
	case OIte:
		if a.B.IsConst() && a.C.IsConst() {
			return c.Ite(a.A, c.Extract(a.B, lo, w), c.Extract(a.C, lo, w))
		}
	case OAnd, OOr, OXor:
		if a.B.IsConst() || lo == 0 {
			x, y := c.Extract(a.A, lo, w), c.Extract(a.B, lo, w)
			switch a.Op {
			case OAnd:
				return c.And(x, y)
			case OOr:
				return c.Or(x, y)
			default:
				return c.Xor(x, y)
			}
		}
	case OAdd, OSub, OMul:
		if lo == 0 {
			x, y := c.Extract(a.A, 0, w), c.Extract(a.B, 0, w)
			switch a.Op {
			case OAdd:
				return c.Add(x, y)
			case OSub:
				return c.Sub(x, y)
			default:
				return c.Mul(x, y)
			}
		}
	case ONot:
		return c.Not(c.Extract(a.A, lo, w))
	}
	return c.mk(tkey{op: OExtract, w: w, a: a.ID, k: uint64(lo)}, a, nil, nil, nil)
}

func (c *Ctx) ZExt(a *T, w uint8) *T {
	if w == a.W {
		return a
	}
	if w < a.W {
		panic("zext narrower")
	}
	if a.IsConst() {
		return c.Const(a.K, w)
	}
	if a.Op == OZExt {
		return c.ZExt(a.A, w)
	}
	if a.Op == OIte && a.B.IsConst() && a.C.IsConst() {
		return c.Ite(a.A, c.Const(a.B.K, w), c.Const(a.C.K, w))
	}
	return c.mk(tkey{op: OZExt, w: w, a: a.ID}, a, nil, nil, nil)
}

func (c *Ctx) SExt(a *T, w uint8) *T {
	if w == a.W {
		return a
	}
	if w < a.W {
		panic("sext narrower")
	}
	if a.IsConst() {
		return c.Const(uint64(sx(a.K, a.W)), w)
	}
	if a.Op == OSExt {
		return c.SExt(a.A, w)
	}
	if a.Op == OZExt { // zext then sext = zext
		return c.ZExt(a.A, w)
	}
	if a.Op == OIte && a.B.IsConst() && a.C.IsConst() {
		return c.Ite(a.A, c.SExt(a.B, w), c.SExt(a.C, w))
	}
	return c.mk(tkey{op: OSExt, w: w, a: a.ID}, a, nil, nil, nil)
}

// Resize converts a to width w, truncating or extending per signedness.
func (c *Ctx) Resize(a *T, w uint8, signed bool) *T {
	if w == a.W {
		return a
	}
	if w < a.W {
		return c.Extract(a, 0, w)
	}
	if signed {
		return c.SExt(a, w)
	}
	return c.ZExt(a, w)
}

func (c *Ctx) Ite(cond, a, b *T) *T {
	if cond.IsTrue() {
		return a
	}
	if cond.IsFalse() {
		return b
	}
	if a == b {
		return a
	}
	if a.W == 0 {
		if a.IsTrue() && b.IsFalse() {
			return cond
		}
		if a.IsFalse() && b.IsTrue() {
			return c.BNot(cond)
		}
		if a.IsTrue() {
			return c.BOr(cond, b)
		}
		if a.IsFalse() {
			return c.BAnd(c.BNot(cond), b)
		}
		if b.IsTrue() {
			return c.BOr(c.BNot(cond), a)
		}
		if b.IsFalse() {
			return c.BAnd(cond, a)
		}
	}
	if cond.Op == OBNot {
		return c.Ite(cond.A, b, a)
	}
	// ite(c, x, ite(c, y, z)) -> ite(c, x, z)
	if b.Op == OIte && b.A == cond {
		return c.Ite(cond, a, b.C)
	}
	if a.Op == OIte && a.A == cond {
		return c.Ite(cond, a.B, b)
	}
	return c.mk(tkey{op: OIte, w: a.W, a: cond.ID, b: a.ID, c: b.ID}, cond, a, b, nil)
}

func (c *Ctx) Eq(a, b *T) *T {
	if a.W != b.W {
		panic(fmt.Sprintf("eq width mismatch %d %d", a.W, b.W))
	}
	if a == b {
		return c.True
	}
	if a.IsConst() && !b.IsConst() {
		a, b = b, a
	}
	if b.IsConst() {
		if a.IsConst() {
			return c.Bool(a.K == b.K)
		}
		if a.W == 0 {
			if b.K != 0 {
				return a
			}
			return c.BNot(a)
		}
		switch a.Op {
		case OConcat:
			return c.BAnd(c.Eq(a.A, c.Const(b.K>>a.B.W, a.A.W)), c.Eq(a.B, c.Const(b.K, a.B.W)))
		case OZExt:
			if b.K>>a.A.W != 0 {
				return c.False
			}
			return c.Eq(a.A, c.Const(b.K, a.A.W))
		case OSExt:
			if uint64(sx(b.K&mask(a.A.W), a.A.W))&mask(a.W) != b.K {
				return c.False
			}
			return c.Eq(a.A, c.Const(b.K, a.A.W))
		case OAdd:
			if a.B.IsConst() {
				return c.Eq(a.A, c.Const(b.K-a.B.K, a.W))
			}
		case OIte:
			if a.B.IsConst() && a.C.IsConst() {
				tb, tc := a.B.K == b.K, a.C.K == b.K
				switch {
				case tb && tc:
					return c.True
				case tb:
					return a.A
				case tc:
					return c.BNot(a.A)
				default:
					return c.False
				}
			}
			if a.B.IsConst() && a.B.K != b.K {
				return c.BAnd(c.BNot(a.A), c.Eq(a.C, b))
			}
			if a.C.IsConst() && a.C.K != b.K {
				return c.BAnd(a.A, c.Eq(a.B, b))
			}
		case OXor:
			if a.B.IsConst() {
				return c.Eq(a.A, c.Const(b.K^a.B.K, a.W))
			}
		case ONot:
			return c.Eq(a.A, c.Const(^b.K, a.W))
		}
	} else {
		if a.ID > b.ID {
			a, b = b, a
		}
		if a.Op == OZExt && b.Op == OZExt && a.A.W == b.A.W {
			return c.Eq(a.A, b.A)
		}
		if a.Op == OSExt && b.Op == OSExt && a.A.W == b.A.W {
			return c.Eq(a.A, b.A)
		}
		if a.Op == OConcat && b.Op == OConcat && a.B.W == b.B.W {
			return c.BAnd(c.Eq(a.A, b.A), c.Eq(a.B, b.B))
		}
	}
	return c.mk(tkey{op: OEq, w: 0, a: a.ID, b: b.ID}, a, b, nil, nil)
}

func (c *Ctx) Ne(a, b *T) *T { return c.BNot(c.Eq(a, b)) }

func (c *Ctx) cmp(op Op, a, b *T) *T {
	if a.W != b.W {
		panic("cmp width mismatch")
	}
	if a.IsConst() && b.IsConst() {
		var r bool
		switch op {
		case OUlt:
			r = a.K < b.K
		case OUle:
			r = a.K <= b.K
		case OSlt:
			r = sx(a.K, a.W) < sx(b.K, b.W)
		case OSle:
			r = sx(a.K, a.W) <= sx(b.K, b.W)
		}
		return c.Bool(r)
	}
	if a == b {
		return c.Bool(op == OUle || op == OSle)
	}
	return c.mk(tkey{op: op, w: 0, a: a.ID, b: b.ID}, a, b, nil, nil)
}

// staticRange returns syntactic unsigned bounds [lo, hi] of t.
func staticRange(t *T, depth int) (uint64, uint64) {
	m := mask(t.W)
	if depth > 6 {
		return 0, m
	}
	switch t.Op {
	case OConst:
		return t.K, t.K
	case OZExt:
		return staticRange(t.A, depth+1)
	case OConcat:
		la, ha := staticRange(t.A, depth+1)
		lb, hb := staticRange(t.B, depth+1)
		return la<<t.B.W | lb, ha<<t.B.W | hb
	case OIte:
		l1, h1 := staticRange(t.B, depth+1)
		l2, h2 := staticRange(t.C, depth+1)
		if l2 < l1 {
			l1 = l2
		}
		if h2 > h1 {
			h1 = h2
		}
		return l1, h1
	case OAnd:
		if t.B.IsConst() {
			return 0, t.B.K
		}
	case OOr:
		if t.B.IsConst() {
			return t.B.K, m
		}
	case OURem:
		if t.B.IsConst() && t.B.K > 0 {
			return 0, t.B.K - 1
		}
	}
	if kw := knownWidth(t); kw < t.W && kw < 64 {
		return 0, (uint64(1) << kw) - 1
	}
	return 0, m
}

func (c *Ctx) Ult(a, b *T) *T {
	if a.W > 0 && (a.Op == OConcat || a.Op == OIte || a.Op == OOr || a.Op == OAnd || b.Op == OConcat || b.Op == OIte || b.Op == OOr || b.Op == OAnd) {
		la, ha := staticRange(a, 0)
		lb, hb := staticRange(b, 0)
		if ha < lb {
			return c.True
		}
		if la >= hb {
			return c.False
		}
	}
	if b.IsConst() {
		if b.K == 0 {
			return c.False
		}
		if b.K == 1 {
			return c.Eq(a, c.Const(0, a.W))
		}
		if kw := knownWidth(a); kw < 64 && kw < a.W && b.K >= uint64(1)<<kw {
			return c.True
		}
		if a.Op == OZExt && b.K>>a.A.W == 0 {
			return c.Ult(a.A, c.Const(b.K, a.A.W))
		}
	}
	if a.IsConst() {
		if a.K == mask(a.W) {
			return c.False
		}
		if a.K == 0 {
			return c.Ne(b, a)
		}
		if b.Op == OZExt {
			if a.K>>b.A.W != 0 {
				return c.False
			}
			return c.Ult(c.Const(a.K, b.A.W), b.A)
		}
	}
	if a.Op == OZExt && b.Op == OZExt && a.A.W == b.A.W {
		return c.Ult(a.A, b.A)
	}
	return c.cmp(OUlt, a, b)
}
func (c *Ctx) Ule(a, b *T) *T { return c.BNot(c.Ult(b, a)) }
func (c *Ctx) Slt(a, b *T) *T {
	// both known non-negative -> unsigned
	if knownWidth(a) < a.W && knownWidth(b) < b.W {
		return c.Ult(a, b)
	}
	if a.Op == OSExt && b.Op == OSExt && a.A.W == b.A.W {
		return c.Slt(a.A, b.A)
	}
	return c.cmp(OSlt, a, b)
}
func (c *Ctx) Sle(a, b *T) *T { return c.BNot(c.Slt(b, a)) }

func (c *Ctx) BNot(a *T) *T {
	if a.IsConst() {
		return c.Bool(a.K == 0)
	}
	if a.Op == OBNot {
		return a.A
	}
	return c.mk(tkey{op: OBNot, w: 0, a: a.ID}, a, nil, nil, nil)
}

func (c *Ctx) BAnd(a, b *T) *T {
	if a.IsFalse() || b.IsFalse() {
		return c.False
	}
	if a.IsTrue() {
		return b
	}
	if b.IsTrue() {
		return a
	}
	if a == b {
		return a
	}
	if (a.Op == OBNot && a.A == b) || (b.Op == OBNot && b.A == a) {
		return c.False
	}
	if a.ID > b.ID {
		a, b = b, a
	}
	return c.mk(tkey{op: OBAnd, w: 0, a: a.ID, b: b.ID}, a, b, nil, nil)
}

func (c *Ctx) BOr(a, b *T) *T {
	if a.IsTrue() || b.IsTrue() {
		return c.True
	}
	if a.IsFalse() {
		return b
	}
	if b.IsFalse() {
		return a
	}
	if a == b {
		return a
	}
	if (a.Op == OBNot && a.A == b) || (b.Op == OBNot && b.A == a) {
		return c.True
	}
	if a.ID > b.ID {
		a, b = b, a
	}
	return c.mk(tkey{op: OBOr, w: 0, a: a.ID, b: b.ID}, a, b, nil, nil)
}

// BoolToBV gives ite(b, 1, 0) of width w.
func (c *Ctx) BoolToBV(b *T, w uint8) *T { return c.Ite(b, c.Const(1, w), c.Const(0, w)) }

// UF applies an uninterpreted function.
func (c *Ctx) UF(name string, w uint8, args ...*T) *T {
	return c.mk(tkey{op: OUF, w: w, name: name}, nil, nil, nil, append([]*T(nil), args...))
}

// ---- floating point ----

func fbits(x float64, w uint8) uint64 {
	if w == 32 {
		return uint64(math.Float32bits(float32(x)))
	}
	return math.Float64bits(x)
}
func ffrom(k uint64, w uint8) float64 {
	if w == 32 {
		return float64(math.Float32frombits(uint32(k)))
	}
	return math.Float64frombits(k)
}

func (c *Ctx) FBin(op Op, a, b *T) *T {
	if a.IsConst() && b.IsConst() {
		x, y := ffrom(a.K, a.W), ffrom(b.K, b.W)
		var r float64
		switch op {
		case OFAdd:
			r = x + y
		case OFSub:
			r = x - y
		case OFMul:
			r = x * y
		case OFDiv:
			r = x / y
		}
		if a.W == 32 {
			// float32 arithmetic: round once (Go computes in float32)
			var r32 float32
			x32, y32 := math.Float32frombits(uint32(a.K)), math.Float32frombits(uint32(b.K))
			switch op {
			case OFAdd:
				r32 = x32 + y32
			case OFSub:
				r32 = x32 - y32
			case OFMul:
				r32 = x32 * y32
			case OFDiv:
				r32 = x32 / y32
			}
			return c.Const(uint64(math.Float32bits(r32)), 32)
		}
		return c.Const(math.Float64bits(r), 64)
	}
	return c.mk(tkey{op: op, w: a.W, a: a.ID, b: b.ID}, a, b, nil, nil)
}

func (c *Ctx) FNeg(a *T) *T {
	return c.Xor(a, c.Const(uint64(1)<<(a.W-1), a.W))
}

func (c *Ctx) FCmp(op Op, a, b *T) *T {
	if a.IsConst() && b.IsConst() {
		x, y := ffrom(a.K, a.W), ffrom(b.K, b.W)
		switch op {
		case OFLt:
			return c.Bool(x < y)
		case OFLe:
			return c.Bool(x <= y)
		case OFEq:
			return c.Bool(x == y)
		}
	}
	return c.mk(tkey{op: op, w: 0, a: a.ID, b: b.ID}, a, b, nil, nil)
}

func (c *Ctx) FIsNaN(a *T) *T {
	if a.IsConst() {
		x := ffrom(a.K, a.W)
		return c.Bool(x != x)
	}
	return c.mk(tkey{op: OFIsNaN, w: 0, a: a.ID}, a, nil, nil, nil)
}

func (c *Ctx) FCvt(a *T, w uint8) *T {
	if a.W == w {
		return a
	}
	if a.IsConst() {
		return c.Const(fbits(ffrom(a.K, a.W), w), w)
	}
	return c.mk(tkey{op: OFCvt, w: w, a: a.ID}, a, nil, nil, nil)
}

// F2I converts float bits a to an integer of width w.
func (c *Ctx) F2I(a *T, w uint8, signed bool) *T {
	if a.IsConst() {
		x := ffrom(a.K, a.W)
		if signed {
			if x == x && x >= -9.3e18 && x <= 9.3e18 {
				return c.Const(uint64(int64(x)), w)
			}
			return c.Const(0x8000000000000000, w) // amd64 "integer indefinite"
		}
		if x == x && x >= 0 && x < 1.8446744073709552e19 {
			return c.Const(uint64(x), w)
		}
		if x == x && x < 0 && x > -9.3e18 {
			return c.Const(uint64(int64(x)), w)
		}
		return c.Const(0x8000000000000000, w)
	}
	op := OF2U
	if signed {
		op = OF2S
	}
	return c.mk(tkey{op: op, w: w, a: a.ID}, a, nil, nil, nil)
}

// I2F converts an integer term to float bits of width w.
func (c *Ctx) I2F(a *T, w uint8, signed bool) *T {
	if a.IsConst() {
		var x float64
		if signed {
			x = float64(sx(a.K, a.W))
			if w == 32 {
				return c.Const(uint64(math.Float32bits(float32(sx(a.K, a.W)))), 32)
			}
		} else {
			x = float64(a.K)
			if w == 32 {
				return c.Const(uint64(math.Float32bits(float32(a.K))), 32)
			}
		}
		return c.Const(math.Float64bits(x), 64)
	}
	op := OU2F
	if signed {
		op = OS2F
	}
	return c.mk(tkey{op: op, w: w, a: a.ID}, a, nil, nil, nil)
}

// ---- vars, eval, subst ----

// Vars returns the variables (and UF applications' argument vars) of t, sorted by ID.
func (c *Ctx) Vars(t *T) []*T {
	if t.varsOK {
		return t.vars
	}
	set := map[*T]bool{}
	var walk func(x *T)
	seen := map[*T]bool{}
	walk = func(x *T) {
		if x == nil || seen[x] {
			return
		}
		seen[x] = true
		if x.varsOK {
			for _, v := range x.vars {
				set[v] = true
			}
			return
		}
		if x.Op == OVar {
			set[x] = true
			return
		}
		if x.Op == OUF {
			// all constraints mentioning the same uninterpreted function are connected (congruence)
			set[c.ufPseudoVar(x.Name)] = true
		}
		walk(x.A)
		walk(x.B)
		walk(x.C)
		for _, a := range x.Args {
			walk(a)
		}
	}
	walk(t)
	vs := make([]*T, 0, len(set))
	for v := range set {
		vs = append(vs, v)
	}
	sort.Slice(vs, func(i, j int) bool { return vs[i].ID < vs[j].ID })
	t.vars = vs
	t.varsOK = true
	return vs
}

// Model maps variables to values; UF applications are looked up by their
// evaluated argument tuple in UFVals.
type Model struct {
	V  map[*T]uint64
	UF map[string]uint64 // key: name|arg,arg,...
}

func NewModel() *Model { return &Model{V: map[*T]uint64{}, UF: map[string]uint64{}} }

func (m *Model) Clone() *Model {
	n := &Model{V: make(map[*T]uint64, len(m.V)), UF: make(map[string]uint64, len(m.UF))}
	for k, v := range m.V {
		n.V[k] = v
	}
	for k, v := range m.UF {
		n.UF[k] = v
	}
	return n
}

// Eval evaluates t under m (missing variables are 0).
func (c *Ctx) Eval(t *T, m *Model) uint64 {
	memo := map[*T]uint64{}
	return c.eval(t, m, memo)
}

func (c *Ctx) eval(t *T, m *Model, memo map[*T]uint64) uint64 {
	switch t.Op {
	case OConst:
		return t.K
	case OVar:
		return m.V[t] & maskb(t.W)
	}
	if v, ok := memo[t]; ok {
		return v
	}
	var r uint64
	ev := func(x *T) uint64 { return c.eval(x, m, memo) }
	b2u := func(b bool) uint64 {
		if b {
			return 1
		}
		return 0
	}
	switch t.Op {
	case OAdd, OSub, OMul, OUDiv, OURem, OSDiv, OSRem, OAnd, OOr, OXor, OShl, OLShr, OAShr:
		r, _ = foldBin(t.Op, ev(t.A), ev(t.B), t.W)
	case ONot:
		r = ^ev(t.A) & mask(t.W)
	case ONeg:
		r = -ev(t.A) & mask(t.W)
	case OConcat:
		r = ev(t.A)<<t.B.W | ev(t.B)
	case OExtract:
		r = (ev(t.A) >> t.K) & mask(t.W)
	case OZExt:
		r = ev(t.A)
	case OSExt:
		r = uint64(sx(ev(t.A), t.A.W)) & mask(t.W)
	case OIte:
		if ev(t.A) != 0 {
			r = ev(t.B)
		} else {
			r = ev(t.C)
		}
	case OEq:
		r = b2u(ev(t.A) == ev(t.B))
	case OUlt:
		r = b2u(ev(t.A) < ev(t.B))
	case OUle:
		r = b2u(ev(t.A) <= ev(t.B))
	case OSlt:
		r = b2u(sx(ev(t.A), t.A.W) < sx(ev(t.B), t.B.W))
	case OSle:
		r = b2u(sx(ev(t.A), t.A.W) <= sx(ev(t.B), t.B.W))
	case OBAnd:
		r = b2u(ev(t.A) != 0 && ev(t.B) != 0)
	case OBOr:
		r = b2u(ev(t.A) != 0 || ev(t.B) != 0)
	case OBNot:
		r = b2u(ev(t.A) == 0)
	case OUF:
		var sb strings.Builder
		sb.WriteString(t.Name)
		for _, a := range t.Args {
			fmt.Fprintf(&sb, "|%d", ev(a))
		}
		r = m.UF[sb.String()] & maskb(t.W)
		if _, ok := m.UF[sb.String()]; !ok {
			// unconstrained application: pick a default that is a function of the arguments
			// (keeps congruence: equal arguments give equal results)
			r = 0
		}
	case OFAdd, OFSub, OFMul, OFDiv:
		r = c.FBin(t.Op, c.Const(ev(t.A), t.A.W), c.Const(ev(t.B), t.B.W)).K
	case OFLt, OFLe, OFEq:
		r = c.FCmp(t.Op, c.Const(ev(t.A), t.A.W), c.Const(ev(t.B), t.B.W)).K
	case OFIsNaN:
		r = c.FIsNaN(c.Const(ev(t.A), t.A.W)).K
	case OFCvt:
		r = c.FCvt(c.Const(ev(t.A), t.A.W), t.W).K
	case OF2S:
		r = c.F2I(c.Const(ev(t.A), t.A.W), t.W, true).K
	case OF2U:
		r = c.F2I(c.Const(ev(t.A), t.A.W), t.W, false).K
	case OS2F:
		r = c.I2F(c.Const(ev(t.A), t.A.W), t.W, true).K
	case OU2F:
		r = c.I2F(c.Const(ev(t.A), t.A.W), t.W, false).K
	default:
		panic(fmt.Sprintf("eval: op %d", t.Op))
	}
	memo[t] = r
	return r
}

func maskb(w uint8) uint64 {
	if w == 0 {
		return 1
	}
	return mask(w)
}

// Subst rebuilds t replacing any sub-term found in m (term -> term).
func (c *Ctx) Subst(t *T, m map[*T]*T, memo map[*T]*T) *T {
	if len(m) == 0 {
		return t
	}
	if r, ok := m[t]; ok {
		return r
	}
	switch t.Op {
	case OConst, OVar:
		return t
	}
	if r, ok := memo[t]; ok {
		return r
	}
	s := func(x *T) *T { return c.Subst(x, m, memo) }
	var r *T
	switch t.Op {
	case OUF:
		changed := false
		args := make([]*T, len(t.Args))
		for i, a := range t.Args {
			args[i] = s(a)
			if args[i] != a {
				changed = true
			}
		}
		if changed {
			r = c.UF(t.Name, t.W, args...)
		} else {
			r = t
		}
	default:
		var a, b, cc *T
		if t.A != nil {
			a = s(t.A)
		}
		if t.B != nil {
			b = s(t.B)
		}
		if t.C != nil {
			cc = s(t.C)
		}
		if a == t.A && b == t.B && cc == t.C {
			r = t
		} else {
			r = c.Rebuild(t, a, b, cc)
		}
	}
	if r2, ok := m[r]; ok {
		r = r2
	}
	memo[t] = r
	return r
}

// Rebuild re-applies t's operator to new children through the simplifying constructors.
func (c *Ctx) Rebuild(t *T, a, b, cc *T) *T {
	switch t.Op {
	case OAdd:
		return c.Add(a, b)
	case OSub:
		return c.Sub(a, b)
	case OMul:
		return c.Mul(a, b)
	case OUDiv:
		return c.UDiv(a, b)
	case OURem:
		return c.URem(a, b)
	case OSDiv:
		return c.SDiv(a, b)
	case OSRem:
		return c.SRem(a, b)
	case OAnd:
		return c.And(a, b)
	case OOr:
		return c.Or(a, b)
	case OXor:
		return c.Xor(a, b)
	case OShl:
		return c.Shl(a, b)
	case OLShr:
		return c.LShr(a, b)
	case OAShr:
		return c.AShr(a, b)
	case ONot:
		return c.Not(a)
	case ONeg:
		return c.Neg(a)
	case OConcat:
		return c.Concat(a, b)
	case OExtract:
		return c.Extract(a, uint8(t.K), t.W)
	case OZExt:
		return c.ZExt(a, t.W)
	case OSExt:
		return c.SExt(a, t.W)
	case OIte:
		return c.Ite(a, b, cc)
	case OEq:
		return c.Eq(a, b)
	case OUlt:
		return c.Ult(a, b)
	case OUle:
		return c.Ule(a, b)
	case OSlt:
		return c.Slt(a, b)
	case OSle:
		return c.Sle(a, b)
	case OBAnd:
		return c.BAnd(a, b)
	case OBOr:
		return c.BOr(a, b)
	case OBNot:
		return c.BNot(a)
	case OFAdd, OFSub, OFMul, OFDiv:
		return c.FBin(t.Op, a, b)
	case OFLt, OFLe, OFEq:
		return c.FCmp(t.Op, a, b)
	case OFIsNaN:
		return c.FIsNaN(a)
	case OFCvt:
		return c.FCvt(a, t.W)
	case OF2S:
		return c.F2I(a, t.W, true)
	case OF2U:
		return c.F2I(a, t.W, false)
	case OS2F:
		return c.I2F(a, t.W, true)
	case OU2F:
		return c.I2F(a, t.W, false)
	}
	panic(fmt.Sprintf("rebuild: op %d", t.Op))
}

// Conjuncts splits nested ands.
func Conjuncts(t *T, out []*T) []*T {
	if t.Op == OBAnd {
		out = Conjuncts(t.A, out)
		return Conjuncts(t.B, out)
	}
	return append(out, t)
}

// String renders a term compactly (debugging / evidence).
func (t *T) String() string {
	var sb strings.Builder
	t.str(&sb, 0)
	return sb.String()
}

func (t *T) str(sb *strings.Builder, d int) {
	if d > 12 {
		sb.WriteString("…")
		return
	}
	switch t.Op {
	case OConst:
		if t.W == 0 {
			if t.K != 0 {
				sb.WriteString("true")
			} else {
				sb.WriteString("false")
			}
		} else {
			fmt.Fprintf(sb, "%d:%d", t.K, t.W)
		}
	case OVar:
		sb.WriteString(t.Name)
	case OExtract:
		fmt.Fprintf(sb, "(extract[%d+%d] ", t.K, t.W)
		t.A.str(sb, d+1)
		sb.WriteString(")")
	case OZExt, OSExt:
		if t.Op == OZExt {
			fmt.Fprintf(sb, "(zext%d ", t.W)
		} else {
			fmt.Fprintf(sb, "(sext%d ", t.W)
		}
		t.A.str(sb, d+1)
		sb.WriteString(")")
	case OUF:
		fmt.Fprintf(sb, "(%s", t.Name)
		for _, a := range t.Args {
			sb.WriteString(" ")
			a.str(sb, d+1)
		}
		sb.WriteString(")")
	default:
		n := opNames[t.Op]
		if n == "" {
			n = fmt.Sprintf("op%d", t.Op)
		}
		sb.WriteString("(" + n)
		for _, a := range []*T{t.A, t.B, t.C} {
			if a != nil {
				sb.WriteString(" ")
				a.str(sb, d+1)
			}
		}
		sb.WriteString(")")
	}
}

// ufKey is the model key of a UF application under m.
func (c *Ctx) ufKey(u *T, m *Model) string {
	var sb strings.Builder
	sb.WriteString(u.Name)
	for _, a := range u.Args {
		fmt.Fprintf(&sb, "|%d", c.Eval(a, m))
	}
	return sb.String()
}

func (c *Ctx) ufPseudoVar(name string) *T {
	if c.ufPseudo == nil {
		c.ufPseudo = map[string]*T{}
	}
	if v, ok := c.ufPseudo[name]; ok {
		return v
	}
	v := c.mk(tkey{op: OVar, w: 0, name: "uf$" + name}, nil, nil, nil, nil)
	c.ufPseudo[name] = v
	return v
}
