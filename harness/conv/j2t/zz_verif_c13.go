package j2t

import (
	"context"
	"math"

	"github.com/cloudwego/dynamicgo/conv"
	"github.com/cloudwego/dynamicgo/conv/t2j"
	vrt "github.com/cloudwego/dynamicgo/internal/zzverif"
	"github.com/cloudwego/dynamicgo/thrift"
)

func init() {
	vrt.Register("VerifC13_Thrift", VerifC13_Thrift)
}

var verifDoubles = []float64{0, math.Copysign(0, -1), 1.5, -2.25, 1e300, 5e-324, 1.7976931348623157e308, 0.1, 123456789.125, 1e21, 1e-7,
	// integral values around the int64 / exponent-format boundaries
	9223372036854775808, -9223372036854775808, 1e19, -1e20, 9007199254740992, 9007199254740994, 1e15, 3, -7, 1e20, 999999999999999900000}

// VerifC13_Thrift: a conforming message without unknown fields converted to JSON and back reproduces
// the message byte for byte (matching option pairs); the JSON produced from the result denotes the same value.
// The scalar text codecs executed here are the real portable ones (strconv / base64 / quoteString).
func VerifC13_Thrift() {
	f := vrt.Param("F")
	desc := verifSchema(thrift.Options{})
	i64s := vrt.Bool()
	nob64 := vrt.Bool()
	topts := conv.Options{Int642String: f == 5 && i64s, NoBase64Binary: f == 8 && nob64}
	jopts := conv.Options{String2Int64: f == 5 && i64s, NoBase64Binary: f == 8 && nob64}
	var in []byte
	if vrt.Bool() {
		in = append(vrt.PutField(in, vrt.TBOOL, 1), vrt.U8()&1)
	}
	cnt := vrt.Param("CNT")
	switch f {
	case 2:
		in = append(vrt.PutField(in, vrt.TBYTE, 2), vrt.U8())
	case 3:
		v := int(int16(vrt.U16()))
		vrt.Assume(v > -100 && v < 100 || v == math.MaxInt16 || v == math.MinInt16)
		in = vrt.PutBE16(vrt.PutField(in, vrt.TI16, 3), v)
	case 4:
		v := int(int32(vrt.U32()))
		if vrt.Param("RANGE") == 0 {
			vrt.Assume(v > -100 && v < 100)
		} else {
			vrt.Assume(v == math.MaxInt32 || v == math.MinInt32 || v == 1000 || v == -999999)
		}
		in = vrt.PutBE32(vrt.PutField(in, vrt.TI32, 4), v)
	case 5:
		v := int64(vrt.U64())
		switch vrt.Param("RANGE") {
		case 0:
			vrt.Assume(v > -100 && v < 100)
		case 1:
			vrt.Assume(v == math.MaxInt64 || v == math.MinInt64 || v == math.MaxInt64-1 || v == 1<<53+1 || v == -(1<<53)-1)
		}
		in = vrt.PutBE64(vrt.PutField(in, vrt.TI64, 5), v)
	case 6:
		d := verifDoubles[vrt.Param("DV")%len(verifDoubles)]
		in = vrt.PutBE64(vrt.PutField(in, vrt.TDOUBLE, 6), int64(math.Float64bits(d)))
	case 7:
		s := vrt.Bytes(cnt)
		for i := range s {
			vrt.Assume(s[i] < 0x80) // valid UTF-8
			if i > 0 {
				s[i] = 'z' // one fully symbolic byte, the rest fixed (each symbolic byte multiplies the escape classes)
			}
		}
		in = vrt.PutString(vrt.PutField(in, vrt.TSTRING, 7), s)
	case 8:
		bs := vrt.Bytes(cnt)
		for i := range bs {
			if i > 0 {
				bs[i] = byte(0xf0 + i) // one fully symbolic byte, the rest fixed (non-ASCII unless NoBase64Binary)
				if topts.NoBase64Binary {
					bs[i] = 'q'
				}
			}
		}
		if topts.NoBase64Binary {
			// without base64 a binary travels as a JSON string and must itself be valid UTF-8
			for i := range bs {
				vrt.Assume(bs[i] < 0x80)
			}
		}
		in = vrt.PutString(vrt.PutField(in, vrt.TSTRING, 8), bs)
	case 9:
		in = vrt.PutListHdr(vrt.PutField(in, vrt.TLIST, 9), vrt.TI32, cnt)
		for i := 0; i < cnt; i++ {
			v := int(int32(vrt.U32()))
			vrt.Assume(v > -100 && v < 100)
			in = vrt.PutBE32(in, v)
		}
	case 10:
		in = vrt.PutMapHdr(vrt.PutField(in, vrt.TMAP, 10), vrt.TSTRING, vrt.TI32, cnt)
		for i := 0; i < cnt; i++ {
			k := vrt.U8()
			vrt.Assume(k >= 0x20 && k < 0x7f)
			v := int(int32(vrt.U32()))
			vrt.Assume(v >= 0 && v < 10)
			in = vrt.PutBE32(vrt.PutString(in, []byte{k}), v)
		}
	case 11:
		in = vrt.PutMapHdr(vrt.PutField(in, vrt.TMAP, 11), vrt.TI64, vrt.TSTRING, cnt)
		for i := 0; i < cnt; i++ {
			k := int64(vrt.U64())
			if i == 0 && vrt.Param("RANGE") != 0 {
				// the first key: a boundary value of the 32- and 64-bit ranges instead of a small symbolic one
				k = []int64{0, 2147483647, 2147483648, -2147483649, 9223372036854775807, -9223372036854775808, 4294967296}[vrt.Param("RANGE")]
			} else {
				vrt.Assume(k > -100 && k < 100)
			}
			in = vrt.PutString(vrt.PutBE64(in, k), []byte{'v'})
		}
	case 12:
		in = vrt.PutField(in, vrt.TSTRUCT, 12)
		if vrt.Bool() {
			v := int(int32(vrt.U32()))
			vrt.Assume(v >= 0 && v < 10)
			in = vrt.PutBE32(vrt.PutField(in, vrt.TI32, 1), v)
		}
		in = append(in, 0)
	case 13:
		in = vrt.PutListHdr(vrt.PutField(in, vrt.TSET, 13), vrt.TSTRING, cnt)
		for i := 0; i < cnt; i++ {
			in = vrt.PutString(in, []byte{'a' + byte(i)})
		}
	}
	in = append(in, 0)
	orig := append([]byte(nil), in...)

	tc := t2j.NewBinaryConv(topts)
	js, err := tc.Do(context.Background(), desc, in)
	vrt.Assert(err == nil, "C13.t2j.noerror")
	if err != nil {
		return
	}
	jc := NewBinaryConv(jopts)
	back, err := jc.Do(context.Background(), desc, js)
	vrt.Assert(err == nil, "C13.j2t.noerror")
	if err != nil {
		return
	}
	vrt.Reach("roundtrip")
	// the label names the scenario, so that the recorded finding about -0.0 cannot hide another value
	idLabel := "C13.thrift-json-thrift.identical"
	if f == 6 && vrt.Param("DV")%len(verifDoubles) == 1 {
		idLabel = "C13.thrift-json-thrift.identical.negative-zero"
	}
	vrt.Assert(vrt.BytesEq(back, 0, len(back), orig, 0, len(orig)), idLabel)
	// and once more: the JSON produced from the result equals the first JSON (same value denoted)
	js2, err := tc.Do(context.Background(), desc, back)
	vrt.Assert(err == nil && vrt.BytesEq(js2, 0, len(js2), js, 0, len(js)), "C13.json-thrift-json.same")
}
