package annotation

import "github.com/cloudwego/dynamicgo/thrift"

// VerifHTTP builds the http-mapping annotation object that httpMappingAnnotation.Make builds
// for `api.<kind> = "<key>"`: 1 query, 2 path, 3 header, 4 cookie, 5 body, 6 http_code,
// 7 raw_body, 8 form, 9 raw_uri, 10 no_body_struct (the numbering of the API* constants).
func VerifHTTP(kind int, key string) thrift.HttpMapping {
	switch thrift.AnnoType(kind) {
	case APIQuery:
		return apiQuery{value: key}
	case APIPath:
		return apiPath{value: key}
	case APIHeader:
		return apiHeader{value: key}
	case APICookie:
		return apiCookie{value: key}
	case APIBody:
		return apiBody{value: key}
	case APIHTTPCode:
		return apiHTTPCode{}
	case APIRawBody:
		return apiRawBody{}
	case APIPostForm:
		return apiPostForm{value: key}
	case APIRawUri:
		return apiRawUri{}
	case APINoBodyStruct:
		return apiNoBodyStruct{}
	}
	panic("VerifHTTP: unknown kind")
}

// VerifJSConv is the value-mapping object built for `api.js_conv`.
func VerifJSConv() thrift.ValueMapping { return apiJSConv{} }
