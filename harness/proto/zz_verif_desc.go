package proto

import (
	"math"
	"unsafe"

	"github.com/cloudwego/dynamicgo/internal/util"
	"google.golang.org/protobuf/types/descriptorpb"
)

// Descriptor builders for the verification harnesses: the same steps parseMessage
// performs for each field protoparse reports (ids.Set, names.Set x2, names.Build).

// VerifBasic returns the shared builtin descriptor of a scalar type.
func VerifBasic(t Type) *TypeDescriptor {
	return builtinTypes[descriptorpb.FieldDescriptorProto_Type(t)]
}

func VerifNewMessage(name string) *TypeDescriptor {
	md := &MessageDescriptor{
		baseId: FieldNumber(math.MaxInt32),
		ids:    util.FieldIDMap{},
		names:  util.FieldNameMap{},
	}
	return &TypeDescriptor{typ: MESSAGE, name: name, msg: md}
}

func verifAdd(msg *TypeDescriptor, fd *FieldDescriptor) *FieldDescriptor {
	md := msg.msg
	md.ids.Set(int32(fd.id), unsafe.Pointer(fd))
	md.names.Set(fd.name, unsafe.Pointer(fd))
	md.names.Set(fd.jsonName, unsafe.Pointer(fd))
	return fd
}

// VerifAddField adds a singular or repeated field of type t (scalar builtin or message).
func VerifAddField(msg *TypeDescriptor, id FieldNumber, name, jsonName string, t *TypeDescriptor, repeated bool) *FieldDescriptor {
	fd := &FieldDescriptor{id: id, name: name, jsonName: jsonName}
	fd.kind = t.typ.TypeToKind()
	if repeated {
		t = &TypeDescriptor{typ: LIST, name: name, elem: t, baseId: id, msg: t.msg}
	}
	fd.typ = t
	return verifAdd(msg, fd)
}

// VerifAddMap adds a map<kt,vt> field (vt scalar builtin or message).
func VerifAddMap(msg *TypeDescriptor, id FieldNumber, name, jsonName string, kt, vt *TypeDescriptor) *FieldDescriptor {
	entry := VerifNewMessage(name + "Entry")
	VerifAddField(entry, 1, "key", "key", kt, false)
	VerifAddField(entry, 2, "value", "value", vt, false)
	VerifBuild(entry)
	fd := &FieldDescriptor{id: id, name: name, jsonName: jsonName, kind: MessageKind}
	fd.typ = &TypeDescriptor{typ: MAP, name: name, key: kt, elem: vt, baseId: id, msg: entry.msg}
	return verifAdd(msg, fd)
}

func VerifBuild(msg *TypeDescriptor) *TypeDescriptor {
	msg.msg.names.Build()
	return msg
}
