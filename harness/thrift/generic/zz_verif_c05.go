package generic

import (
	vrt "github.com/cloudwego/dynamicgo/internal/zzverif"
	"github.com/cloudwego/dynamicgo/thrift"
)

func init() {
	vrt.Register("VerifC05_LoadMarshal", VerifC05_LoadMarshal)
	vrt.Register("VerifC05_Reuse", VerifC05_Reuse)
	vrt.Register("VerifC05_EditField", VerifC05_EditField)
}

// verifLowerThresholds makes the by-id / hashed child layouts reachable with 2-3 children.
func verifLowerThresholds() (int, int) {
	a, b := StoreChildrenByIdShreshold, StoreChildrenByIntHashShreshold
	StoreChildrenByIdShreshold = vrt.Param("IDTH")
	StoreChildrenByIntHashShreshold = 1
	return a, b
}

func verifRestoreThresholds(a, b int) {
	StoreChildrenByIdShreshold, StoreChildrenByIntHashShreshold = a, b
}

func verifOpts(mode int) *Options {
	o := &Options{}
	o.StoreChildrenById = mode&1 != 0
	o.StoreChildrenByHash = mode&2 != 0
	o.NotScanParentNode = mode&4 != 0
	return o
}

// VerifC05_LoadMarshal: Load (lazy/recursive, storage options MODE) then Marshal of every well-formed
// value of root type T and N bytes.
func VerifC05_LoadMarshal() {
	n := vrt.Param("N")
	t := byte(vrt.Param("T"))
	mode := vrt.Param("MODE")
	b := vrt.Bytes(n)
	vrt.Assume(vrt.TWellFormed(b, t, verifDepth))
	verifDistinctDeep(b, t, verifDepth)
	orig := verifSnapshot(b)
	oa, ob := verifLowerThresholds()
	defer verifRestoreThresholds(oa, ob)
	opts := verifOpts(mode)
	root := PathNode{Node: NewNode(thrift.Type(t), b)}
	err := root.Load(vrt.Param("REC") != 0, opts)
	vrt.Assert(err == nil, "C05.load.noerror")
	if err != nil {
		return
	}
	out, err := root.Marshal(opts)
	vrt.Assert(err == nil, "C05.marshal.noerror")
	if err != nil {
		return
	}
	if mode == 0 {
		vrt.Reach("default")
		vrt.Assert(vrt.BytesEq(out, 0, len(out), orig, 0, len(orig)), "C05.loadmarshal.default.identical")
	} else {
		vrt.Reach("options")
		modeName := [8]string{"default", "byid", "byhash", "byid+byhash", "notscanparent", "byid+notscanparent", "byhash+notscanparent", "byid+byhash+notscanparent"}[mode]
		vrt.Assert(vrt.TDeepEq(out, orig, t, verifDepth), "C05.loadmarshal."+modeName+".same-value")
	}
	vrt.Assert(vrt.BytesEq(b, 0, len(b), orig, 0, len(orig)), "C05.load.input-unchanged")
}

// verifFirstLoad returns the value loaded first in the reuse scenario (concrete; P1 selects it).
func verifFirstLoad(t byte, p1 int) []byte {
	if t == vrt.TSTRUCT {
		switch p1 {
		case 0: // ids 0,1,2 -> by-id slots 0..2
			return []byte{3, 0, 0, 7, 3, 0, 1, 8, 3, 0, 2, 9, 0}
		case 1: // an id beyond the (lowered) by-id threshold and a hole
			return []byte{3, 0, 5, 7, 3, 0, 1, 8, 0}
		default: // empty struct
			return []byte{0}
		}
	}
	switch p1 {
	case 0: // map<byte,byte>{0:7,1:8,2:9} -> hashed into 6 slots
		return []byte{3, 3, 0, 0, 0, 3, 0, 7, 1, 8, 2, 9}
	case 1: // map<string,byte>{"a":1,"b":2}
		return []byte{11, 3, 0, 0, 0, 2, 0, 0, 0, 1, 'a', 1, 0, 0, 0, 1, 'b', 2}
	default:
		return []byte{3, 3, 0, 0, 0, 0}
	}
}

// VerifC05_Reuse: the same tree loads a first value (P1) and then every well-formed value of N bytes;
// the second marshal must not be influenced by what the first load left in the Next slices.
func VerifC05_Reuse() {
	t := byte(vrt.Param("T"))
	mode := vrt.Param("MODE")
	b1 := verifFirstLoad(t, vrt.Param("P1"))
	b2 := vrt.Bytes(vrt.Param("N"))
	vrt.Assume(vrt.TWellFormed(b2, t, verifDepth))
	verifDistinctDeep(b2, t, verifDepth)
	orig := verifSnapshot(b2)
	oa, ob := verifLowerThresholds()
	defer verifRestoreThresholds(oa, ob)
	opts := verifOpts(mode)
	root := PathNode{Node: NewNode(thrift.Type(t), b1)}
	vrt.Assert(root.Load(true, opts) == nil, "C05.reuse.load1.noerror")
	root.Node = NewNode(thrift.Type(t), b2)
	err := root.Load(true, opts)
	vrt.Assert(err == nil, "C05.reuse.load2.noerror")
	if err != nil {
		return
	}
	out, err := root.Marshal(opts)
	vrt.Assert(err == nil, "C05.reuse.marshal.noerror")
	if err != nil {
		return
	}
	vrt.Reach("done")
	modeName := [8]string{"default", "byid", "byhash", "byid+byhash", "notscanparent", "byid+notscanparent", "byhash+notscanparent", "byid+byhash+notscanparent"}[mode]
	vrt.Assert(vrt.TDeepEq(out, orig, t, verifDepth), "C05.reuse."+modeName+".same-value")
}

// VerifC05_EditField: after Load of a struct, SetField(id) / Field(id) and Marshal.
func VerifC05_EditField() {
	n := vrt.Param("N")
	mode := vrt.Param("MODE")
	b := vrt.Bytes(n)
	kids, ok := vrt.TChildren(b, vrt.TSTRUCT, verifDepth)
	vrt.Assume(ok)
	verifDistinctIDs(kids)
	orig := verifSnapshot(b)
	oa, ob := verifLowerThresholds()
	defer verifRestoreThresholds(oa, ob)
	opts := verifOpts(mode)
	root := PathNode{Node: NewNode(thrift.STRUCT, b)}
	vrt.Assert(root.Load(false, opts) == nil, "C05.edit.load.noerror")
	want := int16(vrt.U16())
	vrt.Assume(want >= 0)
	idx := -1
	for i := range kids {
		if int16(kids[i].ID) == want {
			idx = i
		}
	}
	// lookup returns the child stored under the id
	got := root.Field(thrift.FieldID(want), opts)
	if idx >= 0 {
		vrt.Reach("lookup.present")
		vrt.Assert(got != nil, "C05.edit.field.present.found")
		if got != nil {
			vrt.Assert(vrt.SameSpan(got.Node.Raw(), b, kids[idx].Start, kids[idx].End), "C05.edit.field.present.span")
		}
	} else {
		vrt.Reach("lookup.absent")
		vrt.Assert(got == nil, "C05.edit.field.absent.nil")
	}
	// set, look up again, marshal
	sub, subRaw := verifNewValue(vrt.TI32)
	exist, err := root.SetField(thrift.FieldID(want), sub, opts)
	vrt.Assert(err == nil, "C05.edit.setfield.noerror")
	vrt.Assert(exist == (idx >= 0), "C05.edit.setfield.exist-flag")
	got2 := root.Field(thrift.FieldID(want), opts)
	vrt.Assert(got2 != nil, "C05.edit.field-after-set.found")
	if got2 != nil {
		r2 := got2.Node.Raw()
		vrt.Assert(vrt.BytesEq(r2, 0, len(r2), subRaw, 0, len(subRaw)), "C05.edit.field-after-set.value")
	}
	out, err := root.Marshal(opts)
	vrt.Assert(err == nil, "C05.edit.marshal.noerror")
	if err != nil {
		return
	}
	after, ok2 := vrt.TChildren(out, vrt.TSTRUCT, verifDepth)
	vrt.Assert(ok2, "C05.edit.marshal.wellformed")
	if !ok2 {
		return
	}
	vrt.Reach("marshalled")
	cnt := len(kids)
	if idx < 0 {
		cnt++
	}
	vrt.Assert(len(after) == cnt, "C05.edit.marshal.count")
	for i := range after {
		if int16(after[i].ID) == want {
			vrt.Assert(after[i].Typ == vrt.TI32 && vrt.BytesEq(out, after[i].Start, after[i].End, subRaw, 0, len(subRaw)), "C05.edit.marshal.edited-value")
			continue
		}
		found := false
		for j := range kids {
			if kids[j].ID == after[i].ID && kids[j].Typ == after[i].Typ && vrt.BytesEq(out, after[i].Start, after[i].End, orig, kids[j].Start, kids[j].End) {
				found = true
			}
		}
		vrt.Assert(found, "C05.edit.marshal.others-unchanged")
	}
}

func init() { vrt.Register("VerifC05_ClearChildren", VerifC05_ClearChildren) }

// VerifC05_ClearChildren: after Load of a list<i32> / set<i32> / map<i32,i32> / struct of CNT children, any
// subset of the children is cleared (ResetValue); Marshal yields the well-formed encoding of the remaining
// children in order, with the element count rewritten.
func VerifC05_ClearChildren() {
	kind := vrt.Param("KIND") // 0 list, 1 set, 2 map, 3 struct
	cnt := vrt.Param("CNT")
	vals := make([]int, cnt)
	keep := make([]bool, cnt)
	for i := range vals {
		vals[i] = int(int32(vrt.U32()))
		keep[i] = vrt.Bool()
	}
	enc := func(all bool) []byte {
		n := 0
		for i := range vals {
			if all || keep[i] {
				n++
			}
		}
		var b []byte
		switch kind {
		case 0, 1:
			b = vrt.PutListHdr(b, vrt.TI32, n)
		case 2:
			b = vrt.PutMapHdr(b, vrt.TI32, vrt.TI32, n)
		}
		for i := range vals {
			if !(all || keep[i]) {
				continue
			}
			switch kind {
			case 0, 1:
				b = vrt.PutBE32(b, vals[i])
			case 2:
				b = vrt.PutBE32(vrt.PutBE32(b, 100+i), vals[i])
			case 3:
				b = vrt.PutBE32(vrt.PutField(b, vrt.TI32, 1+i), vals[i])
			}
		}
		if kind == 3 {
			b = append(b, 0)
		}
		return b
	}
	t := []byte{vrt.TLIST, vrt.TSET, vrt.TMAP, vrt.TSTRUCT}[kind]
	src := enc(true)
	opts := &Options{}
	root := PathNode{Node: NewNode(thrift.Type(t), src)}
	vrt.Assert(root.Load(false, opts) == nil, "C05.clear.load.noerror")
	vrt.Assert(len(root.Next) == cnt, "C05.clear.children.count")
	if len(root.Next) != cnt {
		return
	}
	for i := range keep {
		if !keep[i] {
			root.Next[i].ResetValue()
		}
	}
	out, err := root.Marshal(opts)
	vrt.Assert(err == nil, "C05.clear.marshal.noerror")
	if err != nil {
		return
	}
	vrt.Reach("marshalled")
	want := enc(false)
	vrt.Assert(vrt.TWellFormed(out, t, 3), "C05.clear.marshal.wellformed")
	vrt.Assert(vrt.BytesEq(out, 0, len(out), want, 0, len(want)), "C05.clear.marshal.remaining-children")
}

func init() { vrt.Register("VerifC05_EditIntKey", VerifC05_EditIntKey) }

// VerifC05_EditIntKey: after Load of a map<i64,byte> of CNT entries (keys symbolic in {0..7} + {0, 2^32}: keys
// that agree modulo 2^32 and modulo the hash size are included), GetByInt / SetByInt address exactly the entry
// of the full 64-bit key and Marshal returns the edited map.
func VerifC05_EditIntKey() {
	cnt := vrt.Param("CNT")
	mode := vrt.Param("MODE")
	keys := make([]int64, cnt)
	vals := make([]byte, cnt)
	b := vrt.PutMapHdr(nil, vrt.TI64, vrt.TBYTE, cnt)
	for i := 0; i < cnt; i++ {
		keys[i] = int64(vrt.U8()&7) | int64(vrt.U8()&1)<<32
		vals[i] = vrt.U8()
		b = append(vrt.PutBE64(b, keys[i]), vals[i])
		for j := 0; j < i; j++ {
			vrt.Assume(keys[j] != keys[i])
		}
	}
	oa, ob := verifLowerThresholds()
	defer verifRestoreThresholds(oa, ob)
	opts := verifOpts(mode)
	root := PathNode{Node: NewNode(thrift.MAP, b)}
	vrt.Assert(root.Load(false, opts) == nil, "C05.intkey.load.noerror")
	want := int64(vrt.U8()&7) | int64(vrt.U8()&1)<<32
	idx := -1
	for i := range keys {
		if keys[i] == want {
			idx = i
		}
	}
	got := root.GetByInt(int(want), opts)
	if idx >= 0 {
		vrt.Reach("lookup.present")
		vrt.Assert(got != nil, "C05.intkey.get.present.found")
		if got != nil {
			r := got.Node.Raw()
			vrt.Assert(len(r) == 1 && r[0] == vals[idx], "C05.intkey.get.present.value")
		}
	} else {
		vrt.Reach("lookup.absent")
		vrt.Assert(got == nil, "C05.intkey.get.absent.nil")
	}
	nv := vrt.U8()
	exist, err := root.SetByInt(int(want), NewNodeByte(nv), opts)
	vrt.Assert(err == nil, "C05.intkey.set.noerror")
	vrt.Assert(exist == (idx >= 0), "C05.intkey.set.exist-flag")
	out, err := root.Marshal(opts)
	vrt.Assert(err == nil, "C05.intkey.marshal.noerror")
	if err != nil {
		return
	}
	ents, ok := vrt.TChildren(out, vrt.TMAP, 2)
	vrt.Assert(ok, "C05.intkey.marshal.wellformed")
	if !ok {
		return
	}
	vrt.Reach("marshalled")
	n := cnt
	if idx < 0 {
		n++
	}
	vrt.Assert(len(ents) == n, "C05.intkey.marshal.count")
	// every original entry is present with its (possibly edited) value, and the new key if inserted
	for i := 0; i <= cnt; i++ {
		var k int64
		var v byte
		if i < cnt {
			k, v = keys[i], vals[i]
			if i == idx {
				v = nv
			}
		} else {
			if idx >= 0 {
				break
			}
			k, v = want, nv
		}
		kb := vrt.PutBE64(nil, k)
		found := false
		for _, e := range ents {
			if vrt.BytesEq(out, e.KStart, e.KEnd, kb, 0, 8) && e.End-e.Start == 1 && out[e.Start] == v {
				found = true
			}
		}
		vrt.Assert(found, "C05.intkey.marshal.entry")
	}
}
