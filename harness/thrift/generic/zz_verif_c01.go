package generic

import (
	vrt "github.com/cloudwego/dynamicgo/internal/zzverif"
	"github.com/cloudwego/dynamicgo/thrift"
)

func init() {
	vrt.Register("VerifC01_StructField", VerifC01_StructField)
	vrt.Register("VerifC01_ListIndex", VerifC01_ListIndex)
	vrt.Register("VerifC01_MapKey", VerifC01_MapKey)
}

const verifDepth = 4

// verifFound asserts that got is exactly the element e of buffer b.
func verifFound(got Node, b []byte, e vrt.TElem, label string) {
	vrt.Assert(!got.IsError(), label+".noerror")
	if got.IsError() {
		return
	}
	vrt.Assert(byte(got.Type()) == e.Typ, label+".type")
	vrt.Assert(vrt.SameSpan(got.Raw(), b, e.Start, e.End), label+".span")
}

func verifDistinctIDs(kids []vrt.TElem) {
	for i := range kids {
		for j := 0; j < i; j++ {
			vrt.Assume(kids[i].ID != kids[j].ID)
		}
	}
}

// VerifC01_StructField: every field lookup API on every well-formed struct of exactly N bytes.
func VerifC01_StructField() {
	n := vrt.Param("N")
	b := vrt.Bytes(n)
	kids, ok := vrt.TChildren(b, vrt.TSTRUCT, verifDepth)
	vrt.Assume(ok)
	verifDistinctIDs(kids)
	want := int16(vrt.U16())
	node := NewNode(thrift.STRUCT, b)
	idx := -1
	for i := range kids {
		if int16(kids[i].ID) == want {
			idx = i
		}
	}
	g1 := node.GetByPath(NewPathFieldId(thrift.FieldID(want)))
	g2 := node.Field(thrift.FieldID(want))
	if idx >= 0 {
		vrt.Reach("found")
		verifFound(g1, b, kids[idx], "C01.struct.getbypath.found")
		verifFound(g2, b, kids[idx], "C01.struct.field.found")
	} else {
		vrt.Reach("absent")
		vrt.Assert(g1.IsErrNotFound(), "C01.struct.getbypath.absent")
		vrt.Assert(g2.IsErrNotFound(), "C01.struct.field.absent")
	}
	// wrong-kind paths yield errors, never a result
	vrt.Assert(node.Index(0).IsError(), "C01.struct.index.wrongkind")
	vrt.Assert(node.GetByStr("a").IsError(), "C01.struct.getbystr.wrongkind")
	vrt.Assert(node.GetByInt(1).IsError(), "C01.struct.getbyint.wrongkind")
}

// VerifC01_ListIndex: Index / GetByPath(index) on every well-formed list or set of exactly N bytes.
func VerifC01_ListIndex() {
	n := vrt.Param("N")
	b := vrt.Bytes(n)
	tt := byte(vrt.TLIST)
	if vrt.Param("SET") != 0 {
		tt = vrt.TSET
	}
	kids, ok := vrt.TChildren(b, tt, verifDepth)
	vrt.Assume(ok)
	want := vrt.Int()
	node := NewNode(thrift.Type(tt), b)
	g1 := node.GetByPath(NewPathIndex(want))
	g2 := node.Index(want)
	if want >= 0 && want < len(kids) {
		vrt.Reach("found")
		e := kids[vrt.Conc(want)]
		verifFound(g1, b, e, "C01.list.getbypath.found")
		verifFound(g2, b, e, "C01.list.index.found")
	} else if want >= len(kids) {
		vrt.Reach("absent")
		vrt.Assert(g1.IsErrNotFound(), "C01.list.getbypath.absent")
		vrt.Assert(g2.IsError(), "C01.list.index.absent")
	} else {
		vrt.Reach("negative")
		vrt.Assert(g1.IsError(), "C01.list.getbypath.negative")
		vrt.Assert(g2.IsError(), "C01.list.index.negative")
	}
	vrt.Assert(node.Field(1).IsError(), "C01.list.field.wrongkind")
	vrt.Assert(node.GetByStr("a").IsError(), "C01.list.getbystr.wrongkind")
}

// VerifC01_MapKey: string-, int- and raw-keyed lookups on every well-formed map of exactly N bytes.
func VerifC01_MapKey() {
	n := vrt.Param("N")
	b := vrt.Bytes(n)
	kids, ok := vrt.TChildren(b, vrt.TMAP, verifDepth)
	vrt.Assume(ok)
	// distinct keys
	for i := range kids {
		for j := 0; j < i; j++ {
			vrt.Assume(!vrt.BytesEq(b, kids[i].KStart, kids[i].KEnd, b, kids[j].KStart, kids[j].KEnd))
		}
	}
	node := NewNode(thrift.MAP, b)
	kt := b[0]
	switch {
	case kt == vrt.TSTRING:
		vrt.Reach("strkey")
		kl := vrt.Param("KL")
		key := vrt.Bytes(kl)
		idx := -1
		for i := range kids {
			if vrt.BytesEq(b, kids[i].KStart+4, kids[i].KEnd, key, 0, kl) {
				idx = i
			}
		}
		g1 := node.GetByPath(NewPathStrKey(string(key)))
		g2 := node.GetByStr(string(key))
		if idx >= 0 {
			vrt.Reach("str.found")
			verifFound(g1, b, kids[idx], "C01.map.getbypath.str.found")
			verifFound(g2, b, kids[idx], "C01.map.getbystr.found")
		} else {
			vrt.Reach("str.absent")
			vrt.Assert(g1.IsErrNotFound(), "C01.map.getbypath.str.absent")
			vrt.Assert(g2.IsErrNotFound(), "C01.map.getbystr.absent")
		}
		vrt.Assert(node.GetByInt(1).IsError(), "C01.map.getbyint.wrongkey")
	case kt == vrt.TBYTE || kt == vrt.TI16 || kt == vrt.TI32 || kt == vrt.TI64:
		vrt.Reach("intkey")
		want := vrt.Int()
		idx := -1
		for i := range kids {
			var kv int
			switch kt {
			case vrt.TBYTE:
				kv = int(b[kids[i].KStart]) // the public API exposes thrift BYTE as Go uint8 (ReadByte returns byte)
			case vrt.TI16:
				kv = int(int16(vrt.BE16(b, kids[i].KStart)))
			case vrt.TI32:
				kv = vrt.BE32(b, kids[i].KStart)
			default:
				kv = int(vrt.BE64(b, kids[i].KStart))
			}
			if kv == want {
				idx = i
			}
		}
		g1 := node.GetByPath(NewPathIntKey(want))
		g2 := node.GetByInt(want)
		if idx >= 0 {
			vrt.Reach("int.found")
			verifFound(g1, b, kids[idx], "C01.map.getbypath.int.found")
			verifFound(g2, b, kids[idx], "C01.map.getbyint.found")
		} else {
			vrt.Reach("int.absent")
			vrt.Assert(g1.IsErrNotFound(), "C01.map.getbypath.int.absent")
			vrt.Assert(g2.IsErrNotFound(), "C01.map.getbyint.absent")
		}
		vrt.Assert(node.GetByStr("a").IsError(), "C01.map.getbystr.wrongkey")
	default:
		vrt.Reach("otherkey")
	}
	// raw key lookup works for every key type
	if len(kids) > 0 {
		k := kids[len(kids)-1]
		raw := append([]byte(nil), b[k.KStart:k.KEnd]...)
		verifFound(node.GetByRaw(raw), b, k, "C01.map.getbyraw.found")
		verifFound(node.GetByPath(NewPathBinKey(raw)), b, k, "C01.map.getbypath.bin.found")
	}
	vrt.Assert(node.Field(1).IsError(), "C01.map.field.wrongkind")
	vrt.Assert(node.Index(0).IsError(), "C01.map.index.wrongkind")
}
