#!/usr/bin/env python3
"""Regenerates the generated part of DESIGN.md (between the GENERATED markers) from the
check specifications, the known-findings file and the seeded-change records, so that the
document cannot drift from what the checks actually run."""
import json, glob, os, re, subprocess

root = os.path.dirname(os.path.dirname(os.path.abspath(__file__)))
out = []

def w(s=""):
    out.append(s)

# ---- per-check inventory ----
w("### A.1 Check inventory (from `checks/*.json`)")
w()
for f in sorted(glob.glob(os.path.join(root, "checks", "C*.json"))):
    spec = json.load(open(f))
    w("**%s**" % spec["property"])
    w()
    w("| harness id | package / entry | configuration | parameters quick → thorough |")
    w("|---|---|---|---|")
    for h in spec["harnesses"]:
        ps = []
        for k, v in sorted(h.get("params", {}).items()):
            q = v.get("quick", "")
            t = v.get("thorough", q)
            ps.append("%s=%s" % (k, q) if q == t else "%s=%s → %s" % (k, q, t))
        cfg = h.get("config", "amd64")
        if h.get("no_stubs"):
            cfg += ", real text codecs"
        if h.get("tiers"):
            cfg += ", tiers=" + "/".join(h["tiers"])
        w("| %s | `%s` `%s` | %s | %s |" % (h["id"], h["pkg"], h["entry"], cfg, "; ".join(ps)))
    w()
    if spec.get("assumptions"):
        w("Assumptions: " + " • ".join(spec["assumptions"]))
        w()
    if spec.get("outside_claim"):
        w("Outside the claim: " + " • ".join(spec["outside_claim"]))
        w()
    if spec.get("stubs_used"):
        w("Stubs: " + " • ".join(spec["stubs_used"]))
        w()

# ---- findings ----
kf = json.load(open(os.path.join(root, "known_findings.json")))
w("### A.2 Genuine defects found by the checks (from `known_findings.json`)")
w()
w("Repaired in /repo (`fix:` commits; a `fixed` entry suppresses nothing):")
w()
w("| property | commit | what failed | first reported by (harness / assertion) |")
w("|---|---|---|---|")
seen = set()
for k in kf:
    if k["status"] != "fixed":
        continue
    what = re.sub(r"^fixed: property=\S+ \S+ ", "", k["what"])
    key = (k["property"], k.get("commit"), what)
    if key in seen:
        continue
    seen.add(key)
    w("| %s | %s | %s | %s / `%s` |" % (k["property"], k.get("commit", ""), what.replace("|", "\\|"), k["match"]["harness"], k["match"]["assert"]))
w()
w("Recorded, not repaired (each check prints `KNOWN-FINDING:` for these and exits 0; any other violation is reported):")
w()
w("| id | property | harness / assertion | what fails |")
w("|---|---|---|---|")
for k in kf:
    if k["status"] != "known":
        continue
    w("| %s | %s | %s / `%s` | %s |" % (k["id"], k["property"], k["match"]["harness"], k["match"]["assert"], k["what"].replace("|", "\\|")))
w()

# ---- seeded changes ----
w("### A.3 Seeded changes and which check reports them (from `seeded/*/meta.json`)")
w()
w("| seed | property | what it needs to manifest | reported by |")
w("|---|---|---|---|")
for f in sorted(glob.glob(os.path.join(root, "seeded", "*", "meta.json"))):
    m = json.load(open(f))
    det = m.get("detected_by") or m.get("detection") or "not evaluated"
    if isinstance(det, list):
        det = ", ".join(det)
    w("| %s | %s | %s | %s |" % (m["id"], m["property"], m.get("needs_to_manifest", "").replace("|", "\\|"), str(det).replace("|", "\\|")))
w()

p = os.path.join(root, "DESIGN.md")
s = open(p).read()
a = s.index("<!-- GENERATED:BEGIN -->") + len("<!-- GENERATED:BEGIN -->")
b = s.index("<!-- GENERATED:END -->")
s = s[:a] + "\n" + "\n".join(out) + "\n" + s[b:]
open(p, "w").write(s)
print("DESIGN.md appendix regenerated: %d lines" % len(out))
