package sym

import (
	"bufio"
	"fmt"
	"io"
	"os"
	"os/exec"
	"sort"
	"strconv"
	"strings"
	"time"
)

// Result of a solver query.
type Result int

const (
	Unsat Result = iota
	Sat
	Unknown
)

func (r Result) String() string { return [...]string{"unsat", "sat", "unknown"}[r] }

// Solver is one long-lived SMT solver process speaking SMT-LIB2 over a pipe.
type Solver struct {
	Name    string
	cmd     *exec.Cmd
	in      io.WriteCloser
	out     *bufio.Reader
	ctx     *Ctx
	gen     uint32
	log     io.Writer
	Queries int
	NSat    int
	NUnsat  int
	NUnk    int
	Slow    int
	Time    time.Duration
	timeout int // ms
	dead    bool
	// query recording for cross-solver check
	Record   bool
	RecordMax int
	Recorded []RecordedQuery
	buf      strings.Builder
	ndefs    int
	ufs      map[string]uint32
}

// RecordedQuery is a standalone SMT-LIB2 script with its verdict.
type RecordedQuery struct {
	Script string
	Res    Result
}

var solverArgs = map[string][]string{
	"z3":     {"z3", "-in"},
	"z3-new": {"z3-new", "-in"},
	"cvc5":   {"cvc5", "--incremental", "--lang=smt2", "--produce-models"},
}

// NewSolver starts a solver process. kind is z3 | z3-new | cvc5.
func NewSolver(ctx *Ctx, kind string, timeoutMs int) (*Solver, error) {
	s := &Solver{Name: kind, ctx: ctx, timeout: timeoutMs}
	if err := s.start(); err != nil {
		return nil, err
	}
	return s, nil
}

func (s *Solver) start() error {
	args := solverArgs[s.Name]
	if args == nil {
		return fmt.Errorf("unknown solver %q", s.Name)
	}
	s.cmd = exec.Command(args[0], args[1:]...)
	in, err := s.cmd.StdinPipe()
	if err != nil {
		return err
	}
	out, err := s.cmd.StdoutPipe()
	if err != nil {
		return err
	}
	s.cmd.Stderr = os.Stderr
	if err := s.cmd.Start(); err != nil {
		return err
	}
	s.in = in
	s.out = bufio.NewReaderSize(out, 1<<16)
	s.gen++
	if p := os.Getenv("VSYM_SMTLOG"); p != "" && s.log == nil {
		f, _ := os.Create(p)
		s.log = f
	}
	s.ndefs = 0
	s.dead = false
	s.send("(set-option :print-success false)\n")
	if s.Name == "cvc5" {
		s.send("(set-logic ALL)\n")
		s.send(fmt.Sprintf("(set-option :tlimit-per %d)\n", s.timeout))
	} else {
		s.send(fmt.Sprintf("(set-option :timeout %d)\n", s.timeout))
	}
	s.send("(set-option :produce-models true)\n")
	return nil
}

func (s *Solver) Close() {
	if s.cmd != nil && s.cmd.Process != nil {
		s.in.Close()
		s.cmd.Process.Kill()
		s.cmd.Wait()
	}
}

func (s *Solver) SetLog(w io.Writer) { s.log = w }

func (s *Solver) send(str string) {
	if s.log != nil {
		io.WriteString(s.log, str)
	}
	if _, err := io.WriteString(s.in, str); err != nil {
		s.dead = true
	}
}

func sortOf(w uint8) string {
	if w == 0 {
		return "Bool"
	}
	return "(_ BitVec " + strconv.Itoa(int(w)) + ")"
}

func bvlit(v uint64, w uint8) string {
	if w%4 == 0 {
		return fmt.Sprintf("#x%0*x", int(w/4), v&mask(w))
	}
	return fmt.Sprintf("#b%0*b", int(w), v&mask(w))
}

// ref returns the SMT text referring to t, emitting definitions as needed into sb.
func (s *Solver) ref(t *T, sb *strings.Builder) string {
	switch t.Op {
	case OConst:
		if t.W == 0 {
			if t.K != 0 {
				return "true"
			}
			return "false"
		}
		return bvlit(t.K, t.W)
	case OVar:
		if t.gen != s.gen {
			t.gen = s.gen
			fmt.Fprintf(sb, "(declare-const |%s| %s)\n", t.Name, sortOf(t.W))
		}
		return "|" + t.Name + "|"
	}
	if t.gen == s.gen {
		return "t" + strconv.Itoa(int(t.ID))
	}
	// iterative post-order to avoid deep recursion on long chains
	type fr struct {
		t *T
		i int
	}
	stack := []fr{{t, 0}}
	for len(stack) > 0 {
		f := &stack[len(stack)-1]
		x := f.t
		kids := x.kids()
		if f.i < len(kids) {
			k := kids[f.i]
			f.i++
			if k.Op != OConst && k.Op != OVar && k.gen != s.gen {
				stack = append(stack, fr{k, 0})
			} else if k.Op == OVar && k.gen != s.gen {
				s.ref(k, sb)
			}
			continue
		}
		stack = stack[:len(stack)-1]
		if x.gen == s.gen {
			continue
		}
		x.gen = s.gen
		s.ndefs++
		fmt.Fprintf(sb, "(define-fun t%d () %s %s)\n", x.ID, sortOf(x.W), s.body(x, sb))
	}
	return "t" + strconv.Itoa(int(t.ID))
}

func (t *T) kids() []*T {
	if t.Op == OUF {
		return t.Args
	}
	var k []*T
	if t.A != nil {
		k = append(k, t.A)
	}
	if t.B != nil {
		k = append(k, t.B)
	}
	if t.C != nil {
		k = append(k, t.C)
	}
	return k
}

func fpSort(w uint8) string {
	if w == 32 {
		return "8 24"
	}
	return "11 53"
}

func (s *Solver) asFP(t *T, sb *strings.Builder) string {
	return "((_ to_fp " + fpSort(t.W) + ") " + s.ref(t, sb) + ")"
}

// body prints the defining expression of compound term x (children already defined).
func (s *Solver) body(x *T, sb *strings.Builder) string {
	r := func(t *T) string { return s.ref(t, sb) }
	switch x.Op {
	case OExtract:
		return fmt.Sprintf("((_ extract %d %d) %s)", int(x.K)+int(x.W)-1, x.K, r(x.A))
	case OZExt:
		return fmt.Sprintf("((_ zero_extend %d) %s)", x.W-x.A.W, r(x.A))
	case OSExt:
		return fmt.Sprintf("((_ sign_extend %d) %s)", x.W-x.A.W, r(x.A))
	case OUF:
		key := "uf_" + x.Name
		if !s.ufDeclared(key) {
			var as []string
			for _, a := range x.Args {
				as = append(as, sortOf(a.W))
			}
			fmt.Fprintf(sb, "(declare-fun %s (%s) %s)\n", key, strings.Join(as, " "), sortOf(x.W))
			s.markUF(key)
		}
		var as []string
		for _, a := range x.Args {
			as = append(as, r(a))
		}
		return "(" + key + " " + strings.Join(as, " ") + ")"
	case OFAdd, OFSub, OFMul, OFDiv:
		op := map[Op]string{OFAdd: "fp.add", OFSub: "fp.sub", OFMul: "fp.mul", OFDiv: "fp.div"}[x.Op]
		return fmt.Sprintf("(fp.to_ieee_bv (%s RNE %s %s))", op, s.asFP(x.A, sb), s.asFP(x.B, sb))
	case OFLt:
		return fmt.Sprintf("(fp.lt %s %s)", s.asFP(x.A, sb), s.asFP(x.B, sb))
	case OFLe:
		return fmt.Sprintf("(fp.leq %s %s)", s.asFP(x.A, sb), s.asFP(x.B, sb))
	case OFEq:
		return fmt.Sprintf("(fp.eq %s %s)", s.asFP(x.A, sb), s.asFP(x.B, sb))
	case OFIsNaN:
		return fmt.Sprintf("(fp.isNaN %s)", s.asFP(x.A, sb))
	case OFCvt:
		return fmt.Sprintf("(fp.to_ieee_bv ((_ to_fp %s) RNE %s))", fpSort(x.W), s.asFP(x.A, sb))
	case OF2S:
		return fmt.Sprintf("((_ fp.to_sbv %d) RTZ %s)", x.W, s.asFP(x.A, sb))
	case OF2U:
		return fmt.Sprintf("((_ fp.to_ubv %d) RTZ %s)", x.W, s.asFP(x.A, sb))
	case OS2F:
		return fmt.Sprintf("(fp.to_ieee_bv ((_ to_fp %s) RNE %s))", fpSort(x.W), r(x.A))
	case OU2F:
		return fmt.Sprintf("(fp.to_ieee_bv ((_ to_fp_unsigned %s) RNE %s))", fpSort(x.W), r(x.A))
	}
	n := opNames[x.Op]
	if n == "" {
		panic(fmt.Sprintf("smt: cannot print op %d", x.Op))
	}
	out := "(" + n
	for _, k := range x.kids() {
		out += " " + r(k)
	}
	return out + ")"
}

var _ = time.Now

func (s *Solver) ufDeclared(k string) bool { return s.ufs[k] == s.gen && s.gen != 0 }
func (s *Solver) markUF(k string) {
	if s.ufs == nil {
		s.ufs = map[string]uint32{}
	}
	s.ufs[k] = s.gen
}

func (s *Solver) readLine() (string, error) {
	line, err := s.out.ReadString('\n')
	return strings.TrimSpace(line), err
}

// readSexp reads one balanced s-expression (possibly spanning lines).
func (s *Solver) readSexp() (string, error) {
	var sb strings.Builder
	depth := 0
	started := false
	inBar := false
	for {
		b, err := s.out.ReadByte()
		if err != nil {
			return sb.String(), err
		}
		sb.WriteByte(b)
		if b == '|' {
			inBar = !inBar
			continue
		}
		if inBar {
			continue
		}
		if b == '(' {
			depth++
			started = true
		} else if b == ')' {
			depth--
			if started && depth == 0 {
				return sb.String(), nil
			}
		} else if !started && b == '\n' && strings.TrimSpace(sb.String()) != "" {
			return sb.String(), nil
		}
	}
}

// Check decides sat(conj[0] ∧ conj[1] ∧ …). On Sat, values for `want` variables
// are stored in the returned model.
func (s *Solver) Check(conj []*T, want []*T) (Result, *Model) {
	start := time.Now()
	defer func() { s.Time += time.Since(start) }()
	s.Queries++
	if s.dead || s.ndefs > 200000 {
		s.Close()
		if err := s.start(); err != nil {
			s.NUnk++
			return Unknown, nil
		}
	}
	var defs strings.Builder
	var asserts strings.Builder
	for _, t := range conj {
		asserts.WriteString("(assert " + s.ref(t, &defs) + ")\n")
	}
	for _, v := range want {
		s.ref(v, &defs)
	}
	ufApps := collectUF(conj)
	s.send(defs.String())
	s.send("(push 1)\n" + asserts.String() + "(check-sat)\n")
	// watchdog: a solver that ignores its own timeout is killed and the query counts as unknown
	type lineRes struct {
		line string
		err  error
	}
	ch := make(chan lineRes, 1)
	go func() {
		l, e := s.readLine()
		for e == nil && l == "" {
			l, e = s.readLine()
		}
		ch <- lineRes{l, e}
	}()
	var line string
	var err error
	select {
	case r := <-ch:
		line, err = r.line, r.err
	case <-time.After(time.Duration(s.timeout)*time.Millisecond + 5*time.Second):
		s.Slow++
		if s.cmd != nil && s.cmd.Process != nil {
			s.cmd.Process.Kill()
		}
		r := <-ch
		line, err = r.line, fmt.Errorf("solver watchdog")
		_ = r
	}
	res := Unknown
	switch {
	case err != nil:
		s.dead = true
	case line == "sat":
		res = Sat
	case line == "unsat":
		res = Unsat
	case strings.HasPrefix(line, "(error"):
		fmt.Fprintf(os.Stderr, "solver %s error: %s\n", s.Name, line)
		s.dead = true // restart to resynchronise
	}
	var model *Model
	if res == Sat {
		model = NewModel()
		if len(want) > 0 {
			var q strings.Builder
			q.WriteString("(get-value (")
			for _, v := range want {
				q.WriteString("|" + v.Name + "| ")
			}
			q.WriteString("))\n")
			s.send(q.String())
			txt, err := s.readSexp()
			if err != nil || strings.Contains(txt, "(error") {
				s.dead = true
				res = Unknown
			} else {
				parseValues(txt, want, model)
			}
		}
		if res == Sat && len(ufApps) > 0 {
			var q strings.Builder
			q.WriteString("(get-value (")
			for _, u := range ufApps {
				q.WriteString("t" + strconv.Itoa(int(u.ID)) + " ")
			}
			q.WriteString("))\n")
			s.send(q.String())
			txt, err := s.readSexp()
			if err != nil || strings.Contains(txt, "(error") {
				s.dead = true
				res = Unknown
			} else {
				vals := parseValueList(txt, len(ufApps))
				// apps are sorted by ID, so arguments (smaller IDs) are evaluated first
				for i, u := range ufApps {
					if i < len(vals) {
						model.UF[s.ctx.ufKey(u, model)] = vals[i]
					}
				}
			}
		}
	}
	if !s.dead {
		s.send("(pop 1)\n")
	}
	switch res {
	case Sat:
		s.NSat++
	case Unsat:
		s.NUnsat++
	default:
		s.NUnk++
	}
	// keep a small sample of decided queries as standalone scripts (for the cross-solver diff): the
	// first RecordMax/2 sat and unsat ones that have at least two conjuncts
	if s.Record && (res == Sat || res == Unsat) && len(conj) >= 2 {
		max := s.RecordMax
		if max == 0 {
			max = 4
		}
		n := 0
		for _, q := range s.Recorded {
			if q.Res == res {
				n++
			}
		}
		if n < max/2 {
			s.Recorded = append(s.Recorded, RecordedQuery{Script: s.standalone(conj), Res: res})
		}
	}
	return res, model
}

// standalone renders a self-contained script for the conjunction (cross-solver check).
func (s *Solver) standalone(conj []*T) string {
	tmp := &Solver{ctx: s.ctx, gen: 1 << 30}
	// use a private generation marker: temporarily bump all gens via a scratch map
	saved := map[*T]uint32{}
	var sb strings.Builder
	var walk func(t *T)
	walk = func(t *T) {
		if _, ok := saved[t]; ok {
			return
		}
		saved[t] = t.gen
		t.gen = 0
		for _, k := range t.kids() {
			walk(k)
		}
	}
	for _, t := range conj {
		walk(t)
	}
	var asserts strings.Builder
	for _, t := range conj {
		asserts.WriteString("(assert " + tmp.ref(t, &sb) + ")\n")
	}
	for t, g := range saved {
		t.gen = g
	}
	return sb.String() + asserts.String() + "(check-sat)\n"
}

func parseValues(txt string, want []*T, m *Model) {
	// format: ((|name| #x..) (|name| true) ...) ; values may also be (_ bvN w)
	byName := map[string]*T{}
	for _, v := range want {
		byName[v.Name] = v
	}
	i := 0
	n := len(txt)
	next := func() string { // token
		for i < n && (txt[i] == ' ' || txt[i] == '\n' || txt[i] == '\t' || txt[i] == '\r') {
			i++
		}
		if i >= n {
			return ""
		}
		if txt[i] == '(' || txt[i] == ')' {
			i++
			return txt[i-1 : i]
		}
		if txt[i] == '|' {
			j := strings.IndexByte(txt[i+1:], '|')
			tok := txt[i+1 : i+1+j]
			i += j + 2
			return tok
		}
		j := i
		for j < n && !strings.ContainsRune(" \n\t\r()", rune(txt[j])) {
			j++
		}
		tok := txt[i:j]
		i = j
		return tok
	}
	if next() != "(" {
		return
	}
	for {
		tok := next()
		if tok != "(" {
			return
		}
		name := next()
		val := next()
		var v uint64
		switch {
		case val == "true":
			v = 1
		case val == "false":
			v = 0
		case strings.HasPrefix(val, "#x"):
			v, _ = strconv.ParseUint(val[2:], 16, 64)
		case strings.HasPrefix(val, "#b"):
			v, _ = strconv.ParseUint(val[2:], 2, 64)
		case val == "(":
			// (_ bv123 8)
			next() // _
			bv := next()
			next() // width
			next() // )
			v, _ = strconv.ParseUint(strings.TrimPrefix(bv, "bv"), 10, 64)
		}
		next() // )
		if t := byName[name]; t != nil {
			m.V[t] = v
		}
	}
}

// hasUF reports (memoised on the immutable term) whether t contains a UF application.
func hasUF(t *T) bool {
	if t == nil || t.Op == OConst || t.Op == OVar {
		return false
	}
	if t.ufState != 0 {
		return t.ufState == 2
	}
	r := t.Op == OUF
	if !r {
		for _, k := range t.kids() {
			if hasUF(k) {
				r = true
				break
			}
		}
	}
	if r {
		t.ufState = 2
	} else {
		t.ufState = 1
	}
	return r
}

// collectUF lists the uninterpreted-function applications occurring in conj, sorted by ID.
func collectUF(conj []*T) []*T {
	seen := map[*T]bool{}
	var out []*T
	var walk func(t *T)
	walk = func(t *T) {
		if t == nil || seen[t] || !hasUF(t) {
			return
		}
		seen[t] = true
		for _, k := range t.kids() {
			walk(k)
		}
		if t.Op == OUF {
			out = append(out, t)
		}
	}
	for _, t := range conj {
		walk(t)
	}
	sort.Slice(out, func(i, j int) bool { return out[i].ID < out[j].ID })
	return out
}

// parseValueList parses ((expr val) (expr val) ...) returning the values in order.
func parseValueList(txt string, n int) []uint64 {
	var out []uint64
	// values are the last token before each closing of a pair; scan for #x / #b / true / false tokens
	// at depth 2 end.  Simple approach: split pairs by tracking depth.
	depth := 0
	start := -1
	for i := 0; i < len(txt); i++ {
		switch txt[i] {
		case '(':
			depth++
			if depth == 2 {
				start = i
			}
		case ')':
			if depth == 2 && start >= 0 {
				pair := txt[start+1 : i]
				// value = last whitespace-separated token (or "(_ bvN w)")
				pair = strings.TrimSpace(pair)
				var v uint64
				if strings.HasSuffix(pair, ")") {
					// (_ bv123 8)
					j := strings.LastIndex(pair, "(_ bv")
					if j >= 0 {
						fmt.Sscanf(pair[j+5:], "%d", &v)
					}
				} else {
					k := strings.LastIndexAny(pair, " \n\t")
					tok := pair[k+1:]
					switch {
					case tok == "true":
						v = 1
					case strings.HasPrefix(tok, "#x"):
						v, _ = strconv.ParseUint(tok[2:], 16, 64)
					case strings.HasPrefix(tok, "#b"):
						v, _ = strconv.ParseUint(tok[2:], 2, 64)
					}
				}
				out = append(out, v)
				start = -1
			}
			depth--
		}
	}
	return out
}
