package protowire

import (
	"math"

	vrt "github.com/cloudwego/dynamicgo/internal/zzverif"
	gpw "google.golang.org/protobuf/encoding/protowire"
)

func init() {
	vrt.Register("VerifC20_AppendVarint", VerifC20_AppendVarint)
	vrt.Register("VerifC20_ConsumeVarint", VerifC20_ConsumeVarint)
}

// AppendVarint(v) is byte-identical to the reference for every uint64, and decodes back.
func VerifC20_AppendVarint() {
	v := vrt.U64()
	got := AppendVarint(nil, v)
	ref := gpw.AppendVarint(nil, v)
	vrt.Assert(len(got) == len(ref), "C20.varint.append.len")
	same := len(got) == len(ref)
	for i := 0; same && i < len(got); i++ {
		if got[i] != ref[i] {
			same = false
		}
	}
	vrt.Assert(same, "C20.varint.append.bytes")
	vrt.Assert(SizeVarint(v) == len(got), "C20.varint.size")
	back, n := ConsumeVarint(got)
	vrt.Assert(n == len(got) && back == v, "C20.varint.roundtrip")
	vrt.Reach("done")
}

// ConsumeVarint agrees with the reference on every byte string of length 0..N.
func VerifC20_ConsumeVarint() {
	n := vrt.Param("N")
	b := vrt.Bytes(n)
	v1, n1 := ConsumeVarint(b)
	v2, n2 := gpw.ConsumeVarint(b)
	if n2 >= 0 {
		vrt.Reach("ok")
		vrt.Assert(n1 == n2 && v1 == v2, "C20.varint.consume.ok")
	} else {
		vrt.Reach("err")
		vrt.Assert(n1 < 0, "C20.varint.consume.err")
	}
}

func init() {
	vrt.Register("VerifC20_Kinds", VerifC20_Kinds)
	vrt.Register("VerifC20_Fixed", VerifC20_Fixed)
	vrt.Register("VerifC20_Bytes", VerifC20_Bytes)
}

func verifSame(a, b []byte) bool {
	if len(a) != len(b) {
		return false
	}
	for i := range a {
		if a[i] != b[i] {
			return false
		}
	}
	return true
}

// VerifC20_Kinds: every varint-coded kind: encoder byte-identical to the reference encoding of the
// same value, decoder inverse, for every value of the kind (one solver query each, no enumeration).
func VerifC20_Kinds() {
	var enc BinaryEncoder
	var dec BinaryDecoder
	u64 := vrt.U64()
	u32 := vrt.U32()
	switch vrt.Param("K") {
	case 0: // int32 / enum: sign-extended to 64 bits
		v := int32(u32)
		b := enc.EncodeInt32(nil, v)
		vrt.Assert(verifSame(b, gpw.AppendVarint(nil, uint64(int64(v)))), "C20.kind.int32.encoding")
		r, n := dec.DecodeInt32(b)
		vrt.Assert(r == v && n == len(b), "C20.kind.int32.roundtrip")
		b2 := enc.EncodeEnum(nil, v)
		vrt.Assert(verifSame(b2, gpw.AppendVarint(nil, uint64(int64(v)))), "C20.kind.enum.encoding")
	case 1:
		v := int32(u32)
		b := enc.EncodeSint32(nil, v)
		vrt.Assert(verifSame(b, gpw.AppendVarint(nil, gpw.EncodeZigZag(int64(v)))), "C20.kind.sint32.encoding")
		r, n := dec.DecodeSint32(b)
		vrt.Assert(r == v && n == len(b), "C20.kind.sint32.roundtrip")
	case 2:
		b := enc.EncodeUint32(nil, u32)
		vrt.Assert(verifSame(b, gpw.AppendVarint(nil, uint64(u32))), "C20.kind.uint32.encoding")
		r, n := dec.DecodeUint32(b)
		vrt.Assert(r == u32 && n == len(b), "C20.kind.uint32.roundtrip")
	case 3:
		v := int64(u64)
		b := enc.EncodeInt64(nil, v)
		vrt.Assert(verifSame(b, gpw.AppendVarint(nil, u64)), "C20.kind.int64.encoding")
		r, n := dec.DecodeInt64(b)
		vrt.Assert(r == v && n == len(b), "C20.kind.int64.roundtrip")
	case 4:
		v := int64(u64)
		b := enc.EncodeSint64(nil, v)
		vrt.Assert(verifSame(b, gpw.AppendVarint(nil, gpw.EncodeZigZag(v))), "C20.kind.sint64.encoding")
		r, n := dec.DecodeSint64(b)
		vrt.Assert(r == v && n == len(b), "C20.kind.sint64.roundtrip")
		vrt.Assert(EncodeZigZag(v) == gpw.EncodeZigZag(v), "C20.zigzag.encode")
		vrt.Assert(DecodeZigZag(u64) == gpw.DecodeZigZag(u64), "C20.zigzag.decode")
		vrt.Assert(DecodeZigZag(EncodeZigZag(v)) == v, "C20.zigzag.inverse")
	case 5:
		b := enc.EncodeUint64(nil, u64)
		vrt.Assert(verifSame(b, gpw.AppendVarint(nil, u64)), "C20.kind.uint64.encoding")
		r, n := dec.DecodeUint64(b)
		vrt.Assert(r == u64 && n == len(b), "C20.kind.uint64.roundtrip")
	case 6:
		v := vrt.Bool()
		b := enc.EncodeBool(nil, v)
		vrt.Assert(verifSame(b, gpw.AppendVarint(nil, gpw.EncodeBool(v))), "C20.kind.bool.encoding")
		r, n := dec.DecodeBool(b)
		vrt.Assert(r == v && n == len(b), "C20.kind.bool.roundtrip")
	}
	vrt.Reach("done")
}

// VerifC20_Fixed: fixed-width kinds and the fixed decoders on arbitrary short inputs.
func VerifC20_Fixed() {
	var enc BinaryEncoder
	var dec BinaryDecoder
	u64 := vrt.U64()
	u32 := vrt.U32()
	b := enc.EncodeFixed32(nil, u32)
	vrt.Assert(verifSame(b, gpw.AppendFixed32(nil, u32)), "C20.kind.fixed32.encoding")
	r32, n := dec.DecodeFixed32(b)
	vrt.Assert(r32 == u32 && n == 4, "C20.kind.fixed32.roundtrip")
	b = enc.EncodeSfixed32(nil, int32(u32))
	vrt.Assert(verifSame(b, gpw.AppendFixed32(nil, u32)), "C20.kind.sfixed32.encoding")
	s32, n := dec.DecodeSfixed32(b)
	vrt.Assert(s32 == int32(u32) && n == 4, "C20.kind.sfixed32.roundtrip")
	b = enc.EncodeFloat32(nil, math.Float32frombits(u32))
	vrt.Assert(verifSame(b, gpw.AppendFixed32(nil, u32)), "C20.kind.float.encoding")
	f32, n := dec.DecodeFloat32(b)
	vrt.Assert(math.Float32bits(f32) == u32 && n == 4, "C20.kind.float.roundtrip")
	b = enc.EncodeFixed64(nil, u64)
	vrt.Assert(verifSame(b, gpw.AppendFixed64(nil, u64)), "C20.kind.fixed64.encoding")
	r64, n := dec.DecodeFixed64(b)
	vrt.Assert(r64 == u64 && n == 8, "C20.kind.fixed64.roundtrip")
	b = enc.EncodeSfixed64(nil, int64(u64))
	vrt.Assert(verifSame(b, gpw.AppendFixed64(nil, u64)), "C20.kind.sfixed64.encoding")
	s64, n := dec.DecodeSfixed64(b)
	vrt.Assert(s64 == int64(u64) && n == 8, "C20.kind.sfixed64.roundtrip")
	b = enc.EncodeDouble(nil, math.Float64frombits(u64))
	vrt.Assert(verifSame(b, gpw.AppendFixed64(nil, u64)), "C20.kind.double.encoding")
	f64, n := dec.DecodeDouble(b)
	vrt.Assert(math.Float64bits(f64) == u64 && n == 8, "C20.kind.double.roundtrip")
	// decoders on arbitrary short inputs agree with the reference on (value, consumed / error)
	in := vrt.Bytes(vrt.Param("N"))
	v1, n1 := ConsumeFixed32(in)
	v2, n2 := gpw.ConsumeFixed32(in)
	vrt.Assert((n2 < 0 && n1 < 0) || (n1 == n2 && v1 == v2), "C20.fixed32.consume")
	w1, m1 := ConsumeFixed64(in)
	w2, m2 := gpw.ConsumeFixed64(in)
	vrt.Assert((m2 < 0 && m1 < 0) || (m1 == m2 && w1 == w2), "C20.fixed64.consume")
	vrt.Reach("done")
}

// VerifC20_Bytes: length-delimited encode/decode and ConsumeBytes on arbitrary inputs of N bytes.
func VerifC20_Bytes() {
	var enc BinaryEncoder
	var dec BinaryDecoder
	in := vrt.Bytes(vrt.Param("N"))
	v1, n1, all1 := ConsumeBytes(in)
	v2, n2 := gpw.ConsumeBytes(in)
	if n2 >= 0 {
		vrt.Reach("ok")
		vrt.Assert(all1 == n2 && verifSame(v1, v2), "C20.bytes.consume.ok")
		_ = n1
	} else {
		vrt.Reach("err")
		vrt.Assert(all1 < 0 || n1 < 0, "C20.bytes.consume.err")
	}
	s := vrt.Bytes(vrt.Param("L"))
	b := enc.EncodeBytes(nil, s)
	vrt.Assert(verifSame(b, gpw.AppendBytes(nil, s)), "C20.kind.bytes.encoding")
	b2 := enc.EncodeString(nil, string(s))
	vrt.Assert(verifSame(b2, gpw.AppendBytes(nil, s)), "C20.kind.string.encoding")
	rb, _, all := dec.DecodeBytes(b)
	vrt.Assert(all == len(b) && verifSame(rb, s), "C20.kind.bytes.roundtrip")
	rs, _, all := dec.DecodeString(b2)
	vrt.Assert(all == len(b2) && verifSame([]byte(rs), s), "C20.kind.string.roundtrip")
}
