#!/usr/bin/env python3
"""Regenerates /verif/MANIFEST.json from tools/claims.json (one entry per claimed property)."""
import json, os
root = os.path.dirname(os.path.dirname(os.path.abspath(__file__)))
props = [json.loads(l) for l in open(os.path.join(root, 'properties.jsonl'))]
claims = json.load(open(os.path.join(root, 'tools', 'claims.json')))
ENV = "GOFLAGS=-mod=mod GOPROXY=off GOSUMDB=off GOTOOLCHAIN=local"
checks, na = [], []
for p in props:
    pid = p['id']
    c = claims.get(pid)
    if not c or c.get('not_applicable'):
        na.append({"property_id": pid, "reason": (c or {}).get('not_applicable', 'no solver-based check built for this property yet')})
        continue
    checks.append({
        "property_id": pid,
        "quick_cmd": f"{ENV} bin/vsym check -p {pid} -tier quick",
        "thorough_cmd": f"{ENV} bin/vsym check -p {pid} -tier thorough",
        "evidence_file": f"/verif/evidence/{pid}.json",
        "replay_cmd_template": f"{ENV} bin/vsym replay {{path}}",
        "engine": "vsym",
        "level_claimed": {"category": "model_checking", "text": c['text'], "design_ref": c.get('design_ref', 'DESIGN.md §5 ' + pid)},
        "level_note": c['note'],
        "technique": c.get('technique', "bounded symbolic execution of the real go/ssa code, every branch/bounds/assertion query decided by an SMT solver (z3), counterexamples replayed natively"),
    })
m = {
    "version": 1,
    "setup_cmd": f"cd /verif/engine && {ENV} go build -o /verif/bin/vsym ./cmd/vsym",
    "hooks": {"guard": "verif", "enable": "none needed: harnesses are injected into the real packages with go/packages and `go test -overlay` overlays; /repo is not modified", "baseline_off_cmd": "cd /repo && go test -vet=off -count=1 ./...", "source_commits": [], "add_only": True},
    "engines": [{"name": "vsym", "path": "/verif/engine", "serves_properties": [c['property_id'] for c in checks], "kind_free_text": "path-forking symbolic interpreter for golang.org/x/tools/go/ssa with byte-granular unsafe memory model; SMT-LIB2 over z3 5.1 (z3-new), cross-checked with z3 4.8.12 / cvc5"}],
    "checks": checks,
    "not_applicable": na,
    "notes": "exit 0 = held within stated bounds (KNOWN-FINDING lines allowed), 1 = VIOLATION reproduced natively, 2 = inconclusive (engine limit / solver unknown / unconfirmed model)."
}
json.dump(m, open(os.path.join(root, 'MANIFEST.json'), 'w'), indent=1)
print("checks:", [c['property_id'] for c in checks], "n/a:", len(na))
