package binary

import (
	vrt "github.com/cloudwego/dynamicgo/internal/zzverif"
	"github.com/cloudwego/dynamicgo/proto"
	"github.com/cloudwego/dynamicgo/proto/protowire"
)

func init() {
	vrt.Register("VerifC06_ProtoSkip", VerifC06_ProtoSkip)
	vrt.Register("VerifC06_ProtoConsume", VerifC06_ProtoConsume)
	vrt.Register("VerifC06_ProtoReadDesc", VerifC06_ProtoReadDesc)
}

// VerifC06_ProtoConsume: the wire-level decoders on N arbitrary bytes.
func VerifC06_ProtoConsume() {
	b := vrt.Bytes(vrt.Param("N"))
	_, n := protowire.ConsumeVarint(b)
	vrt.Assert(n <= len(b), "C06.proto.consumevarint.n")
	v, n2, all := protowire.ConsumeBytes(b)
	if n2 >= 0 && all >= 0 {
		vrt.Reach("bytes.ok")
		vrt.Assert(all <= len(b) && vrt.InBuf(v, b), "C06.proto.consumebytes.in-buffer")
	} else {
		vrt.Reach("bytes.err")
	}
	_, n3 := protowire.ConsumeFixed32(b)
	_, n4 := protowire.ConsumeFixed64(b)
	vrt.Assert(n3 <= len(b) && n4 <= len(b), "C06.proto.consumefixed.n")
}

// VerifC06_ProtoSkip: Skip of every wire type, SkipAllElements, ReadString/ReadBytes on arbitrary bytes.
func VerifC06_ProtoSkip() {
	b := vrt.Bytes(vrt.Param("N"))
	switch vrt.Param("OP") {
	case 0:
		p := &BinaryProtocol{Buf: b}
		wt := proto.WireType(vrt.U8() & 7)
		if err := p.Skip(wt, false); err == nil {
			vrt.Reach("ok")
			vrt.Assert(p.Read >= 0 && p.Read <= len(b), "C06.proto.skip.cursor")
		} else {
			vrt.Reach("err")
		}
	case 1:
		p := &BinaryProtocol{Buf: b}
		if _, err := p.SkipAllElements(2, vrt.Bool()); err == nil {
			vrt.Reach("ok")
			vrt.Assert(p.Read >= 0 && p.Read <= len(b), "C06.proto.skipall.cursor")
		} else {
			vrt.Reach("err")
		}
	case 2:
		p := &BinaryProtocol{Buf: b}
		if s, err := p.ReadString(false); err == nil {
			vrt.Reach("ok")
			vrt.Assert(vrt.StrInBuf(s, b) && p.Read <= len(b), "C06.proto.readstring.in-buffer")
		} else {
			vrt.Reach("err")
		}
		q := &BinaryProtocol{Buf: b}
		if bs, err := q.ReadBytes(); err == nil {
			vrt.Assert(vrt.InBuf(bs, b) && q.Read <= len(b), "C06.proto.readbytes.in-buffer")
		}
	}
}

// VerifC06_ProtoReadDesc: the descriptor-driven reader on arbitrary bytes, schema
// message{int32 a=1; string s=2; repeated int32 xs=3; map<int32,string> m=4; M sub=5}.
func VerifC06_ProtoReadDesc() {
	b := vrt.Bytes(vrt.Param("N"))
	msg := proto.VerifNewMessage("M")
	proto.VerifAddField(msg, 1, "a", "a", proto.VerifBasic(proto.INT32), false)
	proto.VerifAddField(msg, 2, "s", "s", proto.VerifBasic(proto.STRING), false)
	proto.VerifAddField(msg, 3, "xs", "xs", proto.VerifBasic(proto.INT32), true)
	proto.VerifAddMap(msg, 4, "m", "m", proto.VerifBasic(proto.INT32), proto.VerifBasic(proto.STRING))
	proto.VerifAddField(msg, 5, "sub", "sub", msg, false)
	proto.VerifBuild(msg)
	p := &BinaryProtocol{Buf: b}
	_, err := p.ReadAnyWithDesc(msg, false, vrt.Bool(), vrt.Bool(), false)
	if err == nil {
		vrt.Reach("ok")
	} else {
		vrt.Reach("err")
	}
}
