package annotation

import (
	vrt "github.com/cloudwego/dynamicgo/internal/zzverif"
	"github.com/cloudwego/dynamicgo/meta"
	"github.com/cloudwego/dynamicgo/thrift"
	"github.com/cloudwego/thriftgo/parser"
)

func init() { vrt.Register("VerifC14_Alias", VerifC14_Alias) }

// VerifC14_Alias: struct S{1: string name (api.key = "alias1"); 2: i32 plain; 3: string other (api.key = "o")}
// parsed with MapFieldWay WAY: the keys FieldByKey answers are exactly the aliases (UseAlias), the field
// names (UseFieldName) or both (UseBoth); FieldById and Alias() do not depend on it.
func VerifC14_Alias() {
	way := meta.MapFieldWay(vrt.Param("WAY"))
	// (package init functions are not run by the engine)
	thrift.RegisterAnnotation(newKeyMappingAnnotation(thrift.MakeAnnoID(thrift.AnnoKindKeyMapping, thrift.AnnoScopeField, APIKey)), APIKeyName)
	key := func(v string) parser.Annotations { return parser.Annotations{{Key: APIKeyName, Values: []string{v}}} }
	main := &parser.Thrift{Filename: "main.thrift"}
	main.Structs = []*parser.StructLike{{Category: "struct", Name: "S", Fields: []*parser.Field{
		{ID: 1, Name: "name", Requiredness: parser.FieldType_Default, Type: &parser.Type{Name: "string"}, Annotations: key("alias1")},
		{ID: 2, Name: "plain", Requiredness: parser.FieldType_Default, Type: &parser.Type{Name: "i32"}},
		{ID: 3, Name: "other", Requiredness: parser.FieldType_Optional, Type: &parser.Type{Name: "string"}, Annotations: key("o")},
	}}}
	main.Services = []*parser.Service{{Name: "Svc", Functions: []*parser.Function{
		{Name: "Do", FunctionType: &parser.Type{Name: "S"}, Arguments: []*parser.Field{{ID: 1, Name: "req", Type: &parser.Type{Name: "S"}}}},
	}}}
	sd, err := thrift.VerifParse(main, thrift.Options{MapFieldWay: way})
	vrt.Assert(err == nil && sd != nil, "C14.alias.parse.noerror")
	if err != nil || sd == nil {
		return
	}
	vrt.Reach("parsed")
	st := sd.Functions()["Do"].Request().Struct().FieldById(1).Type().Struct()
	f1, f2, f3 := st.FieldById(1), st.FieldById(2), st.FieldById(3)
	vrt.Assert(f1 != nil && f2 != nil && f3 != nil, "C14.alias.by-id")
	if f1 == nil || f2 == nil || f3 == nil {
		return
	}
	vrt.Assert(f1.Alias() == "alias1" && f1.Name() == "name" && f2.Alias() == "plain" && f3.Alias() == "o", "C14.alias.alias-and-name")
	byAlias := way == meta.MapFieldUseAlias || way == meta.MapFieldUseBoth
	byName := way == meta.MapFieldUseFieldName || way == meta.MapFieldUseBoth
	expect := func(k string, want *thrift.FieldDescriptor, label string) {
		vrt.Assert(st.FieldByKey(k) == want, label)
	}
	if byAlias {
		expect("alias1", f1, "C14.alias.key.alias-found")
		expect("o", f3, "C14.alias.key.alias-found")
	} else {
		expect("alias1", nil, "C14.alias.key.alias-not-registered")
		expect("o", nil, "C14.alias.key.alias-not-registered")
	}
	if byName {
		expect("name", f1, "C14.alias.key.name-found")
		expect("other", f3, "C14.alias.key.name-found")
	} else {
		expect("name", nil, "C14.alias.key.name-not-registered")
		expect("other", nil, "C14.alias.key.name-not-registered")
	}
	expect("plain", f2, "C14.alias.key.unannotated-found")
	expect("nope", nil, "C14.alias.key.undeclared-nil")
}
