package sym

import (
	"fmt"
	"go/types"
	"strings"
	"time"

	"golang.org/x/tools/go/ssa"
)

// Outcome kinds of a finished path.
type OutKind int

const (
	OutReturn OutKind = iota
	OutPanic
	OutOOB
	OutAlloc
	OutAssert
	OutUnwind
	OutUnsupported
	OutInfeasible
	OutROWrite
)

var outNames = [...]string{"RETURN", "PANIC", "OOB", "ALLOC", "ASSERT", "UNWIND", "UNSUPPORTED", "INFEASIBLE", "ROWRITE"}

func (k OutKind) String() string { return outNames[k] }

// Outcome describes how a path ended.
type Outcome struct {
	Kind  OutKind
	Label string // assertion label / panic text / unsupported reason
	Site  string // function and position
	Model *Model
	Stack []string
}

// Object is a heap/stack/global allocation.
type Object struct {
	Size   *T
	Cells  map[int64]Cell
	Typ    types.Type
	Name   string
	RO     bool
	Poison string
	owner  int
	Map    *mapData
	Input  bool // harness input buffer (for span checks)
	Pooled bool // object has been Put into a sync.Pool
}

type Cell struct {
	N int8
	V Value
}

type mapEntry struct {
	key Value // normalised key (see mapKey)
	val Value
}

type mapData struct {
	entries []mapEntry
	typ     *types.Map
}

// Frame is one activation record.
type Frame struct {
	fn        *ssa.Function
	info      *fnInfo
	regs      []Value
	block     *ssa.BasicBlock
	prev      *ssa.BasicBlock
	pc        int
	defers    []deferred
	unwinding bool
	isDefer   bool // frame is a deferred call run by its parent
	result    Value
	hasResult bool
	onReturn  func(st *State, v Value) // for engine-initiated calls
	steps     int
}

type deferred struct {
	fn   Value
	args []Value
	// for invoke-mode defers
	method *types.Func
}

type panicInfo struct {
	val  Value
	text string
	site string
}

// NondetRec records one nondeterministic input, in call order (for replay).
type NondetRec struct {
	Kind string // u8,u16,u32,u64,bool,bytes
	Vars []*T
}

// State is one symbolic execution path.
type State struct {
	e       *Engine
	id      int
	frames  []*Frame
	objs    []*Object // path-local objects (id = nbase + index)
	nbase   int
	over    map[int]*Object // per-path copies of base objects
	overOwn bool
	pc      []*T
	subst   map[*T]*T
	bounds  map[*T][2]uint64 // unsigned [lo, hi] facts learned from branch conditions
	memo    map[*T]*T
	model   *Model
	panic   *panicInfo
	steps   int
	nondet  []NondetRec
	reached map[string]bool
	strObj  map[string]int
	strOwn  bool
	pools   map[int][]Value // sync.Pool object id -> values put
	poolOwn bool
	depth   int
	notes   []string
	asserts int
	ghost   map[string]Value
	ghosts  []ghostTok // scalar-encoder stub tokens (index+1 is printed as the placeholder)
	done    *Outcome
	started time.Time
}

// ghostTok records what a scalar text-encoder stub was asked to encode.
type ghostTok struct {
	kind  string // int | float | str | b64
	val   *T     // int value / float bits
	bytes []*T   // string / binary content
}

type forkReq struct{ cond *T }
type concReq struct {
	t   *T
	cap int
	why string
}
type endPath struct{ out Outcome }

func (st *State) top() *Frame { return st.frames[len(st.frames)-1] }

func (st *State) site() string {
	if len(st.frames) == 0 {
		return "?"
	}
	f := st.top()
	pos := ""
	if f.block != nil && f.pc < len(f.block.Instrs) {
		p := st.e.prog.Fset.Position(f.block.Instrs[f.pc].Pos())
		if p.IsValid() {
			fn := p.Filename
			if i := strings.LastIndex(fn, "/"); i >= 0 {
				if j := strings.LastIndex(fn[:i], "/"); j >= 0 {
					fn = fn[j+1:]
				}
			}
			pos = fmt.Sprintf(" %s:%d", fn, p.Line)
		}
	}
	return f.fn.String() + pos
}

func (st *State) stack() []string {
	var out []string
	for i := len(st.frames) - 1; i >= 0 && len(out) < 12; i-- {
		f := st.frames[i]
		pos := ""
		if f.block != nil && f.pc < len(f.block.Instrs) {
			p := st.e.prog.Fset.Position(f.block.Instrs[f.pc].Pos())
			if p.IsValid() {
				pos = fmt.Sprintf(" (%s:%d)", shortFile(p.Filename), p.Line)
			}
		}
		out = append(out, f.fn.String()+pos)
	}
	return out
}

func shortFile(fn string) string {
	if i := strings.LastIndex(fn, "/"); i >= 0 {
		if j := strings.LastIndex(fn[:i], "/"); j >= 0 {
			return fn[j+1:]
		}
	}
	return fn
}

func (st *State) end(kind OutKind, label string) {
	panic(endPath{Outcome{Kind: kind, Label: label, Site: st.site(), Stack: st.stack()}})
}

func (st *State) unsupported(format string, args ...interface{}) {
	st.end(OutUnsupported, fmt.Sprintf(format, args...))
}

// clone makes a copy-on-write copy of st. Both copies get fresh owner ids.
func (st *State) clone() *State {
	e := st.e
	n := *st
	e.nextState++
	n.id = e.nextState
	e.nextState++
	st.id = e.nextState
	n.frames = make([]*Frame, len(st.frames))
	for i, f := range st.frames {
		nf := *f
		nf.regs = append([]Value(nil), f.regs...)
		nf.defers = append([]deferred(nil), f.defers...)
		n.frames[i] = &nf
	}
	n.objs = append([]*Object(nil), st.objs...)
	n.pc = st.pc[:len(st.pc):len(st.pc)]
	st.pc = st.pc[:len(st.pc):len(st.pc)]
	n.subst = make(map[*T]*T, len(st.subst)+4)
	for k, v := range st.subst {
		n.subst[k] = v
	}
	n.memo = map[*T]*T{}
	if len(st.bounds) > 0 {
		n.bounds = make(map[*T][2]uint64, len(st.bounds)+2)
		for k, v := range st.bounds {
			n.bounds[k] = v
		}
	}
	n.nondet = st.nondet[:len(st.nondet):len(st.nondet)]
	st.nondet = st.nondet[:len(st.nondet):len(st.nondet)]
	n.notes = st.notes[:len(st.notes):len(st.notes)]
	n.ghosts = st.ghosts[:len(st.ghosts):len(st.ghosts)]
	st.ghosts = st.ghosts[:len(st.ghosts):len(st.ghosts)]
	n.reached = make(map[string]bool, len(st.reached))
	for k := range st.reached {
		n.reached[k] = true
	}
	n.overOwn = false
	st.overOwn = false
	n.strOwn = false
	st.strOwn = false
	n.poolOwn = false
	st.poolOwn = false
	if st.ghost != nil {
		n.ghost = make(map[string]Value, len(st.ghost))
		for k, v := range st.ghost {
			n.ghost[k] = v
		}
	}
	n.depth = st.depth + 1
	n.started = time.Time{}
	return &n
}

// ---- path condition ----

// simp applies the path's substitution to t.
func (st *State) simp(t *T) *T {
	if t.Op == OConst {
		return t
	}
	if len(st.subst) == 0 {
		return t
	}
	return st.e.ctx.Subst(t, st.subst, st.memo)
}

// addPC adds cond (assumed already feasible under st.model or about to be re-modelled).
func (st *State) addPC(cond *T) {
	c := st.e.ctx
	cond = st.simp(cond)
	if cond.IsTrue() {
		return
	}
	for _, cj := range Conjuncts(cond, nil) {
		st.pc = append(st.pc, cj)
		st.learn(cj, c.True)
	}
	st.memo = map[*T]*T{}
}

func (st *State) learn(cj *T, val *T) {
	c := st.e.ctx
	if cj.Op == OBNot {
		st.learn(cj.A, c.Bool(val.IsFalse()))
		return
	}
	st.subst[cj] = val
	if val.IsTrue() && cj.Op == OEq {
		a, b := cj.A, cj.B
		if a.IsConst() {
			a, b = b, a
		}
		if b.IsConst() && !a.IsConst() {
			st.subst[a] = b
		}
	}
	if cj.Op == OVar && cj.W == 0 {
		st.subst[cj] = val
	}
	if cj.Op == OUlt {
		a, b := cj.A, cj.B
		if val.IsTrue() { // a < b
			if b.IsConst() && b.K > 0 {
				st.setBound(a, 0, b.K-1)
			} else if a.IsConst() && a.K < mask(a.W) {
				st.setBound(b, a.K+1, mask(b.W))
			}
		} else { // a >= b
			if b.IsConst() {
				st.setBound(a, b.K, mask(a.W))
			} else if a.IsConst() {
				st.setBound(b, 0, a.K)
			}
		}
	}
	// ult(a,b)=false => ule(b,a) true is the same node via BNot canonical form; nothing else to learn
}

func (st *State) setBound(t *T, lo, hi uint64) {
	if t.IsConst() {
		return
	}
	if st.bounds == nil {
		st.bounds = map[*T][2]uint64{}
	}
	b, ok := st.bounds[t]
	if !ok {
		b = [2]uint64{0, mask(t.W)}
	}
	if lo > b[0] {
		b[0] = lo
	}
	if hi < b[1] {
		b[1] = hi
	}
	st.bounds[t] = b
}

// rangeOf returns conservative unsigned bounds of t on this path.
func (st *State) rangeOf(t *T) (uint64, uint64) {
	if t.IsConst() {
		return t.K, t.K
	}
	lo, hi := staticRange(t, 0)
	if b, ok := st.bounds[t]; ok {
		if b[0] > lo {
			lo = b[0]
		}
		if b[1] < hi {
			hi = b[1]
		}
	}
	switch t.Op {
	case OZExt:
		l2, h2 := st.rangeOf(t.A)
		if l2 > lo {
			lo = l2
		}
		if h2 < hi {
			hi = h2
		}
	case OIte:
		l1, h1 := st.rangeOf(t.B)
		l2, h2 := st.rangeOf(t.C)
		if l2 < l1 {
			l1 = l2
		}
		if h2 > h1 {
			h1 = h2
		}
		if l1 > lo {
			lo = l1
		}
		if h1 < hi {
			hi = h1
		}
	case OAdd:
		if t.B.IsConst() {
			l2, h2 := st.rangeOf(t.A)
			if h2+t.B.K >= h2 && h2+t.B.K <= mask(t.W) { // no wrap
				if l2+t.B.K > lo {
					lo = l2 + t.B.K
				}
				if h2+t.B.K < hi {
					hi = h2 + t.B.K
				}
			}
		}
	}
	return lo, hi
}

// foldBounds decides comparisons that the learned interval facts already settle.
func (st *State) foldBounds(cond *T) *T {
	c := st.e.ctx
	switch cond.Op {
	case OUlt:
		la, ha := st.rangeOf(cond.A)
		lb, hb := st.rangeOf(cond.B)
		if ha < lb {
			return c.True
		}
		if la >= hb {
			return c.False
		}
	case OEq:
		if cond.A.W > 0 {
			la, ha := st.rangeOf(cond.A)
			lb, hb := st.rangeOf(cond.B)
			if ha < lb || hb < la {
				return c.False
			}
		}
	case OBNot:
		r := st.foldBounds(cond.A)
		if r != cond.A {
			return c.BNot(r)
		}
	case OBAnd:
		a, b := st.foldBounds(cond.A), st.foldBounds(cond.B)
		if a != cond.A || b != cond.B {
			return c.BAnd(a, b)
		}
	case OBOr:
		a, b := st.foldBounds(cond.A), st.foldBounds(cond.B)
		if a != cond.A || b != cond.B {
			return c.BOr(a, b)
		}
	}
	return cond
}

// decide returns the truth of cond on this path, forking if both are feasible.
func (st *State) decide(cond *T) bool {
	cond = st.simp(cond)
	if cond.Op != OConst && len(st.bounds) > 0 {
		cond = st.foldBounds(cond)
		// the folded form may be one whose decision is already recorded (see handleFork)
		if v, ok := st.subst[cond]; ok && v.Op == OConst {
			cond = v
		}
	}
	if cond.Op == OConst {
		return cond.K != 0
	}
	panic(forkReq{cond})
}

// concretize returns the concrete value of t on this path, forking over feasible values.
func (st *State) concretize(t *T, why string) uint64 {
	t = st.simp(t)
	if t.Op == OConst {
		return t.K
	}
	panic(concReq{t: t, cap: st.e.ConcCap, why: why})
}

// mustConst is like concretize for signed 64-bit quantities.
func (st *State) concInt(t *T, why string) int64 {
	return sx(st.concretize(t, why), t.W)
}
