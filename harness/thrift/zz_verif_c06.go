package thrift

import (
	vrt "github.com/cloudwego/dynamicgo/internal/zzverif"
)

func init() {
	vrt.Register("VerifC06_Skip", VerifC06_Skip)
	vrt.Register("VerifC06_Unwrap", VerifC06_Unwrap)
	vrt.Register("VerifC06_ReadAny", VerifC06_ReadAny)
	vrt.Register("VerifC06_ReadString", VerifC06_ReadString)
}

// VerifC06_Skip: Skip on N arbitrary bytes for root type T either fails or stays inside the buffer.
func VerifC06_Skip() {
	b := vrt.Bytes(vrt.Param("N"))
	p := &BinaryProtocol{Buf: b}
	err := p.Skip(Type(vrt.Param("T")), false)
	if err == nil {
		vrt.Reach("ok")
		vrt.Assert(p.Read >= 0 && p.Read <= len(b), "C06.thrift.skip.cursor")
	} else {
		vrt.Reach("err")
	}
}

// VerifC06_Unwrap: the envelope parser on arbitrary bytes.
func VerifC06_Unwrap() {
	b := vrt.Bytes(vrt.Param("N"))
	name, _, _, _, body, err := UnwrapBinaryMessage(b)
	if err == nil {
		vrt.Reach("ok")
		vrt.Assert(vrt.StrInBuf(name, b), "C06.thrift.unwrap.name-in-buffer")
		vrt.Assert(vrt.InBuf(body, b), "C06.thrift.unwrap.body-in-buffer")
	} else {
		vrt.Reach("err")
	}
}

// VerifC06_ReadString: ReadString/ReadBinary on arbitrary bytes.
func VerifC06_ReadString() {
	b := vrt.Bytes(vrt.Param("N"))
	p := &BinaryProtocol{Buf: b}
	s, err := p.ReadString(false)
	if err == nil {
		vrt.Reach("ok")
		vrt.Assert(vrt.StrInBuf(s, b), "C06.thrift.readstring.in-buffer")
		vrt.Assert(p.Read <= len(b), "C06.thrift.readstring.cursor")
	} else {
		vrt.Reach("err")
	}
	q := &BinaryProtocol{Buf: b}
	bs, err := q.ReadBinary(false)
	if err == nil {
		vrt.Assert(vrt.InBuf(bs, b), "C06.thrift.readbinary.in-buffer")
	}
}

// VerifC06_ReadAny: the descriptor-free Go-value reader on arbitrary bytes.
func VerifC06_ReadAny() {
	b := vrt.Bytes(vrt.Param("N"))
	p := &BinaryProtocol{Buf: b}
	_, err := p.ReadAny(Type(vrt.Param("T")), false, false)
	if err == nil {
		vrt.Reach("ok")
		vrt.Assert(p.Read <= len(b), "C06.thrift.readany.cursor")
	} else {
		vrt.Reach("err")
	}
}

func init() { vrt.Register("VerifC06_SkipDepth", VerifC06_SkipDepth) }

// VerifC06_SkipDepth: the depth limit of the Go skipper, exercised with a small limit D on arbitrary bytes:
// whatever SkipGo(T, D) accepts and the reference decoder considers well-formed nests no deeper than D
// (through struct fields, list elements, map keys and map values alike).
func VerifC06_SkipDepth() {
	b := vrt.Bytes(vrt.Param("N"))
	d := vrt.Param("D")
	t := byte(vrt.Param("T"))
	p := &BinaryProtocol{Buf: b}
	err := p.SkipGo(Type(t), d)
	if err != nil {
		vrt.Reach("err")
		return
	}
	vrt.Reach("ok")
	vrt.Assert(p.Read >= 0 && p.Read <= len(b), "C06.thrift.skipdepth.cursor")
	if vrt.TSkip(b, 0, t, 16) == p.Read {
		vrt.Assert(vrt.TSkip(b, 0, t, d) == p.Read, "C06.thrift.skipdepth.limit-enforced")
	}
}
