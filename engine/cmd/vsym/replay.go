package main

import (
	"bufio"
	"bytes"
	"encoding/json"
	"fmt"
	"os"
	"os/exec"
	"path/filepath"
	"sort"
	"strings"
	"time"
)

// ReplayCase is one native execution of a harness on a concrete input vector.
type ReplayCase struct {
	Harness   string           `json:"harness"` // entry function name
	Pkg       string           `json:"pkg"`
	Params    map[string]int64 `json:"params"`
	Vec       []uint64         `json:"vec"`
	TimeoutMs int              `json:"timeout_ms"`
	AllocMax  int64            `json:"alloc_max"`
}

// ReplayResult is what the native run observed.
type ReplayResult struct {
	Idx      int      `json:"idx"`
	Outcome  string   `json:"outcome"` // OK | ASSERT | PANIC | HANG | CRASH | ASSUME | ALLOC | NOTFOUND
	Failures []string `json:"failures"`
	Reached  []string `json:"reached"`
	Panic    string   `json:"panic"`
	Alloc    int64    `json:"alloc"`
}

const replayDriver = `package replay

import (
	"encoding/json"
	"fmt"
	"os"
	"runtime"
	"strconv"
	"testing"
	"time"

	vrt "github.com/cloudwego/dynamicgo/internal/zzverif"
%s
)

type rcase struct {
	Harness   string           ` + "`json:\"harness\"`" + `
	Params    map[string]int64 ` + "`json:\"params\"`" + `
	Vec       []uint64         ` + "`json:\"vec\"`" + `
	TimeoutMs int              ` + "`json:\"timeout_ms\"`" + `
	AllocMax  int64            ` + "`json:\"alloc_max\"`" + `
}

type rres struct {
	Idx      int      ` + "`json:\"idx\"`" + `
	Outcome  string   ` + "`json:\"outcome\"`" + `
	Failures []string ` + "`json:\"failures\"`" + `
	Reached  []string ` + "`json:\"reached\"`" + `
	Panic    string   ` + "`json:\"panic\"`" + `
	Alloc    int64    ` + "`json:\"alloc\"`" + `
}

func runOne(c rcase) (r rres) {
	f := vrt.Lookup(c.Harness)
	if f == nil {
		r.Outcome = "NOTFOUND"
		return
	}
	params := map[string]int{}
	for k, v := range c.Params {
		params[k] = int(v)
	}
	vrt.Reset(c.Vec, params)
	defer func() {
		if x := recover(); x != nil {
			if _, ok := x.(vrt.AssumeFailed); ok {
				r.Outcome = "ASSUME"
			} else {
				r.Outcome = "PANIC"
				r.Panic = fmt.Sprint(x)
			}
			r.Failures = vrt.Failures
			r.Reached = vrt.Reached
		}
	}()
	var m0, m1 runtime.MemStats
	runtime.ReadMemStats(&m0)
	f()
	runtime.ReadMemStats(&m1)
	r.Alloc = int64(m1.TotalAlloc - m0.TotalAlloc)
	r.Failures = vrt.Failures
	r.Reached = vrt.Reached
	r.Outcome = "OK"
	if len(r.Failures) > 0 {
		r.Outcome = "ASSERT"
	} else if c.AllocMax > 0 && r.Alloc > c.AllocMax {
		r.Outcome = "ALLOC"
	}
	return
}

func TestVerifReplay(t *testing.T) {
	in := os.Getenv("VERIF_REPLAY_IN")
	out := os.Getenv("VERIF_REPLAY_OUT")
	start, _ := strconv.Atoi(os.Getenv("VERIF_REPLAY_START"))
	b, err := os.ReadFile(in)
	if err != nil {
		t.Fatal(err)
	}
	var cases []rcase
	if err := json.Unmarshal(b, &cases); err != nil {
		t.Fatal(err)
	}
	of, err := os.OpenFile(out, os.O_APPEND|os.O_CREATE|os.O_WRONLY, 0644)
	if err != nil {
		t.Fatal(err)
	}
	defer of.Close()
	enc := json.NewEncoder(of)
	for i := start; i < len(cases); i++ {
		fmt.Fprintf(of, "{\"start\":%%d}\n", i)
		of.Sync()
		done := make(chan rres, 1)
		go func(c rcase) { done <- runOne(c) }(cases[i])
		to := time.Duration(cases[i].TimeoutMs) * time.Millisecond
		if to == 0 {
			to = 10 * time.Second
		}
		select {
		case r := <-done:
			r.Idx = i
			enc.Encode(r)
		case <-time.After(to):
			enc.Encode(rres{Idx: i, Outcome: "HANG"})
			of.Sync()
			os.Exit(3)
		}
	}
}
`

// Replayer runs cases natively against /repo with the harness overlay.
type Replayer struct {
	Repo       string
	HarnessDir string
	Pkgs       []string // import paths of harness packages (relative like ./proto/protowire)
	Portable   bool
	Echo       bool // print the native run's output (debugging)
	work       string
}

func (r *Replayer) prepare() (overlayPath string, err error) {
	if r.work == "" {
		r.work, err = os.MkdirTemp("", "vsym-replay-")
		if err != nil {
			return "", err
		}
	}
	repl := map[string]string{}
	err = filepath.Walk(r.HarnessDir, func(p string, info os.FileInfo, err error) error {
		if err != nil {
			return err
		}
		if info.IsDir() || !strings.HasSuffix(p, ".go") {
			return nil
		}
		rel, _ := filepath.Rel(r.HarnessDir, p)
		repl[filepath.Join(r.Repo, rel)] = p
		return nil
	})
	if err != nil {
		return "", err
	}
	var imports strings.Builder
	pk := append([]string(nil), r.Pkgs...)
	sort.Strings(pk)
	for _, p := range pk {
		ip := "github.com/cloudwego/dynamicgo/" + strings.TrimPrefix(p, "./")
		fmt.Fprintf(&imports, "\t_ %q\n", ip)
	}
	drv := filepath.Join(r.work, "replay_test.go")
	if err := os.WriteFile(drv, []byte(fmt.Sprintf(replayDriver, imports.String())), 0644); err != nil {
		return "", err
	}
	repl[filepath.Join(r.Repo, "internal/zzverif/replay/replay_test.go")] = drv
	if r.Portable {
		if err := r.addPortableFlip(repl); err != nil {
			return "", err
		}
	}
	ob, _ := json.Marshal(map[string]interface{}{"Replace": repl})
	overlayPath = filepath.Join(r.work, "overlay.json")
	return overlayPath, os.WriteFile(overlayPath, ob, 0644)
}

// addPortableFlip makes the portable (!amd64 || go1.25) files the ones compiled on this amd64 host.
func (r *Replayer) addPortableFlip(repl map[string]string) error {
	return filepath.Walk(r.Repo, func(p string, info os.FileInfo, err error) error {
		if err != nil {
			return err
		}
		if info.IsDir() {
			n := info.Name()
			if n == ".git" || n == "testdata" || n == "native" && strings.HasSuffix(filepath.Dir(p), "internal") {
				return filepath.SkipDir
			}
			return nil
		}
		if !strings.HasSuffix(p, ".go") {
			return nil
		}
		b, err := os.ReadFile(p)
		if err != nil {
			return err
		}
		head := b
		if len(head) > 600 {
			head = head[:600]
		}
		var cons string
		for _, ln := range strings.Split(string(head), "\n") {
			if strings.HasPrefix(ln, "//go:build ") {
				cons = strings.TrimSpace(strings.TrimPrefix(ln, "//go:build "))
				break
			}
		}
		if cons == "" {
			return nil
		}
		norm := strings.ReplaceAll(cons, " ", "")
		var newCons string
		switch norm {
		case "!amd64||go1.25", "!amd64||!go1.16||go1.25", "(!amd64||go1.25)":
			newCons = "amd64"
		case "amd64&&!go1.25", "amd64&&go1.16&&!go1.25", "amd64,!go1.25":
			newCons = "ignore"
		default:
			return nil
		}
		nb := bytes.Replace(b, []byte("//go:build "+cons), []byte("//go:build "+newCons), 1)
		// drop legacy "// +build" lines
		var out []string
		for _, ln := range strings.Split(string(nb), "\n") {
			if strings.HasPrefix(ln, "// +build") {
				continue
			}
			out = append(out, ln)
		}
		rel, _ := filepath.Rel(r.Repo, p)
		dst := filepath.Join(r.work, "flip", rel)
		os.MkdirAll(filepath.Dir(dst), 0755)
		if err := os.WriteFile(dst, []byte(strings.Join(out, "\n")), 0644); err != nil {
			return err
		}
		repl[p] = dst
		return nil
	})
}

func (r *Replayer) Cleanup() {
	if r.work != "" {
		os.RemoveAll(r.work)
	}
}

// Run executes all cases; results are indexed like cases.
func (r *Replayer) Run(cases []ReplayCase) ([]ReplayResult, error) {
	results := make([]ReplayResult, len(cases))
	for i := range results {
		results[i] = ReplayResult{Idx: i, Outcome: "MISSING"}
	}
	if len(cases) == 0 {
		return results, nil
	}
	ov, err := r.prepare()
	if err != nil {
		return nil, err
	}
	in := filepath.Join(r.work, "cases.json")
	b, _ := json.Marshal(cases)
	if err := os.WriteFile(in, b, 0644); err != nil {
		return nil, err
	}
	// build the test binary once
	bin := filepath.Join(r.work, "replay.test")
	build := exec.Command("go", "test", "-c", "-vet=off", "-overlay", ov, "-o", bin, "./internal/zzverif/replay")
	build.Dir = r.Repo
	build.Env = append(os.Environ(), "GOFLAGS=-mod=mod", "GOPROXY=off", "GOSUMDB=off", "GOTOOLCHAIN=local")
	if out, err := build.CombinedOutput(); err != nil {
		return nil, fmt.Errorf("replay build failed: %v\n%s", err, out)
	}
	start := 0
	for start < len(cases) {
		outFile := filepath.Join(r.work, fmt.Sprintf("out-%d.jsonl", start))
		os.Remove(outFile)
		cmd := exec.Command(bin, "-test.run", "TestVerifReplay", "-test.timeout", "0")
		cmd.Dir = filepath.Join(r.Repo, "internal") // any existing dir
		cmd.Env = append(os.Environ(), "VERIF_REPLAY_IN="+in, "VERIF_REPLAY_OUT="+outFile, fmt.Sprintf("VERIF_REPLAY_START=%d", start))
		var stderr bytes.Buffer
		cmd.Stdout = &stderr
		cmd.Stderr = &stderr
		done := make(chan error, 1)
		if err := cmd.Start(); err != nil {
			return nil, err
		}
		go func() { done <- cmd.Wait() }()
		select {
		case <-done:
		case <-time.After(30 * time.Minute):
			cmd.Process.Kill()
			<-done
		}
		if r.Echo {
			os.Stderr.Write(stderr.Bytes())
		}
		last := -1
		f, err := os.Open(outFile)
		if err == nil {
			sc := bufio.NewScanner(f)
			sc.Buffer(make([]byte, 1<<20), 1<<26)
			for sc.Scan() {
				var m map[string]json.RawMessage
				if json.Unmarshal(sc.Bytes(), &m) != nil {
					continue
				}
				if s, ok := m["start"]; ok {
					fmt.Sscan(string(s), &last)
					continue
				}
				var rr ReplayResult
				if json.Unmarshal(sc.Bytes(), &rr) == nil && rr.Idx >= 0 && rr.Idx < len(results) {
					results[rr.Idx] = rr
				}
			}
			f.Close()
		}
		if last < 0 {
			return nil, fmt.Errorf("replay produced no output: %s", tail(stderr.String(), 2000))
		}
		if results[last].Outcome == "MISSING" {
			results[last] = ReplayResult{Idx: last, Outcome: "CRASH", Panic: tail(stderr.String(), 1500)}
		}
		start = last + 1
	}
	return results, nil
}

func tail(s string, n int) string {
	if len(s) > n {
		return s[len(s)-n:]
	}
	return s
}
