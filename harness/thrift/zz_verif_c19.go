package thrift

import (
	"math"

	vrt "github.com/cloudwego/dynamicgo/internal/zzverif"
)

func init() {
	vrt.Register("VerifC19_Scalars", VerifC19_Scalars)
	vrt.Register("VerifC19_String", VerifC19_String)
	vrt.Register("VerifC19_Headers", VerifC19_Headers)
	vrt.Register("VerifC19_Skip", VerifC19_Skip)
	vrt.Register("VerifC19_Envelope", VerifC19_Envelope)
	vrt.Register("VerifC19_Encoding", VerifC19_Encoding)
}

func verifEqBytes(got []byte, ref []byte, label string) {
	vrt.Assert(len(got) == len(ref), label+".len")
	if len(got) != len(ref) {
		return
	}
	same := true
	for i := range ref {
		if got[i] != ref[i] {
			same = false
		}
	}
	vrt.Assert(same, label+".bytes")
}

// VerifC19_Scalars: every scalar written reads back identically and equals the big-endian reference,
// for every value of the type, starting from an output buffer of capacity CAP.
func VerifC19_Scalars() {
	c := vrt.Param("CAP")
	p := &BinaryProtocol{Buf: make([]byte, 0, c)}
	vb := vrt.Bool()
	v8 := vrt.U8()
	v16 := int16(vrt.U16())
	v32 := int32(vrt.U32())
	v64 := int64(vrt.U64())
	vd := math.Float64frombits(vrt.U64())
	vrt.Assert(p.WriteBool(vb) == nil, "C19.scalar.write.bool")
	vrt.Assert(p.WriteByte(v8) == nil, "C19.scalar.write.byte")
	vrt.Assert(p.WriteI16(v16) == nil, "C19.scalar.write.i16")
	vrt.Assert(p.WriteI32(v32) == nil, "C19.scalar.write.i32")
	vrt.Assert(p.WriteI64(v64) == nil, "C19.scalar.write.i64")
	vrt.Assert(p.WriteDouble(vd) == nil, "C19.scalar.write.double")
	var ref []byte
	if vb {
		ref = append(ref, 1)
	} else {
		ref = append(ref, 0)
	}
	ref = append(ref, v8)
	ref = vrt.PutBE16(ref, int(v16))
	ref = vrt.PutBE32(ref, int(v32))
	ref = vrt.PutBE64(ref, v64)
	ref = vrt.PutBE64(ref, int64(math.Float64bits(vd)))
	verifEqBytes(p.Buf, ref, "C19.scalar.encoding")
	rb, e1 := p.ReadBool()
	r8, e2 := p.ReadByte()
	r16, e3 := p.ReadI16()
	r32, e4 := p.ReadI32()
	r64, e5 := p.ReadI64()
	rd, e6 := p.ReadDouble()
	vrt.Assert(e1 == nil && e2 == nil && e3 == nil && e4 == nil && e5 == nil && e6 == nil, "C19.scalar.read.noerror")
	vrt.Assert(rb == vb, "C19.scalar.roundtrip.bool")
	vrt.Assert(r8 == v8, "C19.scalar.roundtrip.byte")
	vrt.Assert(r16 == v16, "C19.scalar.roundtrip.i16")
	vrt.Assert(r32 == v32, "C19.scalar.roundtrip.i32")
	vrt.Assert(r64 == v64, "C19.scalar.roundtrip.i64")
	vrt.Assert(math.Float64bits(rd) == math.Float64bits(vd), "C19.scalar.roundtrip.double")
	vrt.Assert(p.Read == len(p.Buf), "C19.scalar.consumed")
	_, e7 := p.ReadByte()
	vrt.Assert(e7 != nil, "C19.scalar.eof")
	vrt.Reach("done")
}

// VerifC19_String: strings and binaries of L symbolic bytes.
func VerifC19_String() {
	c := vrt.Param("CAP")
	l := vrt.Param("L")
	s := vrt.Bytes(l)
	p := &BinaryProtocol{Buf: make([]byte, 0, c)}
	vrt.Assert(p.WriteString(string(s)) == nil, "C19.string.write")
	vrt.Assert(p.WriteBinary(s) == nil, "C19.binary.write")
	ref := vrt.PutString(nil, s)
	ref = vrt.PutString(ref, s)
	verifEqBytes(p.Buf, ref, "C19.string.encoding")
	cp := vrt.Bool()
	rs, e1 := p.ReadString(cp)
	rb, e2 := p.ReadBinary(cp)
	vrt.Assert(e1 == nil && e2 == nil, "C19.string.read.noerror")
	verifEqBytes([]byte(rs), s, "C19.string.roundtrip")
	verifEqBytes(rb, s, "C19.binary.roundtrip")
	vrt.Assert(p.Read == len(p.Buf), "C19.string.consumed")
	vrt.Reach("done")
}

// VerifC19_Headers: field / list / set / map headers for every id, type and size.  A container
// header is followed by PAD payload bytes; a header announcing more elements than there are
// bytes left is invalid data (each element occupies >= 1 byte) and may be rejected by the reader.
func VerifC19_Headers() {
	p := &BinaryProtocol{Buf: make([]byte, 0, vrt.Param("CAP"))}
	pad := vrt.Param("PAD")
	ft := Type(vrt.U8())
	id := FieldID(vrt.U16())
	et := Type(vrt.U8())
	kt := Type(vrt.U8())
	n := int(int32(vrt.U32()))
	vrt.Assume(ft.Valid() && ft != STOP && et.Valid() && kt.Valid() && n >= 0)
	which := vrt.Param("W")
	var ref []byte
	switch which {
	case 0:
		vrt.Assert(p.WriteFieldBegin("x", ft, id) == nil, "C19.hdr.field.write")
		vrt.Assert(p.WriteFieldStop() == nil, "C19.hdr.stop.write")
		ref = vrt.PutField(nil, byte(ft), int(id))
		ref = append(ref, 0)
	case 1:
		vrt.Assert(p.WriteListBegin(et, n) == nil, "C19.hdr.list.write")
		ref = vrt.PutListHdr(ref, byte(et), n)
	case 2:
		vrt.Assert(p.WriteSetBegin(et, n) == nil, "C19.hdr.set.write")
		ref = vrt.PutListHdr(ref, byte(et), n)
	case 3:
		vrt.Assert(p.WriteMapBegin(kt, et, n) == nil, "C19.hdr.map.write")
		ref = vrt.PutMapHdr(ref, byte(kt), byte(et), n)
	}
	verifEqBytes(p.Buf, ref, "C19.hdr.encoding")
	for i := 0; i < pad; i++ {
		p.Buf = append(p.Buf, 0)
	}
	switch which {
	case 0:
		_, rft, rid, e1 := p.ReadFieldBegin()
		vrt.Assert(e1 == nil && rft == ft && rid == id, "C19.hdr.field.roundtrip")
		_, rft, _, e1 = p.ReadFieldBegin()
		vrt.Assert(e1 == nil && rft == STOP, "C19.hdr.stop.roundtrip")
	case 1:
		ret, rn, e2 := p.ReadListBegin()
		if n <= pad {
			vrt.Reach("fits")
			vrt.Assert(e2 == nil && ret == et && rn == n, "C19.hdr.list.roundtrip")
		} else {
			vrt.Assert(e2 != nil || (ret == et && rn == n), "C19.hdr.list.roundtrip-or-error")
		}
	case 2:
		ret, rn, e2 := p.ReadSetBegin()
		if n <= pad {
			vrt.Reach("fits")
			vrt.Assert(e2 == nil && ret == et && rn == n, "C19.hdr.set.roundtrip")
		} else {
			vrt.Assert(e2 != nil || (ret == et && rn == n), "C19.hdr.set.roundtrip-or-error")
		}
	case 3:
		rkt, rvt, rn2, e3 := p.ReadMapBegin()
		if n <= pad {
			vrt.Reach("fits")
			vrt.Assert(e3 == nil && rkt == kt && rvt == et && rn2 == n, "C19.hdr.map.roundtrip")
		} else {
			vrt.Assert(e3 != nil || (rkt == kt && rvt == et && rn2 == n), "C19.hdr.map.roundtrip-or-error")
		}
	}
	vrt.Reach("done")
}

// VerifC19_Skip: skipping a well-formed value of root type T (N bytes, any layout) followed by
// X trailing bytes advances the cursor by exactly N.
func VerifC19_Skip() {
	n := vrt.Param("N")
	x := vrt.Param("X")
	t := byte(vrt.Param("T"))
	b := vrt.Bytes(n + x)
	vrt.Assume(vrt.TSkip(b[:n:n], 0, t, 4) == n)
	p := &BinaryProtocol{Buf: b}
	err := p.Skip(Type(t), false)
	vrt.Assert(err == nil, "C19.skip.noerror")
	vrt.Assert(p.Read == n, "C19.skip.exact")
	vrt.Reach("done")
}

// VerifC19_Envelope: wrap/unwrap and precomputed header/footer.
func VerifC19_Envelope() {
	nl := vrt.Param("NL")
	bl := vrt.Param("BL")
	name := vrt.Bytes(nl)
	body := vrt.Bytes(bl)
	mt := TMessageType(vrt.U8())
	vrt.Assume(mt >= 1 && mt <= 4)
	seq := int32(vrt.U32())
	sid := FieldID(vrt.U16())
	w, err := WrapBinaryBody(body, string(name), mt, sid, seq)
	vrt.Assert(err == nil, "C19.envelope.wrap")
	rn, rt, rs, rid, rbody, err := UnwrapBinaryMessage(w)
	vrt.Assert(err == nil, "C19.envelope.unwrap.noerror")
	verifEqBytes([]byte(rn), name, "C19.envelope.name")
	vrt.Assert(rt == mt, "C19.envelope.type")
	vrt.Assert(rs == seq, "C19.envelope.seq")
	vrt.Assert(rid == sid, "C19.envelope.structid")
	verifEqBytes(rbody, body, "C19.envelope.body")
	h, f, err := GetBinaryMessageHeaderAndFooter(string(name), mt, sid, seq)
	vrt.Assert(err == nil, "C19.envelope.hf.noerror")
	vrt.Assert(len(h)+len(body)+len(f) == len(w), "C19.envelope.hf.len")
	if len(h)+len(body)+len(f) == len(w) {
		verifEqBytes(h, w[:len(h)], "C19.envelope.header")
		verifEqBytes(f, w[len(w)-len(f):], "C19.envelope.footer")
	}
	// standard strict-binary layout of the envelope
	ref := vrt.PutBE32(nil, int(int32(uint32(0x80010000)|uint32(mt))))
	ref = vrt.PutString(ref, name)
	ref = vrt.PutBE32(ref, int(seq))
	ref = vrt.PutField(ref, vrt.TSTRUCT, int(sid))
	ref = append(ref, body...)
	ref = append(ref, 0)
	verifEqBytes(w, ref, "C19.envelope.encoding")
	vrt.Reach("done")
}

// VerifC19_Encoding: BinaryEncoding fixed-offset encoders/decoders are inverse and big-endian.
func VerifC19_Encoding() {
	var enc BinaryEncoding
	v16 := int16(vrt.U16())
	v32 := int32(vrt.U32())
	v64 := int64(vrt.U64())
	vd := math.Float64frombits(vrt.U64())
	v8 := vrt.U8()
	vb := vrt.Bool()
	b := make([]byte, 8)
	enc.EncodeInt16(b, v16)
	vrt.Assert(int16(vrt.BE16(b, 0)) == v16 && enc.DecodeInt16(b) == v16, "C19.enc.i16")
	enc.EncodeInt32(b, v32)
	vrt.Assert(int32(vrt.BE32(b, 0)) == v32 && enc.DecodeInt32(b) == v32, "C19.enc.i32")
	enc.EncodeInt64(b, v64)
	vrt.Assert(vrt.BE64(b, 0) == v64 && enc.DecodeInt64(b) == v64, "C19.enc.i64")
	enc.EncodeDouble(b, vd)
	vrt.Assert(uint64(vrt.BE64(b, 0)) == math.Float64bits(vd) && math.Float64bits(enc.DecodeDouble(b)) == math.Float64bits(vd), "C19.enc.double")
	enc.EncodeByte(b, v8)
	vrt.Assert(b[0] == v8 && enc.DecodeByte(b) == v8, "C19.enc.byte")
	enc.EncodeBool(b, vb)
	vrt.Assert(enc.DecodeBool(b) == vb, "C19.enc.bool")
	l := vrt.Param("L")
	s := vrt.Bytes(l)
	sb := make([]byte, l+4)
	enc.EncodeString(sb, string(s))
	verifEqBytes(sb, vrt.PutString(nil, s), "C19.enc.string")
	verifEqBytes([]byte(enc.DecodeString(sb)), s, "C19.enc.string.roundtrip")
	verifEqBytes(enc.DecodeBytes(sb), s, "C19.enc.bytes.roundtrip")
	vrt.Reach("done")
}

func init() { vrt.Register("VerifC19_Any", VerifC19_Any) }

// VerifC19_Any: WriteAnyWithDesc of a generic Go value of shape SHAPE produces exactly the reference
// encoding of the value, and ReadAnyWithDesc of that encoding yields a value that is written back to the
// same bytes.  Maps hold one entry (Go's map order is not part of the claim).
func VerifC19_Any() {
	shape := vrt.Param("SHAPE")
	iv := int32(vrt.U32())
	sv := vrt.Bytes(2)
	kv := int8(vrt.U8())
	inner := VerifStruct("In", Options{}, VField{ID: 1, Name: "x", Type: VerifBasic(I32), Req: 2}, VField{ID: 300, Name: "s", Type: VerifBasic(STRING), Req: 2})
	var desc *TypeDescriptor
	var val interface{}
	var want []byte
	useName := false
	putIntKey := func(b []byte, kt Type) []byte {
		switch kt {
		case BYTE:
			return append(b, byte(kv))
		case I16:
			return vrt.PutBE16(b, int(int16(kv)))
		case I32:
			return vrt.PutBE32(b, int(kv))
		}
		return vrt.PutBE64(b, int64(kv))
	}
	switch shape {
	case 0:
		desc, val = VerifBasic(I32), iv
		want = vrt.PutBE32(nil, int(iv))
	case 1:
		desc, val = VerifBasic(STRING), string(sv)
		want = vrt.PutString(nil, sv)
	case 2:
		desc, val = VerifList(VerifBasic(I32)), []interface{}{iv, int32(7)}
		want = vrt.PutBE32(vrt.PutBE32(vrt.PutListHdr(nil, vrt.TI32, 2), int(iv)), 7)
	case 3:
		desc, val = VerifMap(VerifBasic(STRING), VerifBasic(I32)), map[string]interface{}{string(sv): iv}
		want = vrt.PutBE32(vrt.PutString(vrt.PutMapHdr(nil, vrt.TSTRING, vrt.TI32, 1), sv), int(iv))
	case 4, 5, 6, 7, 8:
		kt := []Type{I32, BYTE, I16, I32, I64}[shape-4]
		desc = VerifMap(VerifBasic(kt), VerifBasic(STRING))
		switch shape {
		case 4:
			val = map[int]interface{}{int(kv): string(sv)}
		case 5:
			val = map[int8]interface{}{kv: string(sv)}
		case 6:
			val = map[int16]interface{}{int16(kv): string(sv)}
		case 7:
			val = map[int32]interface{}{int32(kv): string(sv)}
		case 8:
			val = map[int64]interface{}{int64(kv): string(sv)}
		}
		want = vrt.PutString(putIntKey(vrt.PutMapHdr(nil, byte(kt), vrt.TSTRING, 1), kt), sv)
	case 9:
		useName = true
		desc, val = inner, map[string]interface{}{"x": iv}
		want = append(vrt.PutBE32(vrt.PutField(nil, vrt.TI32, 1), int(iv)), 0)
	case 10:
		desc, val = inner, map[FieldID]interface{}{300: string(sv)}
		want = append(vrt.PutString(vrt.PutField(nil, vrt.TSTRING, 300), sv), 0)
	case 12:
		// a key that is neither string nor integer: generic map
		desc, val = VerifMap(VerifBasic(DOUBLE), VerifBasic(I32)), map[interface{}]interface{}{float64(1.5): iv}
		want = vrt.PutBE32(vrt.PutBE64(vrt.PutMapHdr(nil, vrt.TDOUBLE, vrt.TI32, 1), 0x3ff8000000000000), int(iv))
	case 13:
		desc, val = VerifMap(VerifBasic(BOOL), VerifBasic(I32)), map[interface{}]interface{}{true: iv}
		want = vrt.PutBE32(append(vrt.PutMapHdr(nil, vrt.TBOOL, vrt.TI32, 1), 1), int(iv))
	case 14:
		// list<byte>: the reader's two byte representations (BU: byteAsUint8) - also the only shape where
		// the byteAsUint8 / copyString arguments of ReadAnyWithDesc differ in effect
		desc, val = VerifList(VerifBasic(BYTE)), []interface{}{byte(kv), byte(3)}
		want = append(vrt.PutListHdr(nil, vrt.TBYTE, 2), byte(kv), 3)
	case 11:
		desc, val = VerifList(inner), []interface{}{map[FieldID]interface{}{1: iv}, map[FieldID]interface{}{}}
		want = vrt.PutListHdr(nil, vrt.TSTRUCT, 2)
		want = append(vrt.PutBE32(vrt.PutField(want, vrt.TI32, 1), int(iv)), 0)
		want = append(want, 0)
	}
	p := BinaryProtocol{Buf: make([]byte, 0, vrt.Param("CAP"))}
	err := p.WriteAnyWithDesc(desc, val, false, true, useName)
	vrt.Assert(err == nil, "C19.any.write.noerror")
	if err != nil {
		return
	}
	vrt.Reach("written")
	vrt.Assert(vrt.BytesEq(p.Buf, 0, len(p.Buf), want, 0, len(want)), "C19.any.write.equals-reference")
	// read the reference encoding back and write the result again
	r := BinaryProtocol{Buf: want}
	bu := vrt.Param("BU") != 0
	back, err := r.ReadAnyWithDesc(desc, bu, !bu, true, useName)
	vrt.Assert(err == nil && r.Read == len(want), "C19.any.read.consumes-all")
	if err != nil {
		return
	}
	if shape == 14 {
		l, ok := back.([]interface{})
		vrt.Assert(ok && len(l) == 2, "C19.any.read.bytes.shape")
		if ok && len(l) == 2 {
			if bu {
				x, isU := l[0].(byte)
				vrt.Assert(isU && x == byte(kv), "C19.any.read.bytes.as-uint8")
			} else {
				x, isI := l[0].(int8)
				vrt.Assert(isI && x == kv, "C19.any.read.bytes.as-int8")
				return // an int8 is not accepted back by the writer without casting
			}
		}
	}
	if shape >= 4 && shape <= 8 {
		// integer-keyed maps come back keyed by the integer the bytes encode (sign included)
		m, ok := back.(map[int]interface{})
		vrt.Assert(ok && len(m) == 1, "C19.any.read.intkey.shape")
		if ok {
			for k, v := range m {
				vs, isS := v.(string)
				if shape == 5 {
					// byte keys: the reader has two byte representations (int8 / uint8); either is accepted
					vrt.Assert(k == int(kv) || k == int(uint8(kv)), "C19.any.read.intkey.byte-key")
				} else {
					vrt.Assert(k == int(kv), "C19.any.read.intkey.key")
				}
				vrt.Assert(isS && vs == string(sv), "C19.any.read.intkey.value")
			}
		}
	}
	w := BinaryProtocol{Buf: make([]byte, 0, 8)}
	err = w.WriteAnyWithDesc(desc, back, false, true, useName)
	vrt.Assert(err == nil && vrt.BytesEq(w.Buf, 0, len(w.Buf), want, 0, len(want)), "C19.any.read-write.identity")
}

func init() { vrt.Register("VerifC19_Reuse", VerifC19_Reuse) }

// VerifC19_Reuse: one protocol object used for write + read, then Reset / Recycle and used again: the second
// round reads exactly what the second round wrote (the read position is part of what Reset clears).
func VerifC19_Reuse() {
	how := vrt.Param("HOW") // 0 Reset, 1 Recycle + NewBinaryProtocolBuffer
	a, b := int64(vrt.U64()), int32(vrt.U32())
	s1, s2 := vrt.Bytes(vrt.Param("L1")), vrt.Bytes(vrt.Param("L2"))
	p := NewBinaryProtocolBuffer()
	vrt.Assert(p.WriteI64(a) == nil && p.WriteString(string(s1)) == nil, "C19.reuse.first.write")
	x, err := p.ReadI64()
	vrt.Assert(err == nil && x == a, "C19.reuse.first.read-i64")
	y, err := p.ReadString(true)
	vrt.Assert(err == nil && y == string(s1) && p.Left() == 0, "C19.reuse.first.read-string")
	if how == 0 {
		p.Reset()
	} else {
		p.Recycle()
		p = NewBinaryProtocolBuffer()
	}
	vrt.Assert(p.Read == 0 && len(p.Buf) == 0, "C19.reuse.reset.empty")
	vrt.Assert(p.WriteString(string(s2)) == nil && p.WriteI32(b) == nil, "C19.reuse.second.write")
	vrt.Assert(p.Left() == len(s2)+8, "C19.reuse.second.left")
	z, err := p.ReadString(true)
	vrt.Assert(err == nil && z == string(s2), "C19.reuse.second.read-string")
	w, err := p.ReadI32()
	vrt.Assert(err == nil && w == b && p.Left() == 0, "C19.reuse.second.read-i32")
	vrt.Reach("reused")
	p.Recycle()
}

func init() { vrt.Register("VerifC19_SkipMapShapes", VerifC19_SkipMapShapes) }

// verifPutShape appends a value of shape sh with symbolic content and returns its Thrift type:
// 0 i32, 1 string (0..2 bytes), 2 list<i16> (0..2 elements), 3 struct{1: byte}, 4 map<byte,byte> (one entry),
// 5 set<string> (one element), 6 double, 7 bool.
func verifPutShape(b []byte, sh int) ([]byte, byte) {
	switch sh {
	case 0:
		return vrt.PutBE32(b, int(int32(vrt.U32()))), vrt.TI32
	case 1:
		return vrt.PutString(b, vrt.Bytes(vrt.Conc(int(vrt.U8())%3))), vrt.TSTRING
	case 2:
		n := vrt.Conc(int(vrt.U8()) % 3)
		b = vrt.PutListHdr(b, vrt.TI16, n)
		for i := 0; i < n; i++ {
			b = vrt.PutBE16(b, int(int16(vrt.U16())))
		}
		return b, vrt.TLIST
	case 3:
		return append(append(vrt.PutField(b, vrt.TBYTE, 1), vrt.U8()), 0), vrt.TSTRUCT
	case 4:
		return append(vrt.PutMapHdr(b, vrt.TBYTE, vrt.TBYTE, 1), vrt.U8(), vrt.U8()), vrt.TMAP
	case 5:
		return vrt.PutString(vrt.PutListHdr(b, vrt.TSTRING, 1), vrt.Bytes(1)), vrt.TSET
	case 6:
		return vrt.PutBE64(b, int64(vrt.U64())), vrt.TDOUBLE
	}
	x := byte(0)
	if vrt.Bool() {
		x = 1
	}
	return append(b, x), vrt.TBOOL
}

// VerifC19_SkipMapShapes: skipping a map<K,V> of CNT entries for every pair of key / value shapes (fixed-width,
// string, list, struct, map, set) advances exactly over the map, whatever follows it.
func VerifC19_SkipMapShapes() {
	ks, vs, cnt := vrt.Param("KS"), vrt.Param("VS"), vrt.Param("CNT")
	var body []byte
	var kt, vt byte
	_, kt = verifPutShape(nil, ks)
	_, vt = verifPutShape(nil, vs)
	for i := 0; i < cnt; i++ {
		body, _ = verifPutShape(body, ks)
		body, _ = verifPutShape(body, vs)
	}
	b := append(vrt.PutMapHdr(nil, kt, vt, cnt), body...)
	n := len(b)
	b = append(b, vrt.U8(), vrt.U8()) // trailing bytes that do not belong to the map
	vrt.Assume(vrt.TSkip(b[:n:n], 0, vrt.TMAP, 4) == n)
	p := &BinaryProtocol{Buf: b}
	err := p.Skip(MAP, false)
	vrt.Assert(err == nil, "C19.skip-map-shapes.noerror")
	vrt.Assert(p.Read == n, "C19.skip-map-shapes.exact")
	vrt.Reach("done")
}
