package vrt

// Independent reference implementation of the Thrift binary encoding, written
// from the specification (thrift-binary-protocol.md) and not from dynamicgo's
// code.  It is executed symbolically next to the code under test; every length
// and count it reads is concretised (vrt.Conc), so with all bytes symbolic its
// feasible paths enumerate every well-formed value layout that fits the bound.

const (
	TSTOP   = 0
	TBOOL   = 2
	TBYTE   = 3
	TDOUBLE = 4
	TI16    = 6
	TI32    = 8
	TI64    = 10
	TSTRING = 11
	TSTRUCT = 12
	TMAP    = 13
	TSET    = 14
	TLIST   = 15
)

// TValid reports whether t is a value type of the binary protocol.
func TValid(t byte) bool {
	switch t {
	case TBOOL, TBYTE, TDOUBLE, TI16, TI32, TI64, TSTRING, TSTRUCT, TMAP, TSET, TLIST:
		return true
	}
	return false
}

// TFixed returns the encoded size of fixed-size types, 0 otherwise.
func TFixed(t byte) int {
	switch t {
	case TBOOL, TBYTE:
		return 1
	case TI16:
		return 2
	case TI32:
		return 4
	case TI64, TDOUBLE:
		return 8
	}
	return 0
}

// TMinSize is the smallest possible encoding of a value of type t.
func TMinSize(t byte) int {
	if n := TFixed(t); n > 0 {
		return n
	}
	switch t {
	case TSTRING:
		return 4
	case TSTRUCT:
		return 1
	case TMAP:
		return 6
	case TSET, TLIST:
		return 5
	}
	return 1
}

func BE16(b []byte, off int) int { return int(b[off])<<8 | int(b[off+1]) }
func BE32(b []byte, off int) int {
	return int(int32(uint32(b[off])<<24 | uint32(b[off+1])<<16 | uint32(b[off+2])<<8 | uint32(b[off+3])))
}
func BE64(b []byte, off int) int64 {
	return int64(uint64(b[off])<<56 | uint64(b[off+1])<<48 | uint64(b[off+2])<<40 | uint64(b[off+3])<<32 |
		uint64(b[off+4])<<24 | uint64(b[off+5])<<16 | uint64(b[off+6])<<8 | uint64(b[off+7]))
}

// TSkip returns the offset just past the value of type t that starts at off,
// or -1 if the value is malformed, truncated or nested deeper than depth.
func TSkip(b []byte, off int, t byte, depth int) int {
	if depth < 0 || off < 0 || off > len(b) {
		return -1
	}
	if n := TFixed(t); n > 0 {
		if off+n > len(b) {
			return -1
		}
		if t == TBOOL && b[off] > 1 {
			// the binary protocol encodes bool as 0 or 1; no encoder produces another byte
			return -1
		}
		return off + n
	}
	switch t {
	case TSTRING:
		if off+4 > len(b) {
			return -1
		}
		l := BE32(b, off)
		if l < 0 || l > len(b)-off-4 {
			return -1
		}
		l = Conc(l)
		return off + 4 + l
	case TSTRUCT:
		for {
			if off+1 > len(b) {
				return -1
			}
			ft := b[off]
			if ft == TSTOP {
				return off + 1
			}
			if !TValid(ft) || off+3 > len(b) {
				return -1
			}
			off = TSkip(b, off+3, ft, depth-1)
			if off < 0 {
				return -1
			}
		}
	case TLIST, TSET:
		if off+5 > len(b) {
			return -1
		}
		et := b[off]
		n := BE32(b, off+1)
		if !TValid(et) || n < 0 || n > (len(b)-off-5)/TMinSize(et) {
			return -1
		}
		n = Conc(n)
		off += 5
		for i := 0; i < n; i++ {
			off = TSkip(b, off, et, depth-1)
			if off < 0 {
				return -1
			}
		}
		return off
	case TMAP:
		if off+6 > len(b) {
			return -1
		}
		kt, vt := b[off], b[off+1]
		n := BE32(b, off+2)
		if n < 0 {
			return -1
		}
		if n == 0 {
			// an empty map may carry any declared key/value types
			if !TValid(kt) || !TValid(vt) {
				return -1
			}
			return off + 6
		}
		if !TValid(kt) || !TValid(vt) || n > (len(b)-off-6)/(TMinSize(kt)+TMinSize(vt)) {
			return -1
		}
		n = Conc(n)
		off += 6
		for i := 0; i < n; i++ {
			off = TSkip(b, off, kt, depth-1)
			if off < 0 {
				return -1
			}
			off = TSkip(b, off, vt, depth-1)
			if off < 0 {
				return -1
			}
		}
		return off
	}
	return -1
}

// TElem is one direct child of a container value.
type TElem struct {
	ID     int  // field id (struct)
	Idx    int  // position (list/set/map, in wire order)
	KStart int  // map key span
	KEnd   int
	Typ    byte // element (value) type
	Start  int  // value span
	End    int
}

// TChildren lists the direct children of the value of type t that occupies
// exactly b[0:len(b)].  ok is false if the value is not well-formed or does not
// end exactly at len(b).
func TChildren(b []byte, t byte, depth int) (out []TElem, ok bool) {
	switch t {
	case TSTRUCT:
		off := 0
		for {
			if off+1 > len(b) {
				return nil, false
			}
			ft := b[off]
			if ft == TSTOP {
				return out, off+1 == len(b)
			}
			if !TValid(ft) || off+3 > len(b) {
				return nil, false
			}
			id := BE16(b, off+1)
			end := TSkip(b, off+3, ft, depth-1)
			if end < 0 {
				return nil, false
			}
			out = append(out, TElem{ID: id, Idx: len(out), Typ: ft, Start: off + 3, End: end})
			off = end
		}
	case TLIST, TSET:
		if len(b) < 5 {
			return nil, false
		}
		et := b[0]
		n := BE32(b, 1)
		if !TValid(et) || n < 0 || n > (len(b)-5)/TMinSize(et) {
			return nil, false
		}
		n = Conc(n)
		off := 5
		for i := 0; i < n; i++ {
			end := TSkip(b, off, et, depth-1)
			if end < 0 {
				return nil, false
			}
			out = append(out, TElem{Idx: i, Typ: et, Start: off, End: end})
			off = end
		}
		return out, off == len(b)
	case TMAP:
		if len(b) < 6 {
			return nil, false
		}
		kt, vt := b[0], b[1]
		n := BE32(b, 2)
		if !TValid(kt) || !TValid(vt) || n < 0 || n > (len(b)-6)/(TMinSize(kt)+TMinSize(vt)) {
			return nil, false
		}
		n = Conc(n)
		off := 6
		for i := 0; i < n; i++ {
			ke := TSkip(b, off, kt, depth-1)
			if ke < 0 {
				return nil, false
			}
			ve := TSkip(b, ke, vt, depth-1)
			if ve < 0 {
				return nil, false
			}
			out = append(out, TElem{Idx: i, KStart: off, KEnd: ke, Typ: vt, Start: ke, End: ve})
			off = ve
		}
		return out, off == len(b)
	}
	return nil, false
}

// TWellFormed: b is exactly one well-formed value of type t.
func TWellFormed(b []byte, t byte, depth int) bool {
	return TSkip(b, 0, t, depth) == len(b)
}

// BytesEq compares b[s1:e1] with c[s2:e2].
func BytesEq(b []byte, s1, e1 int, c []byte, s2, e2 int) bool {
	if e1-s1 != e2-s2 {
		return false
	}
	for i := 0; i < e1-s1; i++ {
		if b[s1+i] != c[s2+i] {
			return false
		}
	}
	return true
}

// ---- reference writer ----

func PutBE16(b []byte, v int) []byte { return append(b, byte(v>>8), byte(v)) }
func PutBE32(b []byte, v int) []byte {
	return append(b, byte(v>>24), byte(v>>16), byte(v>>8), byte(v))
}
func PutBE64(b []byte, v int64) []byte {
	return append(b, byte(v>>56), byte(v>>48), byte(v>>40), byte(v>>32), byte(v>>24), byte(v>>16), byte(v>>8), byte(v))
}
func PutField(b []byte, t byte, id int) []byte { return PutBE16(append(b, t), id) }
func PutString(b []byte, s []byte) []byte    { return append(PutBE32(b, len(s)), s...) }
func PutListHdr(b []byte, et byte, n int) []byte { return PutBE32(append(b, et), n) }
func PutMapHdr(b []byte, kt, vt byte, n int) []byte {
	return PutBE32(append(b, kt, vt), n)
}

// TDeepEq compares two well-formed values of type t structurally: struct fields and map
// entries are matched by id / key bytes regardless of order (re-encoding a struct or a map in a
// different member order denotes the same value), list and set elements are compared in order.
func TDeepEq(a []byte, b []byte, t byte, depth int) bool {
	if depth < 0 {
		return false
	}
	switch t {
	case TSTRUCT, TMAP:
		ka, ok1 := TChildren(a, t, depth)
		kb, ok2 := TChildren(b, t, depth)
		if !ok1 || !ok2 || len(ka) != len(kb) {
			return false
		}
		if t == TMAP && len(ka) > 0 && (a[0] != b[0] || a[1] != b[1]) {
			return false
		}
		for i := range ka {
			found := false
			for j := range kb {
				same := false
				if t == TSTRUCT {
					same = ka[i].ID == kb[j].ID && ka[i].Typ == kb[j].Typ
				} else {
					same = BytesEq(a, ka[i].KStart, ka[i].KEnd, b, kb[j].KStart, kb[j].KEnd)
				}
				if same {
					if TDeepEq(a[ka[i].Start:ka[i].End], b[kb[j].Start:kb[j].End], ka[i].Typ, depth-1) {
						found = true
					}
				}
			}
			if !found {
				return false
			}
		}
		return true
	case TLIST, TSET:
		ka, ok1 := TChildren(a, t, depth)
		kb, ok2 := TChildren(b, t, depth)
		if !ok1 || !ok2 || len(ka) != len(kb) || a[0] != b[0] {
			return false
		}
		for i := range ka {
			if !TDeepEq(a[ka[i].Start:ka[i].End], b[kb[i].Start:kb[i].End], ka[i].Typ, depth-1) {
				return false
			}
		}
		return true
	}
	return BytesEq(a, 0, len(a), b, 0, len(b))
}
