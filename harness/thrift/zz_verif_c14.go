package thrift

import (
	vrt "github.com/cloudwego/dynamicgo/internal/zzverif"
)

func init() {
	vrt.Register("VerifC14_Struct", VerifC14_Struct)
	vrt.Register("VerifC14_Bitmap", VerifC14_Bitmap)
}

func verifNameSet(set int) ([]string, []FieldID) {
	switch set {
	case 0: // trie-shaped: prefixes, extensions, one-position differences, alias-like names
		return []string{"a", "ab", "abc", "b", "name", "Name", "nam", "extra", "Extra"}, []FieldID{1, 2, 3, 4, 5, 6, 7, 300, 32767}
	case 1: // hash-shaped: 24 names over a two-letter alphabet (dispersion 12 at every position)
		var names []string
		var ids []FieldID
		for i := 0; i < 24; i++ {
			n := []byte{'x', 'x', 'x', 'x', 'x'}
			for b := 0; b < 5; b++ {
				if i&(1<<b) != 0 {
					n[b] = 'y'
				}
			}
			names = append(names, string(n))
			ids = append(ids, FieldID(i+1))
		}
		return names, ids
	case 3: // the response wrapper of a function without exceptions: one field with the empty name
		return []string{""}, []FieldID{0}
	case 4: // ... and with one exception
		return []string{"", "err"}, []FieldID{0, 1}
	case 5: // ids at the top of the 16-bit range
		return []string{"lo", "mid", "hi"}, []FieldID{32767, 32768, 65535}
	default: // single field
		return []string{"only"}, []FieldID{0}
	}
}

// VerifC14_Struct: a struct descriptor built through the real builders (ids.Set, names.Set, names.Build):
// FieldByKey(k) for an arbitrary key of L bytes and FieldById(id) for every 16-bit id return the declared
// field if and only if it is declared.
func VerifC14_Struct() {
	set := vrt.Param("SET")
	l := vrt.Param("L")
	names, ids := verifNameSet(set)
	var fs []VField
	for i := range names {
		fs = append(fs, VField{ID: ids[i], Name: names[i], Type: VerifBasic(I32), Req: 2})
	}
	desc := VerifStruct("N", Options{}, fs...).Struct()
	// declared names and ids are found
	for i := range names {
		f := desc.FieldByKey(names[i])
		vrt.Assert(f != nil && f.ID() == ids[i], "C14.struct.declared-name.found")
		g := desc.FieldById(ids[i])
		vrt.Assert(g != nil && g.Name() == names[i], "C14.struct.declared-id.found")
	}
	// arbitrary key
	k := vrt.Bytes(l)
	// SYM: how many leading bytes of the key are symbolic; the rest are fixed to 'x' (the hashed
	// layout makes the solver evaluate a 32-bit hash modulo the table size per symbolic byte)
	for i := vrt.Param("SYM"); i < l; i++ {
		k[i] = 'x'
	}
	f := desc.FieldByKey(string(k))
	idx := -1
	for i := range names {
		if len(names[i]) == l {
			same := true
			for j := 0; j < l; j++ {
				if names[i][j] != k[j] {
					same = false
				}
			}
			if same {
				idx = i
			}
		}
	}
	if idx >= 0 {
		vrt.Reach("key.declared")
		vrt.Assert(f != nil && f.ID() == ids[idx], "C14.struct.fieldbykey.declared")
	} else {
		vrt.Reach("key.undeclared")
		vrt.Assert(f == nil, "C14.struct.fieldbykey.undeclared-nil")
	}
	// arbitrary id
	id := FieldID(vrt.U16())
	g := desc.FieldById(id)
	jdx := -1
	for i := range ids {
		if ids[i] == id {
			jdx = i
		}
	}
	if jdx >= 0 {
		vrt.Reach("id.declared")
		vrt.Assert(g != nil && g.ID() == id, "C14.struct.fieldbyid.declared")
	} else {
		vrt.Reach("id.undeclared")
		vrt.Assert(g == nil, "C14.struct.fieldbyid.undeclared-nil")
	}
}

// VerifC14_Bitmap: RequiresBitmap Set/IsSet/CopyTo for every id and requiredness.
func VerifC14_Bitmap() {
	var b RequiresBitmap
	id1 := FieldID(vrt.U16())
	id2 := FieldID(vrt.U16())
	vrt.Assume(id1 != id2 && id1 < 1024 && id2 < 1024)
	r1 := Requireness(vrt.U8() % 3)
	b.Set(id1, r1)
	b.Set(id2, RequiredRequireness)
	vrt.Assert(b.IsSet(id1) == (r1 != OptionalRequireness), "C14.bitmap.isset.after-set")
	vrt.Assert(b.IsSet(id2), "C14.bitmap.isset.other")
	var c RequiresBitmap
	if vrt.Bool() {
		c = make(RequiresBitmap, 1, 40)
		c[0] = ^uint64(0) // dirty pooled memory
	}
	b.CopyTo(&c)
	vrt.Assert(len(c) == len(b), "C14.bitmap.copy.len")
	vrt.Assert(c.IsSet(id1) == b.IsSet(id1) && c.IsSet(id2), "C14.bitmap.copy.bits")
	c.Set(id2, OptionalRequireness)
	vrt.Assert(!c.IsSet(id2) && b.IsSet(id2), "C14.bitmap.copy.independent")
	vrt.Reach("done")
}
