package generic

import (
	"math"

	vrt "github.com/cloudwego/dynamicgo/internal/zzverif"
	"github.com/cloudwego/dynamicgo/proto"
	gpw "google.golang.org/protobuf/encoding/protowire"
)

func init() {
	vrt.Register("VerifC07_Scalar", VerifC07_Scalar)
	vrt.Register("VerifC07_List", VerifC07_List)
	vrt.Register("VerifC07_Map", VerifC07_Map)
}

func verifWire(k proto.Type) gpw.Type {
	switch k {
	case proto.DOUBLE, proto.FIX64, proto.SFIX64:
		return gpw.Fixed64Type
	case proto.FLOAT, proto.FIX32, proto.SFIX32:
		return gpw.Fixed32Type
	case proto.STRING, proto.BYTE, proto.MESSAGE:
		return gpw.BytesType
	}
	return gpw.VarintType
}

// verifScalar is a model value of one scalar kind.
type verifScalar struct {
	k   proto.Type
	raw uint64 // canonical 64-bit model of numeric kinds (sign-extended for signed kinds, 0/1 for bool)
	bs  []byte // string / bytes payload
}

// verifNewScalar draws an arbitrary value of kind k (strings of SL symbolic bytes).
func verifNewScalar(k proto.Type, sl int) verifScalar {
	s := verifScalar{k: k}
	switch k {
	case proto.STRING, proto.BYTE:
		s.bs = vrt.Bytes(sl)
	case proto.BOOL:
		if vrt.Bool() {
			s.raw = 1
		}
	case proto.INT32, proto.SINT32, proto.SFIX32, proto.ENUM:
		s.raw = uint64(int64(int32(vrt.U32())))
	case proto.UINT32, proto.FIX32, proto.FLOAT:
		s.raw = uint64(vrt.U32())
	default:
		s.raw = vrt.U64()
	}
	return s
}

// verifAppendValue appends the value (without tag) the way protobuf-go encodes it.
func verifAppendValue(b []byte, s verifScalar) []byte {
	switch s.k {
	case proto.STRING, proto.BYTE:
		return gpw.AppendBytes(b, s.bs)
	case proto.SINT32, proto.SINT64:
		return gpw.AppendVarint(b, gpw.EncodeZigZag(int64(s.raw)))
	case proto.FIX32, proto.SFIX32, proto.FLOAT:
		return gpw.AppendFixed32(b, uint32(s.raw))
	case proto.FIX64, proto.SFIX64, proto.DOUBLE:
		return gpw.AppendFixed64(b, s.raw)
	}
	return gpw.AppendVarint(b, s.raw)
}

// verifCheckScalar asserts that node decodes to the model value through the typed casts.
func verifCheckScalar(n Node, s verifScalar, label string) {
	vrt.Assert(!n.IsError(), label+".noerror")
	if n.IsError() {
		return
	}
	vrt.Assert(n.Type() == s.k, label+".kind")
	switch s.k {
	case proto.BOOL:
		v, err := n.Bool()
		vrt.Assert(err == nil && v == (s.raw != 0), label+".value")
	case proto.INT32, proto.SINT32, proto.SFIX32, proto.INT64, proto.SINT64, proto.SFIX64:
		v, err := n.Int()
		vrt.Assert(err == nil && v == int(int64(s.raw)), label+".value")
	case proto.ENUM:
		v, err := n.Enum()
		vrt.Assert(err == nil && v == int(int64(s.raw)), label+".value")
	case proto.UINT32, proto.UINT64, proto.FIX32, proto.FIX64:
		v, err := n.Uint()
		vrt.Assert(err == nil && uint64(v) == s.raw, label+".value")
	case proto.DOUBLE:
		v, err := n.Float64()
		vrt.Assert(err == nil && math.Float64bits(v) == s.raw, label+".value")
	case proto.FLOAT:
		// a 32-bit float is exposed widened to float64 (Float64() and Interface()); both sides apply the
		// same IEEE widening to the model bits, so NaN payloads compare equal iff the bits were equal
		v, err := n.Float64()
		vrt.Assert(err == nil && math.Float64bits(v) == math.Float64bits(float64(math.Float32frombits(uint32(s.raw)))), label+".value")
		iv, err := Value{Node: n, Desc: proto.VerifBasic(proto.FLOAT)}.Interface(&Options{})
		vrt.Assert(err == nil, label+".float.interface-noerror")
		if err == nil {
			x, ok := iv.(float64)
			vrt.Assert(ok && math.Float64bits(x) == math.Float64bits(float64(math.Float32frombits(uint32(s.raw)))), label+".float.interface-value")
		}
	case proto.STRING:
		v, err := n.String()
		vrt.Assert(err == nil && len(v) == len(s.bs), label+".value.len")
		if err == nil && len(v) == len(s.bs) {
			same := true
			for i := range s.bs {
				if v[i] != s.bs[i] {
					same = false
				}
			}
			vrt.Assert(same, label+".value")
		}
	case proto.BYTE:
		v, err := n.Binary()
		vrt.Assert(err == nil && len(v) == len(s.bs), label+".value.len")
		if err == nil && len(v) == len(s.bs) {
			same := true
			for i := range s.bs {
				if v[i] != s.bs[i] {
					same = false
				}
			}
			vrt.Assert(same, label+".value")
		}
	}
}

// VerifC07_Scalar: message{int32 p=1; K x=FN; string s=FN+1}; the target field of every scalar kind K,
// every value, present or absent, with optional neighbours, read by number, by name and by path.
func VerifC07_Scalar() {
	k := proto.Type(vrt.Param("K"))
	fn := proto.FieldNumber(vrt.Param("FN"))
	msg := proto.VerifNewMessage("M")
	proto.VerifAddField(msg, 1, "p", "p", proto.VerifBasic(proto.INT32), false)
	proto.VerifAddField(msg, fn, "x_val", "xVal", proto.VerifBasic(k), false)
	proto.VerifAddField(msg, fn+1, "s", "s", proto.VerifBasic(proto.STRING), false)
	proto.VerifBuild(msg)

	var b []byte
	if vrt.Bool() {
		b = gpw.AppendTag(b, 1, gpw.VarintType)
		b = gpw.AppendVarint(b, uint64(int64(int32(vrt.U32()))))
	}
	present := vrt.Bool()
	val := verifNewScalar(k, vrt.Param("SL"))
	if present {
		b = gpw.AppendTag(b, gpw.Number(fn), verifWire(k))
		b = verifAppendValue(b, val)
	}
	if vrt.Bool() {
		b = gpw.AppendTag(b, gpw.Number(fn+1), gpw.BytesType)
		b = gpw.AppendBytes(b, vrt.Bytes(1))
	}
	root := NewRootValue(msg, b)
	g1 := root.GetByPath(NewPathFieldId(fn))
	g2 := root.Field(fn)
	g3 := root.FieldByName("x_val")
	g4 := root.GetByPath(NewPathFieldName("xVal"))
	if present {
		vrt.Reach("present")
		verifCheckScalar(g1.Node, val, "C07.scalar.getbypath")
		verifCheckScalar(g2.Node, val, "C07.scalar.field")
		verifCheckScalar(g3.Node, val, "C07.scalar.fieldbyname")
		verifCheckScalar(g4.Node, val, "C07.scalar.getbypath.name")
	} else {
		vrt.Reach("absent")
		vrt.Assert(g1.IsErrNotFound(), "C07.scalar.getbypath.absent")
		vrt.Assert(g2.IsErrNotFound(), "C07.scalar.field.absent")
		vrt.Assert(g3.IsErrNotFound(), "C07.scalar.fieldbyname.absent")
		vrt.Assert(g4.IsErrNotFound(), "C07.scalar.getbypath.name.absent")
	}
}

// verifNarrow restricts a numeric model value to a one-byte varint (keeps the layout count small for
// the elements that are not the one under test).
func verifNarrow(s verifScalar) {
	switch s.k {
	case proto.STRING, proto.BYTE, proto.BOOL, proto.FIX32, proto.SFIX32, proto.FLOAT, proto.FIX64, proto.SFIX64, proto.DOUBLE:
		return
	case proto.SINT32, proto.SINT64:
		vrt.Assume(int64(s.raw) >= -64 && int64(s.raw) < 64)
	default:
		vrt.Assume(s.raw < 128)
	}
}

// VerifC07_List: message{int32 p=1; repeated K xs=2; string s=3} with CNT elements in protobuf-go
// layout (scalars packed, string/bytes one record per element).  The element under test (index WANT,
// or one past the end) is fully symbolic, its siblings are one-byte varints.
//   OP=0: the whole repeated field (Field/GetByPath -> LIST node, Len)
//   OP=1: element addressed by path GetByPath(FieldId, Index)
//   OP=2: element addressed through the LIST node's Index()
func VerifC07_List() {
	k := proto.Type(vrt.Param("K"))
	cnt := vrt.Param("CNT")
	op := vrt.Param("OP")
	want := vrt.Param("WANT")
	if want > cnt {
		// not a scenario
		vrt.Reach("skip")
		return
	}
	if op != 1 && cnt > 1 && (verifWire(k) == gpw.Fixed32Type || verifWire(k) == gpw.Fixed64Type) {
		// whole-list access to packed fixed-width kinds is a recorded finding at CNT=1 (elements are
		// scanned as varints); larger counts only multiply the paths through that defect
		vrt.Reach("skip")
		return
	}
	msg := proto.VerifNewMessage("M")
	proto.VerifAddField(msg, 1, "p", "p", proto.VerifBasic(proto.INT32), false)
	proto.VerifAddField(msg, 2, "xs", "xs", proto.VerifBasic(k), true)
	proto.VerifAddField(msg, 3, "s", "s", proto.VerifBasic(proto.STRING), false)
	proto.VerifBuild(msg)
	var b []byte
	if vrt.Bool() {
		b = gpw.AppendTag(b, 1, gpw.VarintType)
		b = gpw.AppendVarint(b, uint64(vrt.U8()))
	}
	vals := make([]verifScalar, cnt)
	for i := range vals {
		vals[i] = verifNewScalar(k, vrt.Param("SL"))
		if i != want {
			verifNarrow(vals[i])
		}
	}
	packed := k != proto.STRING && k != proto.BYTE
	if cnt > 0 {
		if packed {
			var payload []byte
			for i := range vals {
				payload = verifAppendValue(payload, vals[i])
			}
			b = gpw.AppendTag(b, 2, gpw.BytesType)
			b = gpw.AppendBytes(b, payload)
		} else {
			for i := range vals {
				b = gpw.AppendTag(b, 2, gpw.BytesType)
				b = verifAppendValue(b, vals[i])
			}
		}
	}
	if vrt.Bool() {
		b = gpw.AppendTag(b, 3, gpw.BytesType)
		b = gpw.AppendBytes(b, vrt.Bytes(1))
	}
	root := NewRootValue(msg, b)
	// scenario label: layout x position class, so that a finding in one class does not mask the others
	scen := "C07.list.unpacked"
	if packed {
		scen = "C07.list.packed"
		switch verifWire(k) {
		case gpw.Fixed32Type:
			scen += ".fixed32"
		case gpw.Fixed64Type:
			scen += ".fixed64"
		default:
			scen += ".varint"
		}
	}
	pos := ".first"
	if want > 0 {
		pos = ".later"
	}
	if want == cnt {
		pos = ".pastend"
	}
	switch op {
	case 0:
		lst := root.GetByPath(NewPathFieldId(2))
		l2 := root.Field(2)
		if cnt == 0 {
			vrt.Reach("empty")
			vrt.Assert(lst.IsErrNotFound(), scen+".empty.getbypath.notfound")
			vrt.Assert(l2.IsErrNotFound(), scen+".empty.field.notfound")
			return
		}
		vrt.Reach("whole")
		vrt.Assert(!lst.IsError(), scen+".whole.getbypath.noerror")
		if !lst.IsError() {
			n, err := lst.Len()
			vrt.Assert(err == nil && n == cnt, scen+".whole.getbypath.len")
			xs, err := lst.List(&Options{})
			vrt.Assert(err == nil && len(xs) == cnt, scen+".whole.getbypath.golist")
		}
		vrt.Assert(!l2.IsError(), scen+".whole.field.noerror")
		if !l2.IsError() {
			// Field() returns a lazily sized LIST node; its content is observed through List()
			xs, err := l2.List(&Options{})
			vrt.Assert(err == nil && len(xs) == cnt, scen+".whole.field.golist")
		}
	case 1:
		g1 := root.GetByPath(NewPathFieldId(2), NewPathIndex(want))
		if want < cnt {
			vrt.Reach("found")
			verifCheckScalar(g1.Node, vals[want], scen+pos+".getbypath")
		} else {
			vrt.Reach("absent")
			vrt.Assert(g1.IsErrNotFound(), scen+".pastend.getbypath.notfound")
		}
	case 2:
		if cnt == 0 {
			vrt.Reach("skip")
			return
		}
		lst := root.Field(2)
		if lst.IsError() {
			// the whole-list lookup is the subject of OP=0
			vrt.Reach("skip")
			return
		}
		g := lst.Index(want)
		if want < cnt {
			vrt.Reach("found")
			verifCheckScalar(g.Node, vals[want], scen+pos+".index")
		} else {
			vrt.Reach("absent")
			vrt.Assert(g.IsError(), scen+".pastend.index.error")
		}
	}
}

// VerifC07_Map: message{map<KT,VT> m=2} with CNT entries in protobuf-go layout (one record per pair, key then value).
func VerifC07_Map() {
	kt := proto.Type(vrt.Param("KT"))
	vt := proto.Type(vrt.Param("VT"))
	cnt := vrt.Param("CNT")
	msg := proto.VerifNewMessage("M")
	proto.VerifAddField(msg, 1, "p", "p", proto.VerifBasic(proto.INT32), false)
	proto.VerifAddMap(msg, 2, "m", "m", proto.VerifBasic(kt), proto.VerifBasic(vt))
	proto.VerifBuild(msg)
	var b []byte
	if vrt.Bool() {
		b = gpw.AppendTag(b, 1, gpw.VarintType)
		b = gpw.AppendVarint(b, uint64(vrt.U8()))
	}
	keys := make([]verifScalar, cnt)
	vals := make([]verifScalar, cnt)
	for i := 0; i < cnt; i++ {
		keys[i] = verifNewScalar(kt, 1)
		vals[i] = verifNewScalar(vt, 1)
		if i > 0 {
			// only the first entry is full-range; the others are one-byte varints
			verifNarrow(keys[i])
			verifNarrow(vals[i])
		}
		for j := 0; j < i; j++ {
			if kt == proto.STRING {
				vrt.Assume(keys[i].bs[0] != keys[j].bs[0])
			} else {
				vrt.Assume(keys[i].raw != keys[j].raw)
			}
		}
		var e []byte
		e = gpw.AppendTag(e, 1, verifWire(kt))
		e = verifAppendValue(e, keys[i])
		e = gpw.AppendTag(e, 2, verifWire(vt))
		e = verifAppendValue(e, vals[i])
		b = gpw.AppendTag(b, 2, gpw.BytesType)
		b = gpw.AppendBytes(b, e)
	}
	root := NewRootValue(msg, b)
	want := verifNewScalar(kt, 1)
	idx := -1
	for i := 0; i < cnt; i++ {
		if kt == proto.STRING {
			if keys[i].bs[0] == want.bs[0] {
				idx = i
			}
		} else if keys[i].raw == want.raw {
			idx = i
		}
	}
	var path Path
	if kt == proto.STRING {
		path = NewPathStrKey(string(want.bs))
	} else {
		path = NewPathIntKey(int(int64(want.raw)))
	}
	g1 := root.GetByPath(NewPathFieldId(2), path)
	m := root.GetByPath(NewPathFieldId(2))
	if cnt == 0 {
		vrt.Reach("empty")
		vrt.Assert(m.IsErrNotFound(), "C07.map.empty.absent")
		return
	}
	vrt.Assert(!m.IsError(), "C07.map.field.noerror")
	if !m.IsError() {
		n, err := m.Len()
		vrt.Assert(err == nil && n == cnt, "C07.map.len")
	}
	if idx >= 0 {
		vrt.Reach("found")
		verifCheckScalar(g1.Node, vals[idx], "C07.map.getbypath")
		if !m.IsError() {
			if kt == proto.STRING {
				verifCheckScalar(m.GetByStr(string(want.bs)).Node, vals[idx], "C07.map.getbystr")
			} else {
				verifCheckScalar(m.GetByInt(int(int64(want.raw))).Node, vals[idx], "C07.map.getbyint")
			}
		}
	} else {
		vrt.Reach("absent")
		vrt.Assert(g1.IsErrNotFound(), "C07.map.getbypath.absent")
	}
}

func init() { vrt.Register("VerifC07_GetMany", VerifC07_GetMany) }

// VerifC07_GetMany: message{int32 p=1; repeated int32 xs=2 [packed]; repeated string ss=3; map<string,int32> m=4;
// string s=5}: the batch lookups GetMany -> Fields / Indexes / Gets return, for every requested path, the
// element the single lookups return, and leave absent ones unset.
func VerifC07_GetMany() {
	cnt := vrt.Param("CNT")
	msg := proto.VerifNewMessage("M")
	proto.VerifAddField(msg, 1, "p", "p", proto.VerifBasic(proto.INT32), false)
	proto.VerifAddField(msg, 2, "xs", "xs", proto.VerifBasic(proto.INT32), true)
	proto.VerifAddField(msg, 3, "ss", "ss", proto.VerifBasic(proto.STRING), true)
	proto.VerifAddMap(msg, 4, "m", "m", proto.VerifBasic(proto.STRING), proto.VerifBasic(proto.INT32))
	proto.VerifAddField(msg, 5, "s", "s", proto.VerifBasic(proto.STRING), false)
	proto.VerifBuild(msg)
	opts := &Options{ClearDirtyValues: true}
	var b []byte
	hasP := vrt.Bool()
	pv := verifNewScalar(proto.INT32, 0)
	if hasP {
		b = verifAppendValue(gpw.AppendTag(b, 1, gpw.VarintType), pv)
	}
	xs := make([]verifScalar, cnt)
	ss := make([]verifScalar, cnt)
	mk := make([][]byte, cnt)
	mv := make([]verifScalar, cnt)
	var packed []byte
	for i := 0; i < cnt; i++ {
		xs[i] = verifNewScalar(proto.INT32, 0)
		if i > 0 {
			verifNarrow(xs[i])
		}
		packed = verifAppendValue(packed, xs[i])
	}
	if cnt > 0 {
		b = gpw.AppendBytes(gpw.AppendTag(b, 2, gpw.BytesType), packed)
	}
	for i := 0; i < cnt; i++ {
		ss[i] = verifNewScalar(proto.STRING, 1)
		b = verifAppendValue(gpw.AppendTag(b, 3, gpw.BytesType), ss[i])
	}
	for i := 0; i < cnt; i++ {
		mk[i] = []byte{'k', byte('0' + i)}
		mv[i] = verifNewScalar(proto.INT32, 0)
		verifNarrow(mv[i])
		var e []byte
		e = gpw.AppendBytes(gpw.AppendTag(e, 1, gpw.BytesType), mk[i])
		e = verifAppendValue(gpw.AppendTag(e, 2, gpw.VarintType), mv[i])
		b = gpw.AppendBytes(gpw.AppendTag(b, 4, gpw.BytesType), e)
	}
	sv := verifNewScalar(proto.STRING, 1)
	b = verifAppendValue(gpw.AppendTag(b, 5, gpw.BytesType), sv)
	root := NewRootValue(msg, b)

	// fields: p (maybe absent), s, an undeclared-but-absent number is not requested (GetMany needs declared fields)
	stale := NewNodeString("stale")
	fs := []PathNode{{Path: NewPathFieldId(1), Node: stale}, {Path: NewPathFieldId(5), Node: stale}}
	err := root.GetMany(fs, opts)
	vrt.Assert(err == nil, "C07.getmany.fields.noerror")
	if err == nil {
		if hasP {
			verifCheckScalar(fs[0].Node, pv, "C07.getmany.fields.present")
		} else {
			vrt.Assert(fs[0].Node.IsUnKnown() || fs[0].Node.IsError(), "C07.getmany.fields.absent-unset")
		}
		verifCheckScalar(fs[1].Node, sv, "C07.getmany.fields.last")
	}
	if cnt == 0 {
		vrt.Reach("empty")
		return
	}
	vrt.Reach("nonempty")
	// list elements: first, last, one past the end
	for li, fn := range []proto.FieldNumber{2, 3} {
		lst := root.GetByPath(NewPathFieldId(fn))
		vrt.Assert(!lst.IsError(), "C07.getmany.list.noerror")
		if lst.IsError() {
			continue
		}
		// (no duplicate requests: with one element the "last" request is the next-to-last index -1, out of range)
		is := []PathNode{{Path: NewPathIndex(0), Node: stale}, {Path: NewPathIndex(cnt - 1), Node: stale}, {Path: NewPathIndex(cnt), Node: stale}}
		if cnt == 1 {
			is[1].Path = NewPathIndex(7)
		}
		err = lst.GetMany(is, opts)
		model := xs
		lab := "C07.getmany.indexes.packed"
		if li == 1 {
			model, lab = ss, "C07.getmany.indexes.unpacked"
		}
		if err != nil {
			// an out-of-range index may make the whole batch fail; the in-range ones alone must succeed
			is = is[:2]
			err = lst.GetMany(is, opts)
		} else {
			vrt.Assert(is[2].Node.IsUnKnown() || is[2].Node.IsError(), lab+".pastend-unset")
		}
		vrt.Assert(err == nil, lab+".noerror")
		if err == nil {
			verifCheckScalar(is[0].Node, model[0], lab+".first")
			if cnt > 1 {
				verifCheckScalar(is[1].Node, model[cnt-1], lab+".last")
			}
		}
	}
	// map entries: first key, last key, absent key
	mp := root.GetByPath(NewPathFieldId(4))
	vrt.Assert(!mp.IsError(), "C07.getmany.map.noerror")
	if !mp.IsError() {
		ks := []PathNode{{Path: NewPathStrKey(string(mk[0])), Node: stale}, {Path: NewPathStrKey(string(mk[cnt-1])), Node: stale}, {Path: NewPathStrKey("zz"), Node: stale}}
		if cnt == 1 {
			ks[1].Path = NewPathStrKey("yy")
		}
		err = mp.GetMany(ks, opts)
		vrt.Assert(err == nil, "C07.getmany.keys.noerror")
		if err == nil {
			verifCheckScalar(ks[0].Node, mv[0], "C07.getmany.keys.first")
			if cnt > 1 {
				verifCheckScalar(ks[1].Node, mv[cnt-1], "C07.getmany.keys.last")
			}
			vrt.Assert(ks[2].Node.IsUnKnown() || ks[2].Node.IsError(), "C07.getmany.keys.absent-unset")
		}
	}
}

func init() { vrt.Register("VerifC07_NestedRepeated", VerifC07_NestedRepeated) }

// VerifC07_NestedRepeated: M{map<string,Inner> members=2; Inner one=3; repeated string tail=2'}: a repeated
// field that is the last thing in a nested message (map value / message field), followed in the parent by
// records of the same field number, addressed by field id or by field NAME: only the nested message's own
// elements are returned.
//   SHAPE=0: members["a"].names, members["b"].names   SHAPE=1: one.names followed by outer field 2 records
func VerifC07_NestedRepeated() {
	byName := vrt.Param("BYNAME") != 0
	shape := vrt.Param("SHAPE")
	ca, cb := vrt.Param("CA"), vrt.Param("CB")
	inner := proto.VerifNewMessage("Inner")
	proto.VerifAddField(inner, 2, "names", "names", proto.VerifBasic(proto.STRING), true)
	proto.VerifBuild(inner)
	msg := proto.VerifNewMessage("M")
	if shape == 0 {
		proto.VerifAddMap(msg, 2, "members", "members", proto.VerifBasic(proto.STRING), inner)
	} else {
		proto.VerifAddField(msg, 3, "one", "one", inner, false)
		proto.VerifAddField(msg, 2, "tail", "tail", proto.VerifBasic(proto.STRING), true)
	}
	proto.VerifBuild(msg)
	mk := func(n int, tag byte) ([]byte, [][]byte) {
		var ib []byte
		var vs [][]byte
		for i := 0; i < n; i++ {
			s := []byte{tag, byte('0' + i), vrt.U8()}
			if vrt.Bool() {
				s = s[:2] // symbolic element length
			}
			vs = append(vs, s)
			ib = gpw.AppendBytes(gpw.AppendTag(ib, 2, gpw.BytesType), s)
		}
		return ib, vs
	}
	ia, va := mk(ca, 'a')
	ib, vb := mk(cb, 'b')
	var b []byte
	var first, second []Path
	fld := func(id proto.FieldNumber, name string) Path {
		if byName {
			return NewPathFieldName(name)
		}
		return NewPathFieldId(id)
	}
	if shape == 0 {
		for i, in := range [][]byte{ia, ib} {
			var e []byte
			e = gpw.AppendBytes(gpw.AppendTag(e, 1, gpw.BytesType), []byte{byte('a' + i)})
			e = gpw.AppendBytes(gpw.AppendTag(e, 2, gpw.BytesType), in)
			b = gpw.AppendBytes(gpw.AppendTag(b, 2, gpw.BytesType), e)
		}
		first = []Path{fld(2, "members"), NewPathStrKey("a"), fld(2, "names")}
		second = []Path{fld(2, "members"), NewPathStrKey("b"), fld(2, "names")}
	} else {
		b = gpw.AppendBytes(gpw.AppendTag(b, 3, gpw.BytesType), ia)
		for _, s := range vb {
			b = gpw.AppendBytes(gpw.AppendTag(b, 2, gpw.BytesType), s)
		}
		first = []Path{fld(3, "one"), fld(2, "names")}
		second = []Path{fld(2, "tail")}
	}
	root := NewRootValue(msg, b)
	check := func(path []Path, vals [][]byte, label string) {
		lst := root.GetByPath(path...)
		if len(vals) == 0 {
			vrt.Assert(lst.IsErrNotFound(), label+".empty.notfound")
			return
		}
		vrt.Assert(!lst.IsError(), label+".noerror")
		if lst.IsError() {
			return
		}
		n, err := lst.Len()
		vrt.Assert(err == nil && n == len(vals), label+".len")
		for i := 0; i <= len(vals); i++ {
			e := root.GetByPath(append(append([]Path{}, path...), NewPathIndex(i))...)
			if i == len(vals) {
				vrt.Assert(e.IsErrNotFound(), label+".pastend.notfound")
				continue
			}
			s, err := e.String()
			vrt.Assert(err == nil && len(s) == len(vals[i]) && vrt.BytesEq([]byte(s), 0, len(s), vals[i], 0, len(vals[i])), label+".element")
		}
	}
	vrt.Reach("checked")
	check(first, va, "C07.nested-repeated.first")
	check(second, vb, "C07.nested-repeated.following")
}
